#include <asl/Var.h>
#include <stdio.h>
using namespace asl;
int main() {
	ULong x = 15000000000000000000ULL;
	Var v(x);
	ULong r = v;
	unsigned u0 = 3000000000u; Var w(u0); unsigned u1 = w;
	printf("%llu -> %llu ; %u -> %u\n", (unsigned long long)x, (unsigned long long)r, u0, u1);
	return r == x && u0 == u1 ? 0 : 1;
}
