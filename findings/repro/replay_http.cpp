// Triage aid only - NOT part of any check. Replays HTTP request-parsing reports against the real library.
//   ./http_replay hashq      request target with '#' before '?'  (GET /a#f?x=1)
//   ./http_replay nospace    header written as "X-Test:value" (no space after the colon)
//   ./http_replay shortbody  Content-Length: 10 but the peer sends 3 bytes and closes
//   ./http_replay range      file server request with "Range: bytes=5" (original tree only)
// A raw TCP peer writes the bytes; the library side wraps the accepted socket in asl::HttpRequest.
#include <asl/Http.h>
#include <asl/Socket.h>
#include <asl/Thread.h>
#include <stdio.h>
using namespace asl;
static String mode;
static int port = 39473;
struct Peer : public Thread {
	void run() {
		Socket s;
		for (int i = 0; i < 50 && !s.connect("127.0.0.1", port); i++) sleep(0.05);
		if (mode == "hashq") s << "GET /a#f?x=1 HTTP/1.1\r\nHost: x\r\n\r\n";
		else if (mode == "nospace") s << "GET / HTTP/1.1\r\nX-Test:value\r\n\r\n";
		else if (mode == "shortbody") s << "POST / HTTP/1.1\r\nContent-Length: 10\r\n\r\nabc";
		sleep(0.3);
		s.close();
	}
};
int main(int argc, char** argv)
{
	mode = argv[1];
	Socket server;
	if (!server.bind("127.0.0.1", port)) { printf("bind failed\n"); return 2; }
	server.listen(1);
	Peer peer; peer.start();
	Socket c = server.accept();
	double t0 = now();
	HttpRequest req(c);
	printf("method=%s path=%s query=%s X-Test='%s' body=%i bytes, took %.2f s\n", *req.method(), *req.path(), *req.querystring(), *req.header("X-Test"), req.body().length(), now() - t0);
	peer.join();
	return 0;
}
