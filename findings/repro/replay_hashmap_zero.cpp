#include <asl/HashMap.h>
#include <asl/String.h>
#include <stdio.h>
using namespace asl;
int main() {
    HashMap<int,int> h(0);
    h[5] = 7; h[123456] = 9;
    printf("%d %d %d\n", h.length(), h[5], h.has(123456));
    return (h.length()==2 && h[5]==7) ? 0 : 1;
}
