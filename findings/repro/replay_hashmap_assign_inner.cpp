// HashMap::operator=(const HashMap&) with an argument that lives inside the map being replaced (kids = kids[1].kids).
// On the tree before the fix the old table is cleared first - which destroys the argument - and `a = b.a; ++_rc()` then
// reads and writes freed memory (AddressSanitizer: heap-use-after-free).
#include <asl/HashMap.h>
#include <asl/String.h>
#include <stdio.h>
using namespace asl;

struct Tree
{
	int tag;
	HashMap<int, Tree> kids;
	Tree() : tag(0) {}
};

int main()
{
	Tree t;
	t.kids[1].tag = 10;
	t.kids[1].kids[2].tag = 20;
	t.kids[1].kids[3].tag = 30;
	t.kids = t.kids[1].kids; // step down one level
	int n = t.kids.length();
	bool ok = n == 2 && t.kids.has(2) && t.kids.has(3) && t.kids[2].tag == 20 && t.kids[3].tag == 30;
	printf("%s: %d children\n", ok ? "OK" : "FAILED", n);
	return ok ? 0 : 1;
}
