// Triage aid only - NOT part of any check. Replays the WebSocket reports against the real library:
//   ./ws_replay len64    frame with 64-bit length 0xFFFFFFFF80000010 (low 32 bits negative as int)
//   ./ws_replay pingfin  text message in two fragments with a ping in between
// A raw TCP peer writes the frames; the library side wraps the accepted socket in asl::WebSocket.
#include <asl/WebSocket.h>
#include <asl/Socket.h>
#include <asl/Thread.h>
#include <stdio.h>
#include <string.h>
using namespace asl;

static String mode;
static int port = 39471;

struct Peer : public Thread
{
	void run()
	{
		Socket s;
		for (int i = 0; i < 50 && !s.connect("127.0.0.1", port); i++) sleep(0.05);
		if (mode == "len64") {
			byte f[10] = { 0x82, 127, 0xff, 0xff, 0xff, 0xff, 0x80, 0x00, 0x00, 0x10 };
			s.write(f, 10);
			byte pay[16] = { 0 };
			s.write(pay, 16);
		}
		else {
			byte f1[] = { 0x01, 3, 'a', 'b', 'c' };       // text, FIN=0
			byte pg[] = { 0x89, 0 };                        // ping, FIN=1
			byte f2[] = { 0x80, 3, 'd', 'e', 'f' };       // continuation, FIN=1
			s.write(f1, sizeof(f1)); s.write(pg, sizeof(pg)); s.write(f2, sizeof(f2));
		}
		sleep(0.5);
		s.close();
	}
};

int main(int argc, char** argv)
{
	mode = argv[1];
	Socket server;
	if (!server.bind("127.0.0.1", port)) { printf("bind failed\n"); return 2; }
	server.listen(1);
	Peer peer; peer.start();
	Socket c = server.accept();
	WebSocket ws(c, false);
	WebSocketMsg m = ws.receive();
	printf("first message: length=%i text='%s' closed=%i\n", m.length(), *m, (int)ws.closed());
	if (mode == "pingfin" && !ws.closed()) {
		if (m.length() == 6) { printf("OK: whole message in one piece\n"); }
		else {
			WebSocketMsg m2 = ws.receive();
			printf("second message: length=%i text='%s'\n", m2.length(), *m2);
		}
	}
	peer.join();
	return 0;
}
