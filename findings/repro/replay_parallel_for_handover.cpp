#include <asl/Thread.h>
#include <asl/Mutex.h>
#include <asl/Array.h>
#include <stdio.h>
#include <atomic>
using namespace asl;

static int fails = 0;
#define CHECK(c) do { if(!(c)) { printf("FAIL line %d: %s\n", __LINE__, #c); fails++; } } while(0)

struct W : public Thread
{
	std::atomic<int>* cnt; int work; int val;
	W(std::atomic<int>* c = 0, int w = 0) : cnt(c), work(w), val(0) {}
	void run() { for (volatile int i = 0; i < work; i++) {} val = 42; if (cnt) (*cnt)++; }
};

int main()
{
	// parallel_for exhaustive
	for (int i0 = -3; i0 <= 40; i0++)
		for (int i1 = -3; i1 <= 40; i1++)
			for (int nth = 1; nth <= 12; nth += (i0 % 3 == 0 ? 1 : 3))
			{
				std::atomic<int> c[64];
				for (int k = 0; k < 64; k++) c[k] = 0;
				std::atomic<int> other(0);
				Thread::parallel_for(i0, i1, [&](int i) { if (i + 8 >= 0 && i + 8 < 64) c[i + 8]++; else other++; }, nth);
				for (int k = 0; k < 64; k++) { int i = k - 8; int e = (i >= i0 && i < i1) ? 1 : 0; if (c[k] != e) { printf("pf %d %d %d idx %d got %d\n", i0, i1, nth, i, (int)c[k]); fails++; } }
				CHECK(other == 0);
			}
	// larger ranges, default nth
	{
		const int N = 5000; static std::atomic<int> c[N]; for (int k = 0; k < N; k++) c[k] = 0;
		Thread::parallel_for(0, N, [&](int i) { c[i]++; });
		for (int k = 0; k < N; k++) CHECK(c[k] == 1);
		Thread::parallel_for(100, 1000, [&](int i) { c[i]++; }, 37);
		for (int k = 0; k < N; k++) CHECK(c[k] == ((k >= 100 && k < 1000) ? 2 : 1));
	}
	// subclassed threads
	for (int rep = 0; rep < 300; rep++)
	{
		std::atomic<int> n(0);
		W w(&n, (rep % 5) * 20000);
		CHECK(!w.finished());
		w.start();
		w.join();
		CHECK(w.finished()); CHECK(n == 1); CHECK(w.val == 42);
	}
	// lambda threads
	for (int rep = 0; rep < 300; rep++)
	{
		int x = 0;
		int work = (rep % 5) * 20000;
		Thread t([&]() { for (volatile int i = 0; i < work; i++) {} x++; });
		t.join();
		CHECK(x == 1); CHECK(t.finished());
	}
	// thread copy / assign
	for (int rep = 0; rep < 100; rep++)
	{
		std::atomic<int> x(0);
		Thread t([&]() { x++; });
		Thread u(t);
		CHECK(!u.finished() || true);
		Thread v;
		v = u;
		v.join();
		CHECK(x == 1);
		Array<Thread> a;
		Thread t2([&]() { x++; }), t3([&]() { x++; });
		a << t2 << t3;
		foreach(Thread& th, a) th.join();
		CHECK(x == 3);
	}
	// ThreadGroup
	for (int rep = 0; rep < 50; rep++)
	{
		std::atomic<int> n(0);
		ThreadGroup<W> g;
		int m = rep % 13;
		for (int i = 0; i < m; i++) g << W(&n, (i % 3) * 10000);
		g.start();
		g.join();
		CHECK(n == m);
		foreach(W& w, g._threads) { CHECK(w.finished()); CHECK(w.val == 42); }
	}
	// parallel_invoke
	for (int rep = 0; rep < 200; rep++)
	{
		std::atomic<int> a(0), b(0), c(0), d(0);
		Thread::parallel_invoke([&]() { a++; }, [&]() { b++; });
		CHECK(a == 1 && b == 1);
		Thread::parallel_invoke([&]() { a++; }, [&]() { b++; }, [&]() { c++; });
		CHECK(a == 2 && b == 2 && c == 1);
		Thread::parallel_invoke([&]() { a++; }, [&]() { b++; }, [&]() { c++; }, [&]() { d++; });
		CHECK(a == 3 && b == 3 && c == 2 && d == 1);
	}
	// Semaphore
	{
		Semaphore s;
		CHECK(s.value() == 0); CHECK(!s.trywait());
		s.post(); CHECK(s.value() == 1);
		s.post(3); CHECK(s.value() == 4);
		s.post(0); CHECK(s.value() == 4);
		s.post(-5); CHECK(s.value() == 4);
		s.post((int)0x80000000); CHECK(s.value() == 4);
		CHECK(s.trywait()); CHECK(s.value() == 3);
		s.wait(); CHECK(s.wait(0.01)); CHECK(s.value() == 1);
		s.wait(); CHECK(!s.wait(0.02)); CHECK(!s.trywait());
		Semaphore s2(5); CHECK(s2.value() == 5);
		// producer/consumer
		Semaphore items, done; std::atomic<int> got(0);
		const int N = 2000, C = 4;
		ThreadGroup<Thread> dummy;
		Array<Thread*> cons;
		for (int i = 0; i < C; i++) cons << new Thread([&]() { for (int k = 0; k < N / C; k++) { items.wait(); got++; } done.post(); });
		for (int k = 0; k < N / 10; k++) { items.post(4); items.post(); items.post(5); }
		for (int i = 0; i < C; i++) done.wait();
		CHECK(got == N); CHECK(items.value() == 0);
		foreach(Thread* t, cons) { t->join(); delete t; }
	}
	// Condition
	for (int rep = 0; rep < 200; rep++)
	{
		Mutex m; Condition c(m); Condition c2; c2.use(m);
		bool ready = false, ready2 = false;
		Thread t([&]() { m.lock(); ready = true; c.signal(); m.unlock(); m.lock(); ready2 = true; c2.signal(); m.unlock(); });
		m.lock(); while (!ready) c.wait(); m.unlock();
		m.lock(); while (!ready2) c2.wait(1.0); m.unlock();
		t.join();
		CHECK(ready && ready2);
		m.lock(); CHECK(c.wait(0.002)); m.unlock();
	}
	printf(fails ? "FAILED %d\n" : "OK\n", fails);
	return fails != 0;
}
