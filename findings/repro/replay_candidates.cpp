// Triage aid only — NOT part of any check. Each case replays, against the real
// library, one report that the static rules in DESIGN.md are expected to raise on
// the pinned tree, to decide "genuine defect" vs "engine false alarm" (DESIGN.md §7).
//
// Build (scratch dir outside /repo and /verif, delete afterwards):
//   for f in /repo/src/*.cpp (except TlsSocket.cpp):
//     clang++ -std=c++11 -DASL_STATIC -I/repo/include -O1 -g -fsanitize=address,undefined -w -c $f
//   ar rcs libasl_asan.a *.o
//   clang++ -std=c++11 -DASL_STATIC -I/repo/include -O1 -g -fsanitize=address,undefined -w \
//       replay_candidates.cpp libasl_asan.a -lpthread -ldl -lrt -o replay
//   ./replay <case>
#include <asl/Array.h>
#include <asl/String.h>
#include <asl/HashMap.h>
#include <asl/Set.h>
#include <asl/Var.h>
#include <asl/JSON.h>
#include <asl/Xml.h>
#include <asl/util.h>
#include <asl/StreamBuffer.h>
#include <asl/Thread.h>
#include <asl/Shared.h>
#include <stdio.h>
#include <string.h>
using namespace asl;
int main(int argc, char** argv)
{
	String t = argv[1];
	if (t == "hm_remove") {
		HashMap<int,int> m; m[1]=1; m[257]=2; m[513]=3; // same bucket (256 buckets)
		m.remove(1);
		printf("len=%i has257=%i has513=%i\n", m.length(), (int)m.has(257), (int)m.has(513));
	}
	else if (t == "hm_eq") {
		HashMap<int,int> a, b; a[1]=1; a[257]=2; b[257]=2; b[1]=1;
		printf("eq=%i\n", (int)(a==b));
		Set<int> s1, s2; s1 << 1 << 257; s2 << 257 << 1;
		printf("seteq=%i\n", (int)(s1==s2));
	}
	else if (t == "arr_insert_alias") {
		Array<String> a; a << "aaaaaaaaaaaaaaaaaaaaaaaaaaaaaaaaaa" << "b" << "c"; // cap 3
		a << a[0];
		printf("%s\n", *a[3]);
	}
	else if (t == "arr_insert_shift") {
		Array<int> a; a.reserve(10); a << 10 << 11 << 12;
		a.insert(0, a[2]);
		printf("%i (expect 12)\n", a[0]);
	}
	else if (t == "arr_append_self") {
		Array<int> a; for (int i=0;i<5;i++) a << i;
		a.append(a);
		printf("len=%i\n", a.length());
	}
	else if (t == "arr_shared_growth") {
		Array<int> a; Array<int> b = a; for (int i=0;i<100;i++) a << i;
		printf("b.len=%i\n", b.length());
	}
	else if (t == "str_append_self") {
		String s = "0123456789abcdefghij"; // heap, size 24?
		s += s; printf("%s\n", *s);
	}
	else if (t == "str_count") {
		char* p = (char*)malloc(2); p[0] = (char)0xC3; p[1] = 0; // ends with a lone lead byte, flush at end
		String s(p); // copy has its own buffer
		String* q = new String(1, 1); (*q)[0]=(char)0xC3; (*q)[1]=0;
		printf("count=%i\n", q->count());
	}
	else if (t == "myltoa") {
		String s((Long)(-9223372036854775807LL - 1)); printf("%s\n", *s);
	}
	else if (t == "var_assign_elem") {
		Var a; a << 1 << 2; a = a[0]; printf("%s\n", *a.toString());
	}
	else if (t == "var_assign_elem_arr") {
		Var a; Var inner; inner << 5 << 6; a << inner << 2; a = a[0]; printf("%s\n", *a.toString());
	}
	else if (t == "json_ctrl") {
		Var v = String("a\x01" "b"); String j = Json::encode(v); Var w = Json::decode(j); printf("ok=%i\n", (int)w.ok());
		Var o; o["a/b"] = 1; j = Json::encode(o); w = Json::decode(j); printf("json=%s ok=%i\n", *j, (int)w.ok());
	}
	else if (t == "xml_pop") {
		Xml x = Xml::decode("<a></a></>"); printf("%i\n", (int)!!x);
	}
	else if (t == "hex_odd") {
		ByteArray a = decodeHex("0102030405060"); printf("%i\n", a.length());
	}
	else if (t == "b64_neg") {
		ByteArray a = decodeBase64("====="); printf("%i\n", a.length());
	}
	else if (t == "stream_arr") {
		StreamBuffer b(ENDIAN_LITTLE); Array<int> x; x << 1 << 2 << 3; b << x; printf("bytes=%i (expect 12)\n", b.length());
		StreamBuffer c(ENDIAN_BIG); c << x; printf("bytes=%i (expect 12)\n", c.length());
	}
	else if (t == "thread_finished") {
		int bad = 0;
		for (int i = 0; i < 2000; i++) { Thread th([](){}); th.join(); if (!th.finished()) bad++; }
		printf("not finished after join: %i / 2000\n", bad);
	}
	else if (t == "smart_default") {
		SmartObject a; { SmartObject b = a; } SmartObject c = a; printf("done\n");
	}
	else if (t == "hm_self_assign") {
		HashMap<int,int> m; m[1]=1; m[2]=2; HashMap<int,int>& r = m; m = r; printf("len=%i has1=%i\n", m.length(), (int)m.has(1));
	}
	else if (t == "smart_self_assign") {
		SmartObject a((SmartObject_*)new SmartObject_); SmartObject& r = a; a = r; SmartObject b = a; printf("done\n");
	}
	else if (t == "str_assign_piece") {
		String s = "0123456789abcdefghijklmnopqrstuvwxyz"; s = s.data() + 1; printf("%s\n", *s);
	}
	else if (t == "var_assign_prop") {
		Var o; o["k"] = 5; o["j"] = "x"; o = o["k"]; printf("%s\n", *o.toString());
	}
	else if (t == "b64_short_n") {
		String s = "QUJDREVGR0hJSktMTU5PUFFSU1RVVldYWVo="; ByteArray a = decodeBase64(*s, 4); printf("%i\n", a.length());
	}
	return 0;
}
