#include <asl/Array.h>
#include <asl/String.h>
#include <stdio.h>
using namespace asl;
int main(){
  int bad = 0;
  for (int n0 = 1; n0 < 40; n0++) {
    Array<String> a;
    for (int i = 0; i < n0; i++) a << String(i) + "-element-long-enough-for-heap";
    Array<String> ref = a.clone();
    a.append(&a[0], a.length());       // argument refers to the elements of the same array
    if (a.length() != 2 * n0) bad++;
    for (int i = 0; i < n0; i++) if (!(a[n0 + i] == ref[i])) bad++;
  }
  for (int n0 = 3; n0 < 40; n0++) {
    Array<String> a;
    for (int i = 0; i < n0; i++) a << String(i) + "-element-long-enough-for-heap";
    Array<String> ref = a.clone();
    a.copy(&a[1], n0 - 2);              // keep elements 1 .. n0-2
    if (a.length() != n0 - 2) bad++;
    for (int i = 0; i < a.length(); i++) if (!(a[i] == ref[i + 1])) bad++;
  }
  printf("bad %d\n", bad);
  return bad != 0;
}
