#include <asl/Var.h>
#include <stdio.h>
using namespace asl;
int main(){
  Var v(Var::STRING);
  String s = v.toString();
  printf("len %d '%s' eq-empty %d is-string %d\n", s.length(), *s, (int)(v == Var("")), (int)v.is(Var::STRING));
  Var w = v;            // copy
  printf("copy eq %d\n", (int)(w == v));
  Var c = v.clone();
  printf("clone '%s'\n", *c.toString());
  return 0;
}
