// Positive control for R-JOIN.selfdelete (parsed, never compiled to code or run): a Thread::run override that deletes
// its own object, and a function deleting a started thread without joining it. Must be flagged on every run.
#include <asl/Thread.h>
namespace fixture {
struct SelfDeleting : public asl::Thread
{
	void run() { delete this; }
};
inline void dropUnjoined()
{
	asl::Thread* t = new SelfDeleting;
	t->start();
	delete t;
}
}
