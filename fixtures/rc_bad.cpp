// Positive control for the reference-count rules (parsed, never compiled to code or run):
// a handle class that violates R-RC b, c, d and e on purpose. Every run must flag all four.
#include <asl/atomic.h>

namespace fixture {
struct Core
{
	asl::AtomicCount rc;
	int payload;
	Core() : payload(0) {}               // count starts at 0
};

class BadHandle
{
	Core* _p;
public:
	BadHandle() { _p = new Core; }        // R-RC.e: fresh object left with count 0
	BadHandle(const BadHandle& b) : _p(b._p) {}   // R-RC.c: copy takes no reference
	BadHandle& operator=(const BadHandle& b)
	{
		if (--_p->rc == 0) delete _p;     // R-RC.d: release first, no identity guard
		_p = b._p;
		++_p->rc;
		return *this;
	}
	~BadHandle()
	{
		--_p->rc;
		if (_p->rc == 0) delete _p;       // R-RC.b: separate load instead of the decrement's result
	}
};
inline void use() { BadHandle a; BadHandle b(a); b = a; }
}
