#!/bin/bash
# Runs the repository's own test suite with no verification guard defined (there are no hooks).
# Scratch build directory outside /repo and /verif, removed afterwards.
set -e
B=$(mktemp -d /tmp/asl_baseline.XXXXXX)
trap 'rm -rf "$B"' EXIT
cmake -G Ninja -S /repo -B "$B" -DASL_TESTS=ON -DCMAKE_BUILD_TYPE=Release >/dev/null
cmake --build "$B" -j16 >/dev/null
ctest --test-dir "$B" -j8 --timeout 900
