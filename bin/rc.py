"""R-RC - reference-count protocol of the handle classes (shared by C01, C02, C12).

Typestate dataflow over the CFG of every constructor, destructor and assignment operator of a handle
class, with the bodies of same-family callees (ref(), unref(), alloc(), free(), d(), _rc() ...) inlined
to depth 4.  Events are recognised from the resolved AST: AtomicCount::operator++ / operator-- calls,
initialisation of a count to a constant, delete / free() / ::free of the shared object, null tests of
the handle pointer, identity guards.  Obligations: see DESIGN.md section 2, R-RC a-f."""
import ir, q, cfg as cfgm
from ir import strip, strip_lv, const_val, T, pe, walk_expr, fn_exprs, AnalysisBroken
from core import fwhere

COUNT_REC = 'asl::AtomicCount'

FAMILIES = {
    'Array': {'handle': 'asl::Array', 'family': ['asl::Array'], 'storage': '_a',
              'relocators_exempt': {'alloc': 'installs a fresh block (called from constructors)', 'free': 'the release routine itself; its callers are checked by R-RC.b'}},
    'HashMap': {'handle': 'asl::HashMap', 'family': ['asl::HashMap'], 'storage': 'a',
                'relocators_exempt': {'HashMap': 'constructors install a fresh table', 'operator=': 'handle re-assignment, checked by R-RC.c/d',
                                      'dup': 'detaches this handle onto a private copy by contract (clone())'}},
    'Shared': {'handle': 'asl::Shared', 'family': ['asl::Shared', 'asl::SharedCore'], 'storage': '_p', 'relocators_exempt': None},
    'SmartObject': {'handle': 'asl::SmartObject', 'family': ['asl::SmartObject', 'asl::SmartObject_'], 'storage': '_p', 'relocators_exempt': None},
}


FAMILIES_BY_HANDLE = dict((v['handle'], v['family']) for v in FAMILIES.values())


def is_count_type(f, tid):
    t = T(f, tid)
    if t.get('ref'):
        t = T(f, t.get('to'))
    return t.get('rec') == COUNT_REC


def count_op(e):
    """'inc' / 'dec' for AtomicCount::operator++/--"""
    if e.get('k') == 'call' and e.get('clsp') == COUNT_REC:
        if e.get('pq') == COUNT_REC + '::operator++':
            return 'inc'
        if e.get('pq') == COUNT_REC + '::operator--':
            return 'dec'
    return None


class State(tuple):
    """(inc, dec, first, fresh, destroy, tested, null, distinct, bad_destroy, decvar)"""
    __slots__ = ()

    def __new__(cls, inc=0, dec=0, first='', fresh=-1, destroy=0, tested=False, null=False, distinct=False, bad=False, decvar=-1, lastdec=-1, tmp=-1, swapped=False):
        return tuple.__new__(cls, (inc, dec, first, fresh, destroy, tested, null, distinct, bad, decvar, lastdec, tmp, swapped))

    inc = property(lambda s: s[0])
    dec = property(lambda s: s[1])
    first = property(lambda s: s[2])
    fresh = property(lambda s: s[3])      # -1: no fresh object; otherwise the count it was initialised with
    destroy = property(lambda s: s[4])
    tested = property(lambda s: s[5])
    null = property(lambda s: s[6])
    distinct = property(lambda s: s[7])
    bad = property(lambda s: s[8])        # a destruction happened outside a decrement-and-test branch
    decvar = property(lambda s: s[9])     # local variable holding the value returned by the decrement
    lastdec = property(lambda s: s[10])   # id() of the most recent decrement call node (to recognise its test)
    tmp = property(lambda s: s[11])       # local handle copy-constructed from the argument (copy-and-swap): its id, or -1
    swapped = property(lambda s: s[12])   # the storage of *this was swapped with that local's

    def set(self, **kw):
        names = ('inc', 'dec', 'first', 'fresh', 'destroy', 'tested', 'null', 'distinct', 'bad', 'decvar', 'lastdec', 'tmp', 'swapped')
        vals = list(self)
        for k, v in kw.items():
            vals[names.index(k)] = v
        return State(*vals)


class RCAnalysis:
    def __init__(self, prog, ctx, prop_rule_prefix='R-RC'):
        self.prog = prog
        self.ctx = ctx
        self.cfgs = {}
        self.P = prop_rule_prefix

    def cfg(self, f):
        key = (f['q'], f['sig'])
        if key not in self.cfgs:
            self.cfgs[key] = cfgm.CFG(f)
        return self.cfgs[key]

    # ---------------------------------------------------------------- count initial values
    def count_ctor_value(self, f, e):
        """value an AtomicCount gets from a construct expression"""
        e = strip(e)
        if e.get('k') == 'construct' and (e.get('cls') == COUNT_REC or e.get('clsp') == COUNT_REC):
            if e.get('a'):
                return const_val(e['a'][0])
            for g in self.prog.fn(e['fn'], e.get('sig')):
                for i in g.get('inits', []):
                    if i.get('field') == 'n':
                        return const_val(i['e'])
            return None
        return const_val(e)

    def fresh_count_of_new(self, f, e):
        """initial count of `new K(...)` when K (family core class) holds an AtomicCount member"""
        init = strip(e.get('init') or {})
        if init.get('k') != 'construct':
            return None
        for g in self.prog.fn(init['fn'], init.get('sig')):
            for i in g.get('inits', []):
                if i.get('field') is not None and is_count_type(g, i.get('ft')):
                    v = self.count_ctor_value(g, i['e'])
                    if init.get('copy') and v is None:
                        return 'copied'
                    return v
        return None

    # ---------------------------------------------------------------- dataflow
    def run(self, f, fam, depth=0, init=None):
        """Returns set of exit states of f (with same-family callees inlined)."""
        cfg = self.cfg(f)
        family = fam['family']
        self.ctx.analysed(f)

        def step(n, st):
            if n.kind == 'decl':
                v = n.info
                ini = strip(v.get('init') or {})
                if count_op(ini) == 'dec' or (ini.get('k') == 'cast' and count_op(strip(ini.get('e', {})) or {}) == 'dec'):
                    return st.set(decvar=v['id'])
                # copy-and-swap: `Handle t(b);` with b a parameter is the acquire of the new object (the copy constructor is
                # checked on its own); the matching release is t's destructor at the end of the function, and what it
                # releases is decided by whether the storage of *this was swapped into t
                vt = T(f, v['t'])
                if depth == 0 and f.get('n') == 'operator=' and vt.get('rec') == f.get('cls') and not vt.get('ref') and not vt.get('ptr') and \
                        ini.get('k') == 'construct' and ini.get('copy') and len(ini.get('a') or []) == 1 and strip_lv(ini['a'][0]).get('vk') == 'param' and st.tmp == -1:
                    return st.set(inc=min(st.inc + 1, 3), first=st.first or 'i', tmp=v['id'])
                return st
            if n.kind not in ('ev', 'init'):
                return st
            e = n.e
            if e is None:
                return st
            k = e.get('k')
            if n.kind == 'init':
                # constructor initialiser of a count member: handled when this constructor is the callee of a `new`
                return st
            op = count_op(e)
            if op == 'inc':
                return st.set(inc=min(st.inc + 1, 3), first=st.first or 'i')
            if op == 'dec':
                return st.set(dec=min(st.dec + 1, 3), first=st.first or 'd', lastdec=id(e), tested=False)
            if k == 'new':
                at = T(f, e.get('at'))
                if at.get('recp') in family or at.get('recp') == COUNT_REC:
                    v = self.fresh_count_of_new(f, e)
                    if v == 'copied':
                        return st.set(fresh=99)
                    if v is not None:
                        return st.set(fresh=v)
                return st
            if k == 'delete':
                return self._destroy(st)
            if k == 'call':
                fn = e.get('fn') or ''
                # assignment of a constant to a count: `rc = 1`  (AtomicCount::operator= from a temporary AtomicCount(int))
                if e.get('pq') == COUNT_REC + '::operator=' and e.get('a'):
                    v = self.count_ctor_value(f, e['a'][0])
                    if v is not None:
                        return st.set(fresh=v)
                    return st
                if fn in ('free', '::free') or e.get('pq') == 'free':
                    return self._destroy(st)
                if st.tmp != -1 and (e.get('pq') or fn).split('<')[0].split('::')[-1] == 'swap' and len(e.get('a') or []) == 2:
                    x, y = strip_lv(e['a'][0]), strip_lv(e['a'][1])
                    if set((self._side(f, fam, st, x), self._side(f, fam, st, y))) == set(('this', 'tmp')):
                        return st.set(swapped=True)
                if st.tmp != -1 and e.get('clsp') in family and (e.get('obj') is None or strip_lv(e['obj']).get('k') == 'this') and \
                        any(strip_lv(a).get('k') == 'var' and strip_lv(a).get('id') == st.tmp for a in e.get('a') or []):
                    # a helper of the class that exchanges the storage of *this with its parameter's (swapTable(t))
                    for g in self.prog.fn(e['fn'], e.get('sig')):
                        if not g.get('body') or len(g.get('params') or []) != 1:
                            continue
                        pid_ = g['params'][0]['id']
                        for w in fn_exprs(g):
                            if w.get('k') == 'call' and (w.get('pq') or w.get('fn') or '').split('<')[0].split('::')[-1] == 'swap' and len(w.get('a') or []) == 2:
                                sides = set()
                                for a_ in w['a']:
                                    a_ = strip_lv(a_)
                                    if a_.get('k') == 'mem' and a_.get('f') == fam['storage']:
                                        b_ = strip_lv(a_.get('b') or {})
                                        sides.add('this' if b_.get('k') in (None, 'this') else 'tmp' if b_.get('id') == pid_ else None)
                                if sides == set(('this', 'tmp')):
                                    return st.set(swapped=True)
                        # ... or exchanges them with two assignments through a temporary (`t = _p; _p = other._p; other._p = t;`)
                        to_this = to_tmp = False
                        for w in fn_exprs(g):
                            if w.get('k') == 'bin' and w.get('op') == '=':
                                l_ = strip_lv(w['x'])
                                if l_.get('k') == 'mem' and l_.get('f') == fam['storage']:
                                    b_ = strip_lv(l_.get('b') or {})
                                    if b_.get('k') in (None, 'this'):
                                        to_this = True
                                    elif b_.get('k') == 'var' and b_.get('id') == pid_:
                                        to_tmp = True
                        if to_this and to_tmp:
                            return st.set(swapped=True)
                if e.get('clsp') in family and e.get('fn') and depth < 4 and own_object(f, e, family):
                    cands = self.prog.fn(e['fn'], e.get('sig'))
                    if cands and cands[0] is not f:
                        g = cands[0]
                        outs = self.run(g, fam, depth + 1, st.set(decvar=-1))
                        return [o.set(decvar=st.decvar) for o in outs] if outs else None
                return st
            if k == 'bin' and e.get('op') == '=' and st.tmp != -1:
                # exchange written out: `t.storage = storage` (the old object goes to the local) and `storage = <what t held>`,
                # either side possibly through a local that was initialised from the storage member
                lhs_ = strip_lv(e['x'])
                defs_ = q.single_defs(f)

                def derives(rhs, side):
                    for w in walk_expr(rhs):
                        if w.get('k') == 'mem' and self._side(f, fam, st, w) == side:
                            return True
                        if w.get('k') == 'var' and w.get('id') in defs_ and w.get('id') != st.tmp and any(
                                x_.get('k') == 'mem' and self._side(f, fam, st, x_) == side for x_ in walk_expr(defs_[w['id']] or {})):
                            return True
                    return False
                if lhs_.get('k') == 'mem' and self._side(f, fam, st, lhs_) == 'tmp' and derives(e['y'], 'this'):
                    return st.set(swapped=True if st.swapped == 't' else (st.swapped or 'g'))
                if lhs_.get('k') == 'mem' and self._side(f, fam, st, lhs_) == 'this' and derives(e['y'], 'tmp'):
                    return st.set(swapped=True if st.swapped == 'g' else (st.swapped or 't'))
            if k == 'bin' and e.get('op') == '=':
                lhs = strip_lv(e['x'])
                # `_p = 0` : handle becomes null
                if lhs.get('k') == 'mem' and lhs.get('f') == fam['storage'] and const_val(e['y']) == 0:
                    return st.set(null=True)
                # `int v = --rc` written as assignment
                if lhs.get('k') == 'var' and count_op(strip(e['y'])) == 'dec':
                    return st.set(decvar=lhs['id'])
                # plain store into a count through an int conversion is not possible (n is private)
                return st
            return st

        def edge(n, lab, st):
            if n.kind != 'br' or lab not in (True, False):
                return st
            c = strip(n.e)
            # null test of a pointer:  if (_a) / if (p) / if (_p != 0)
            ptr, pol = null_test(f, c)
            if ptr is not None:
                if lab != pol:      # pointer is null on this edge
                    return st.set(null=True)
                return st
            # decrement-and-test
            tv = dec_test(c, st)
            if tv is not None:
                return st.set(tested=(lab == tv))
            # identity guard: this == &b  /  _p != r._p
            idg = identity_test(f, c)
            if idg is not None:
                if lab != idg:      # objects differ on this edge
                    return st.set(distinct=True)
                return st
            return st

        if init is None:
            init = State()
        reached, parent = cfgm.dataflow(cfg, init, step, edge)
        self.ctx.evaluations += sum(len(v) for v in reached.values())
        return set(reached.get(cfg.exit.id, set()))

    def _side(self, f, fam, st, w):
        """'this' / 'tmp' for an expression that designates the handle itself or its storage member"""
        if w.get('k') == 'mem' and w.get('f') == fam['storage']:
            b_ = strip_lv(w.get('b') or {})
            if b_.get('k') in (None, 'this'):
                return 'this'
            return 'tmp' if b_.get('k') == 'var' and b_.get('id') == st.tmp else None
        if w.get('k') == 'var' and w.get('id') == st.tmp:
            return 'tmp'
        if w.get('k') == 'un' and w.get('op') == '*' and strip_lv(w['e']).get('k') == 'this':
            return 'this'
        return None

    def _destroy(self, st):
        if not st.tested:
            return st.set(destroy=min(st.destroy + 1, 2), bad=True)
        return st.set(destroy=min(st.destroy + 1, 2))


def own_object(f, e, family):
    """The callee operates on this handle, on a same-family parameter/local handle, or on a core object - not on an
    element stored inside the container (whose count is a different object)."""
    if e.get('static'):
        return True
    o = e.get('obj')
    if o is None:
        return True
    o = strip(o)
    derefed = False
    while o.get('k') == 'un' and o.get('op') == '*':
        o = strip(o['e'])
        derefed = True
    if o.get('k') == 'this':
        return True
    if o.get('k') == 'var':
        if derefed and o.get('vk') == 'local' and T(f, o.get('t')).get('ptr'):
            # `*q` with q a local pointer that walks the element storage (`T* q = _a`): an element, not a handle
            import ir as _ir
            for s_ in _ir.walk_stmts(f.get('body')):
                if s_.get('k') == 'decl':
                    for v in s_['vars']:
                        if v.get('id') == o.get('id') and v.get('init') is not None and any(w.get('k') == 'mem' and w.get('f') in ('_a', 'a') for w in walk_expr(v['init'])):
                            return False
        return True
    if o.get('k') == 'mem':
        b = strip(o.get('b') or {})
        while b.get('k') == 'un' and b.get('op') == '*':
            b = strip(b['e'])
        if b.get('k') in ('this', 'var'):
            # a pointer/reference member designating the core object (e.g. _p), not an element of the storage array
            return True
    return False


def null_test(f, c):
    """(pointer description, polarity for non-null) if c tests a pointer for null."""
    c = strip(c)
    t = T(f, c.get('t'))
    if c.get('k') in ('mem', 'var') and t.get('ptr'):
        return pe(c), True
    if c.get('k') == 'bin' and c.get('op') in ('!=', '=='):
        for a, b in ((c['x'], c['y']), (c['y'], c['x'])):
            if const_val(b) == 0 and T(f, strip(a).get('t')).get('ptr'):
                return pe(strip(a)), c['op'] == '!='
    return None, None


def dec_test(c, st):
    """If c tests the value returned by the decrement against zero: polarity under which the value IS zero."""
    c0 = c
    c = strip(c)

    def is_decval(x):
        x = strip(x)
        if count_op(x) == 'dec':
            return True
        if x.get('k') == 'var' and x.get('id') == st.decvar and st.decvar != -1:
            return True
        return False
    if is_decval(c):
        return False           # `if (--rc)` : zero on the false edge
    if c.get('k') == 'bin' and c.get('op') in ('==', '<=', '<', '!=', '>', '>='):
        for a, b, flip in ((c['x'], c['y'], False), (c['y'], c['x'], True)):
            if is_decval(a):
                v = const_val(b)
                op = c['op']
                if flip:
                    op = {'<': '>', '>': '<', '<=': '>=', '>=': '<='}.get(op, op)
                if op == '==' and v == 0:
                    return True
                if op == '<=' and v == 0:
                    return True
                if op == '<' and v == 1:
                    return True
                if op == '!=' and v == 0:
                    return False
                if op == '>' and v == 0:
                    return False
                if op == '>=' and v == 1:
                    return False
    if c.get('k') == 'call' and c.get('clsp') == COUNT_REC and c.get('ck') == 'op' and c.get('op') in ('==', '<=', '<'):
        # AtomicCount comparison operators applied to a count object (not to the decrement's return value)
        return None
    return None


def identity_test(f, c):
    """polarity under which the two handles are THE SAME object / share the same storage."""
    c = strip(c)
    if c.get('k') == 'bin' and c.get('op') in ('==', '!='):
        x, y = strip(c['x']), strip(c['y'])
        tx, ty = T(f, x.get('t')), T(f, y.get('t'))
        if tx.get('ptr') and ty.get('ptr'):
            sides = (pe(x), pe(y))
            def has_param(e):
                return any(w.get('k') == 'var' and w.get('vk') == 'param' for w in walk_expr(e))
            def is_this_side(e):
                e = strip(e)
                return e.get('k') == 'this' or (e.get('k') == 'mem' and strip(e.get('b', {})).get('k') == 'this')
            if (is_this_side(x) and has_param(y)) or (is_this_side(y) and has_param(x)):
                return c['op'] == '=='
    return None


# ==================================================================== obligations

def special_members(prog, handle_pq):
    out = []
    for f in prog.functions:
        if f.get('clsp') != handle_pq:
            continue
        if f.get('implicit'):
            continue
        kind = f.get('kind')
        if kind in ('ctor', 'dtor'):
            out.append(f)
        elif kind == 'method' and f.get('n') == 'operator=' and len(f['params']) == 1:
            # handle assignments: from the same family or from a raw pointer; content assignments (from Var,
            # initializer_list, Array<K>) are governed by the alias/lifetime rules, not by the count protocol
            pt = T(f, f['params'][0]['t'])
            base = T(f, pt.get('to')) if pt.get('ref') or pt.get('ptr') else pt
            same_inst = base.get('rec') in (None, f.get('cls')) or base.get('recp') != handle_pq
            if not same_inst and f.get('body'):
                # a converting assignment is a handle assignment when it rebinds the handle (writes its pointer member,
                # touches the count, or delegates to the handle assignment); Array<double> = Array<int> does none of these
                for w in fn_exprs(f):
                    if w.get('k') == 'bin' and w.get('op') == '=' and strip_lv(w['x']).get('k') == 'mem' and T(f, strip_lv(w['x']).get('t')).get('ptr'):
                        same_inst = True
                    if w.get('k') == 'mem' and w.get('f') == 'rc':
                        same_inst = True
                    if w.get('k') == 'call' and w.get('n', (w.get('pq') or '').split('::')[-1]) == 'operator=' and w.get('clsp') == handle_pq:
                        same_inst = True
            if f.get('copyassign') or pt.get('ptr') or (base.get('recp') in FAMILIES_BY_HANDLE.get(handle_pq, ()) and same_inst):
                out.append(f)       # (Array<double> = Array<int> converts the content in place: not a handle assignment)
    return out


def check_family(ctx, prog, name, prop_tag=''):
    fam = FAMILIES[name]
    an = RCAnalysis(prog, ctx)
    members = special_members(prog, fam['handle'])
    n_checked = 0
    for f in members:
        kind = f.get('kind')
        inst = f['q'] + f['sig']
        exits = an.run(f, fam)
        if not exits:
            ctx.undecided('R-RC.c', f['pq'], inst + ':exit', fwhere(f), 'no path reaches the function exit')
            continue
        n_checked += 1
        touches = any(s.inc or s.dec or s.fresh != -1 or s.destroy for s in exits)
        role_base = ('copy-ctor' if f.get('copyctor') else 'ctor' if kind == 'ctor' else 'dtor' if kind == 'dtor' else
                     'copy-assign' if f.get('copyassign') else 'assign') + f['sig']
        # ---- b: destruction only under decrement-and-test
        bad = [s for s in exits if s.bad]
        if kind != 'ctor' or any(s.destroy for s in exits):
            ctx.check(not bad, 'R-RC.b', f['pq'], role_base + ':decrement-and-test', fwhere(f),
                      'every destruction of the shared object is control-dependent on the value returned by the decrement being zero',
                      'the shared object is destroyed on a path where the value returned by the decrement was not tested against zero '
                      '(separate load, missing test, or wrong polarity) in %s' % inst)
        # ---- c/e: pairing
        if kind == 'ctor':
            if not touches and not f.get('copyctor'):
                # constructors that neither adopt nor create a counted object (e.g. Shared() = null handle)
                ctx.ok('R-RC.c', f['pq'], role_base + ':pairing', fwhere(f), 'installs no counted object', nontrivial=False)
                continue
            problems = []
            for s in exits:
                acq = s.inc + (s.fresh if s.fresh != -1 else 0)
                if s.fresh == 99:
                    problems.append('fresh object starts with a copied count')
                elif acq != 1 and not (s.null and acq == 0):
                    problems.append('a path leaves the installed object with count contribution %d (fresh init %s + %d increment(s))' % (acq, s.fresh if s.fresh != -1 else 'none', s.inc))
                if s.dec:
                    problems.append('a constructor path decrements a count')
            rule = 'R-RC.e' if any(s.fresh != -1 for s in exits) else 'R-RC.c'
            ctx.check(not problems, rule, f['pq'], role_base + ':pairing', fwhere(f),
                      'each path: fresh object count + increments = 1 (or null handle)', '; '.join(sorted(set(problems))) + ' in ' + inst)
        elif kind == 'dtor':
            problems = []
            for s in exits:
                if not ((s.dec == 1 and s.inc == 0) or (s.null and s.dec == 0 and s.inc == 0)):
                    problems.append('a path through the destructor performs %d decrement(s) and %d increment(s)' % (s.dec, s.inc))
            ctx.check(not problems, 'R-RC.c', f['pq'], role_base + ':pairing', fwhere(f), 'exactly one decrement when the handle is non-null',
                      '; '.join(sorted(set(problems))) + ' in ' + inst)
        else:
            pt_ref = bool(f['params']) and bool(T(f, f['params'][0]['t']).get('ref'))
            if not touches:
                ctx.ok('R-RC.c', f['pq'], role_base + ':pairing', fwhere(f), 'forwards to another assignment (no count event of its own)', nontrivial=False)
                continue
            problems, order = [], []
            for s in exits:
                if s.tmp != -1:
                    # the local copy is destroyed on the way out: one release - of the old object if the storage was swapped
                    if s.swapped is not True:
                        problems.append('a copy of the argument is made but its storage is never swapped with this handle (the assignment has no effect)')
                    s = s.set(dec=min(s.dec + 1, 3), first=s.first or 'd')
                acq = s.inc + (1 if s.fresh not in (-1, 99) and s.fresh == 1 else 0)
                if s.fresh not in (-1, 1):
                    problems.append('fresh object installed with count %s' % s.fresh)
                if acq == 0 and s.dec == 0:
                    continue                       # early return (identity) or null-to-null
                if acq != 1 and not (s.null and acq == 0):
                    problems.append('a path acquires %d reference(s)' % acq)
                if s.dec != 1 and not (s.null and s.dec == 0):
                    problems.append('a path releases %d reference(s)' % s.dec)
                if s.inc and s.dec and s.first == 'd' and not s.distinct:
                    order.append('the old object is released before the new one is acquired and no identity guard separates the two')
                elif s.inc and s.dec and s.first == 'd' and (pt_ref or f.get('copyassign')):
                    # distinct objects, but the argument handle itself may live inside the object released first (cur = cur->next):
                    # its destruction destroys the argument before the new reference is taken
                    order.append('the old object is released before the new one is acquired: when the argument handle is stored inside the old object (cur = cur->next) the release destroys the argument, and the acquire then reads freed memory')
            ctx.check(not problems, 'R-RC.c', f['pq'], role_base + ':pairing', fwhere(f), 'one acquire and one release on every assigning path',
                      '; '.join(sorted(set(problems))) + ' in ' + inst)
            ctx.check(not order, 'R-RC.d', f['pq'], role_base + ':acquire-before-release', fwhere(f),
                      'increment precedes decrement (or an identity guard returns early)', '; '.join(sorted(set(order))) + ' in ' + inst)
    return n_checked


def check_core_copies(ctx, prog, name):
    """R-RC.e (copies): a copy-constructed shared object is a NEW object; its count must not be copied from the source."""
    fam = FAMILIES[name]
    n = 0
    for f in prog.functions:
        if f.get('clsp') not in fam['family'] or not f.get('copyctor'):
            continue
        for i in f.get('inits', []):
            if i.get('field') is None or not is_count_type(f, i.get('ft')):
                continue
            n += 1
            ctx.analysed(f)
            e = strip(i['e'])
            copied = e.get('k') == 'construct' and e.get('copy') and any(w.get('k') == 'var' and w.get('vk') == 'param' for w in walk_expr(e))
            ctx.check(not copied, 'R-RC.e', f['pq'], 'copy-ctor:count of the copy', fwhere(f),
                      'the copy starts with its own count', 'copy constructor of %s copies the reference count of the source object: a clone starts with the '
                      'source\'s count and is never destroyed (or destroyed early)' % f['cls'])
    return n


def interp_count_op(prog, f, prim):
    """AtomicCount::operator++ / -- interpreted (scansim, class helpers followed) with the two primitives replaced by recorders:
    -> True when exactly one call of `prim` on the address of the member `n` was made and its value is what the operator
    returns; a description of the deviation otherwise; None when the body is outside the interpreted fragment."""
    import scansim
    log = []

    def rec(name, token):
        def fn_(run, e, args):
            log.append((name, args[0] if args else None))
            return token
        return fn_
    ext = {'atomicInc': rec('atomicInc', 1000001), 'asl::atomicInc': rec('atomicInc', 1000001), 'atomicDec': rec('atomicDec', 2000002), 'asl::atomicDec': rec('atomicDec', 2000002)}
    want = 1000001 if prim == 'atomicInc' else 2000002
    for n0 in (5, 1, 0, -1, -3, 2147483647):
        del log[:]
        mems = {'n': n0}
        try:
            ret = scansim.Run(prog, f, {}, mems=mems, methods={'*': 'interp'}, externs=ext, objects=True).run()
        except (scansim.Unsupported, scansim.OOB, TypeError, KeyError, IndexError, ValueError):
            return None
        if [c for c in log if c[0] == prim and c[1] == ('PM', 'n')] != log or len(log) != 1:
            return 'with the count at %d the operator performs %s instead of exactly one %s(&n): that update is lost' % (n0, [c[0] for c in log] or 'no atomic operation', prim)
        if mems.get('n') != n0:
            return 'the count is also modified by a plain store'
        if ret != want:
            return 'the value returned is not the one %s returned (a separate read of the count can miss the zero another thread produced)' % prim
    return True


def check_primitive(ctx, prog):
    """R-RC.a: AtomicCount operators are the atomic primitives; nothing else modifies a count."""
    n = 0
    for opn, prim, builtin in (('operator++', 'atomicInc', '__sync_add_and_fetch'), ('operator--', 'atomicDec', '__sync_sub_and_fetch')):
        fs = prog.pattern(COUNT_REC + '::' + opn)
        if not fs:
            raise AnalysisBroken('AtomicCount::%s not found' % opn)
        f = fs[0]
        ctx.analysed(f)
        interp = interp_count_op(prog, f, prim)
        if interp is not None:
            ctx.check(interp is True, 'R-RC.a', COUNT_REC + '::' + opn, 'returns %s(&n)' % prim, fwhere(f),
                      'interpreted: exactly one %s on the address of the count, its value returned, no other store' % prim,
                      'AtomicCount::%s: %s' % (opn, interp))
        calls = [e for e in fn_exprs(f) if e.get('k') == 'call']
        rets = [s for s in ir.walk_stmts(f['body']) if s.get('k') == 'return']
        ok = len(calls) == 1 and calls[0].get('fn') == prim and len(rets) == 1 and strip(rets[0]['e']) is calls[0] or \
            (len(calls) == 1 and calls[0].get('fn') == prim and len(rets) == 1 and strip(rets[0]['e']).get('fn') == prim)
        arg_ok = False
        if calls:
            a = strip(calls[0]['a'][0]) if calls[0].get('a') else {}
            arg_ok = a.get('k') == 'un' and a.get('op') == '&' and strip_lv(a['e']).get('f') == 'n'
        stores = [e for e in fn_exprs(f) if (e.get('k') == 'bin' and e.get('op', '').endswith('=') and e['op'] not in ('==', '!=', '<=', '>=')) or
                  (e.get('k') == 'un' and ('++' in e.get('op', '') or '--' in e.get('op', '')))]
        if interp is None:
          ctx.check(ok and arg_ok and not stores, 'R-RC.a', COUNT_REC + '::' + opn, 'returns %s(&n)' % prim, fwhere(f),
                  'returns the value of the atomic read-modify-write on the count', 'AtomicCount::%s is not `return %s(&n)` (plain arithmetic on the count, or the returned value is not that of the atomic operation)' % (opn, prim))
        n += 1
        ps = prog.fn(prim)
        if not ps:
            raise AnalysisBroken('%s not found' % prim)
        g = ps[0]
        ctx.analysed(g)
        # the primitive returns the result of one atomic read-modify-write builtin on its parameter with step +1 / -1, directly
        # or through a chain of one-statement forwarding helpers (`return atomicAdd(x, -1);`): followed with the constant
        # arguments substituted
        want_step = 1 if opn == 'operator++' else -1

        def resolve(h, env, depth=0):
            """-> (builtin name, pointer-is-parameter, signed step) of the single returned call, or None"""
            body = h['body']['s'] if h['body'].get('k') == 'block' else [h['body']]
            stmts = [x for x in body if x.get('k') not in ('null', 'empty')]
            if len(stmts) != 1 or stmts[0].get('k') != 'return' or stmts[0].get('e') is None or depth > 3:
                return None
            c = strip(stmts[0]['e'])
            while c.get('k') in ('cast', 'paren'):
                c = strip(c['e'])
            if c.get('k') != 'call' or len(c.get('a', [])) != 2:
                return None
            ptr = strip(c['a'][0])
            ptr_ok = ptr.get('k') == 'var' and ptr.get('vk') == 'param' and env.get(ptr.get('id'), True) is True
            step = const_val(c['a'][1])
            if step is None and strip(c['a'][1]).get('k') == 'var' and isinstance(env.get(strip(c['a'][1]).get('id')), int):
                step = env[strip(c['a'][1])['id']]
            if step is None:
                return None
            fnn = c.get('fn') or ''
            if c.get('builtin') or fnn.startswith('__sync_') or fnn.startswith('__atomic_'):
                if fnn.startswith('__sync_sub_and_fetch') or fnn.startswith('__atomic_sub_fetch'):
                    return fnn, ptr_ok, -step
                if fnn.startswith('__sync_add_and_fetch') or fnn.startswith('__atomic_add_fetch'):
                    return fnn, ptr_ok, step
                return fnn, ptr_ok, None
            for h2 in prog.fn(fnn, c.get('sig')):
                if h2.get('body') and len(h2['params']) == 2:
                    return resolve(h2, {h2['params'][0]['id']: ptr_ok, h2['params'][1]['id']: step}, depth + 1)
            return None
        res = resolve(g, {})
        good = res is not None and res[1] is True and res[2] == want_step
        plain = [e for e in fn_exprs(g) if e.get('k') == 'un' and e.get('op') in ('pre++', 'pre--', 'post++', 'post--', '*')]
        ctx.check(good and not plain, 'R-RC.a', prim, 'returns %s(x, 1)' % builtin, fwhere(g),
                  'atomic builtin on the parameter with step 1, its result returned', '%s is not `return %s(x, 1)`' % (prim, builtin))
        n += 1
    # the count value is private: no function outside AtomicCount touches field n
    outside = []
    for f in prog.functions:
        if f.get('clsp') == COUNT_REC:
            continue
        for e in fn_exprs(f):
            if e.get('k') == 'mem' and e.get('fq') == COUNT_REC + '::n':
                outside.append(fwhere(f, e['l']))
    ctx.check(not outside, 'R-RC.a', COUNT_REC, 'field n private to AtomicCount', '/repo/include/asl/atomic.h:0', 'no access to the raw count outside AtomicCount',
              'raw count field accessed outside AtomicCount at %s' % outside)
    return n + 1


def check_relocation(ctx, prog, name):
    """R-RC.f: a member that replaces the storage of a shared object must be dominated by a uniqueness test."""
    fam = FAMILIES[name]
    if fam['relocators_exempt'] is None:
        return 0
    found = 0
    members = [f for f in prog.functions if f.get('clsp') == fam['handle'] and not f.get('implicit') and f.get('body')]

    def direct(f):
        out = []
        for e in fn_exprs(f):
            if name == 'Array':
                if e.get('k') == 'call' and (e.get('fn') in ('realloc', 'free') and not e.get('clsp')):
                    out.append(e)
            elif name == 'HashMap':
                # assignment / swap of the bucket array member
                if e.get('k') == 'call' and e.get('pq') in ('asl::Array::operator=', 'asl::swap') and any(
                        x.get('k') == 'mem' and x.get('f') == 'a' and strip_lv(x.get('b', {})).get('k') == 'this' for x in walk_expr(e)):
                    out.append(e)
        return out

    def unguarded_of(f, relocs):
        g = q.Guarded(f)
        return [e for e in relocs if not any(is_unique_test(f, c, pol) for c, pol, kind in g.of(e) if kind in ('if', 'after', 'and', 'cond'))]

    def callers_of(f):
        return [g for g in members if g is not f and any(w.get('k') == 'call' and w.get('fn') == f.get('q') for w in fn_exprs(g))]

    # a non-public member that replaces the block unguarded and is called from other members (grow() split out of insert()) is
    # part of its callers: the call is their relocation site, decided (and reported) there, where a uniqueness test could stand
    relocs = {id(f): direct(f) for f in members}
    helper = {}
    for _ in range(3):
        grew = False
        for f in members:
            if id(f) in helper or f.get('acc') not in ('protected', 'private') or f['n'] in fam['relocators_exempt'] or f.get('kind') in ('ctor', 'dtor'):
                continue
            if not relocs[id(f)] or not unguarded_of(f, relocs[id(f)]):
                continue
            cs = callers_of(f)
            if not cs:
                continue
            helper[id(f)] = f
            for g in cs:
                for w in fn_exprs(g):
                    if w.get('k') == 'call' and w.get('fn') == f.get('q') and not any(w is x for x in relocs[id(g)]):
                        relocs[id(g)].append(w)
                        grew = True
        if not grew:
            break
    for f in members:
        short = f['n']
        rl = relocs[id(f)]
        if not rl:
            continue
        if short in fam['relocators_exempt'] or f.get('kind') in ('ctor', 'dtor'):
            continue
        if id(f) in helper:
            cs = callers_of(f)
            if all(g['n'] in fam['relocators_exempt'] or g.get('kind') in ('ctor', 'dtor') for g in cs):
                continue                                         # swapTable() behind operator= / dup(): their rules cover it
            ctx.analysed(f)
            continue                                             # decided at the call sites in the callers
        if f.get('acc') in ('protected', 'private'):
            cs = callers_of(f)
            if cs and all(g['n'] in fam['relocators_exempt'] or g.get('kind') in ('ctor', 'dtor') for g in cs):
                continue
        found += 1
        ctx.analysed(f)
        unguarded = unguarded_of(f, rl)
        if unguarded:
            via = ''
            if unguarded[0].get('clsp') == fam['handle'] and (unguarded[0].get('fn') or '') in [h.get('q') for h in helper.values()]:
                via = ' through its helper %s' % (unguarded[0].get('pq') or unguarded[0].get('fn'))
            ctx.violation('R-RC.f', f['pq'], 'relocate-shared-storage', fwhere(f, unguarded[0]['l']),
                          '%s replaces the storage block%s (%s) without a dominating `count == 1` test: other handles keep the old block (instantiation %s)'
                          % (f['pq'], via, pe(unguarded[0]), f['q']))
        else:
            ctx.ok('R-RC.f', f['pq'], 'relocate-shared-storage', fwhere(f), 'storage replacement dominated by a uniqueness test')
    return found


def is_unique_test(f, c, pol):
    c = strip(c)
    if c.get('k') == 'call' and c.get('clsp') == COUNT_REC and c.get('op') == '==' and const_val(c['a'][0]) == 1:
        return pol is True
    if c.get('k') == 'bin' and c.get('op') in ('==', '!='):
        for a, b in ((c['x'], c['y']), (c['y'], c['x'])):
            if const_val(b) == 1 and any(is_count_type(f, w.get('t')) or w.get('f') == 'rc' or (w.get('fn') or '').endswith('::rc') for w in walk_expr(a)):
                return (c['op'] == '==') == bool(pol)
    return False


def check_discarded_decrement(ctx, prog, classes):
    """R-RC.b (all members): a decrement of a shared count whose result is thrown away.  Whoever drops a reference must look
    at the value the atomic decrement returned: if it is zero this was the last reference and the object has to be destroyed
    here - another handle may have been dropped concurrently since any earlier test of the count.  Every expression statement
    of a member of the handle classes that is just `--x.rc` / `x.rc--` is a violation."""
    n = 0
    for f in prog.functions:
        if not f.get('body') or f.get('clsp') not in classes or f.get('implicit'):
            continue
        for s_ in ir.walk_stmts(f['body']):
            if s_.get('k') != 'expr':
                continue
            e = strip(s_['e'])
            while e.get('k') in ('paren', 'temp', 'cast'):
                e = strip(e['e'])
            is_dec = False
            if e.get('k') == 'call' and e.get('op') == '--' and e.get('obj') is not None and strip_lv(e['obj']).get('k') == 'mem' and strip_lv(e['obj']).get('f') == 'rc':
                is_dec = True
            if e.get('k') == 'un' and e.get('op') in ('pre--', 'post--') and strip_lv(e['e']).get('k') == 'mem' and strip_lv(e['e']).get('f') == 'rc':
                is_dec = True
            if not is_dec:
                continue
            n += 1
            ctx.analysed(f)
            ctx.violation('R-RC.b', f['pq'], '%s%s:decrement result used' % (f['n'], f.get('sig') or ''), fwhere(f, s_.get('l')),
                          '%s drops a reference with `%s` and ignores the value the decrement returned: when another handle was dropped concurrently this was the last reference and the shared object (and its elements) is never destroyed (instantiation %s)' % (f['pq'], pe(e), f['q']))
    return n
