"""Check framework: obligations, known findings, evidence, reports, exit codes."""
import json, os, sys, time, random

from ir import VERIF, REPO, AnalysisBroken

KNOWN_FINDINGS = os.path.join(VERIF, 'known_findings.json')


class Obligation:
    __slots__ = ('rule', 'function', 'role', 'status', 'where', 'detail', 'witness', 'nontrivial', 'key')

    def __init__(self, rule, function, role, status, where, detail, witness=None, nontrivial=True):
        self.rule = rule            # e.g. "R-RC.b"
        self.function = function    # qualified name (pattern name for templates) of the construct's function / subject
        self.role = role            # role of the construct within the rule (stable under line changes)
        self.status = status        # 'ok' | 'violation' | 'undecided'
        self.where = where          # file:line
        self.detail = detail
        self.witness = witness
        self.nontrivial = nontrivial

    def as_dict(self):
        d = {'rule': self.rule, 'function': self.function, 'role': self.role, 'verdict': self.status,
             'where': self.where, 'detail': self.detail}
        if self.witness:
            d['witness'] = self.witness
        return d


class Context:
    def __init__(self, prop, tier, seed):
        self.prop = prop
        self.tier = tier
        self.seed = seed
        self.obligations = []
        self.evaluations = 0          # paths / (state x byte) pairs / table entries evaluated
        self.info = {}                # extra evidence keys
        self.controls = []            # positive controls (fixture, rule, fired)
        self.units = []
        self.functions_analysed = set()
        self.cmds = []
        self.floors = []              # (rule, found, floor)
        self.t0 = time.time()

    # -- recording ---------------------------------------------------------
    def ok(self, rule, function, role, where, detail='', nontrivial=True):
        self.obligations.append(Obligation(rule, function, role, 'ok', where, detail, None, nontrivial))

    def violation(self, rule, function, role, where, detail, witness=None):
        self.obligations.append(Obligation(rule, function, role, 'violation', where, detail, witness, True))

    def undecided(self, rule, function, role, where, detail):
        self.obligations.append(Obligation(rule, function, role, 'undecided', where, detail, None, True))

    def check(self, cond, rule, function, role, where, detail_ok='', detail_bad=None, witness=None):
        if cond:
            self.ok(rule, function, role, where, detail_ok)
        else:
            self.violation(rule, function, role, where, detail_bad or detail_ok, witness)
        return cond

    def floor(self, rule, found, floor):
        """A rule that matches fewer instances than confirmed by hand is analysis-broken, never a pass."""
        self.floors.append((rule, found, floor))
        if found < floor:
            # recorded as an undecided obligation (exit 2) instead of aborting: violations found by the other rules of the same
            # run are still reported (a change that both breaks a rule and shrinks an instance count is a violation, exit 1)
            self.undecided(rule, '', 'rule floor', '', 'rule %s matched %d instance(s), floor is %d (anchor vanished or extractor lost sight of the code)' % (rule, found, floor))

    def control(self, name, fired):
        self.controls.append({'control': name, 'fired': bool(fired)})
        if not fired:
            raise AnalysisBroken('positive control %s did not fire: the rule is blind' % name)

    def use_program(self, prog):
        for u in prog.units:
            if u not in self.units:
                self.units.append(u)
        self.cmds.extend(prog.cmds[:2])

    def analysed(self, f):
        self.functions_analysed.add((f['q'], f['sig']))


def fwhere(f, line=None):
    return '%s:%d' % (f['file'], line if line else f['line'])


def load_known():
    try:
        data = json.load(open(KNOWN_FINDINGS))
    except OSError:
        return []
    return data.get('findings', [])


def match_known(known, prop, ob):
    for k in known:
        if k.get('status') != 'known':
            continue
        if k['property'] != prop:
            continue
        if k['rule'] == ob.rule and k['function'] == ob.function and k['role'] == ob.role:
            return k
    return None


def finish(ctx, explanation, trusted_extra=(), assumptions=()):
    """Subtract known findings, write evidence and reports, print the verdict lines, return the exit code."""
    known = load_known()
    viol = [o for o in ctx.obligations if o.status == 'violation']
    undec = [o for o in ctx.obligations if o.status == 'undecided']
    new_viol, matched = [], []
    for o in viol:
        k = match_known(known, ctx.prop, o)
        if k:
            matched.append((o, k))
        else:
            new_viol.append(o)
    rep_dir = os.path.join(os.environ.get('ASL_EVIDENCE_DIR') or os.path.join(VERIF, 'reports'), ctx.prop)
    os.makedirs(rep_dir, exist_ok=True)
    for fn in os.listdir(rep_dir):
        if fn.startswith('violation-'):
            os.unlink(os.path.join(rep_dir, fn))
    lines = []
    seen_known = set()
    for o, k in matched:
        key = (k['rule'], k['function'], k['role'])
        if key in seen_known:
            continue
        seen_known.add(key)
        lines.append('KNOWN-FINDING: property=%s rule=%s function=%s role=%s %s' % (ctx.prop, o.rule, o.function, o.role, k.get('what_fails', '')))
    # one report per (rule, function, role): further instantiations of the same construct are counted, not repeated
    grouped, order = {}, []
    for o in new_viol:
        key = (o.rule, o.function, o.role)
        if key not in grouped:
            grouped[key] = []
            order.append(key)
        grouped[key].append(o)
    for i, key in enumerate(order, 1):
        o = grouped[key][0]
        path = os.path.join(rep_dir, 'violation-%d.json' % i)
        rep = o.as_dict()
        rep['instances'] = len(grouped[key])
        rep['other_instances'] = [x.detail[-160:] for x in grouped[key][1:6]]
        rep['property'] = ctx.prop
        rep['tier'] = ctx.tier
        json.dump(rep, open(path, 'w'), indent=1)
        lines.append('VIOLATION property=%s replay=%s' % (ctx.prop, path))
        lines.append('  rule      %s' % o.rule)
        lines.append('  function  %s   %s' % (o.function, o.where))
        lines.append('  instance  %s' % o.role)
        lines.append('  detail    %s' % o.detail)
        if o.witness:
            lines.append('  path      %s' % o.witness)
        if len(grouped[key]) > 1:
            lines.append('  (+%d more instantiation(s) of the same construct)' % (len(grouped[key]) - 1))
    for o in undec:
        lines.append('UNDECIDED property=%s rule=%s function=%s role=%s at %s: %s' % (ctx.prop, o.rule, o.function, o.role, o.where, o.detail))

    n_ob = len(ctx.obligations)
    n_ok = len([o for o in ctx.obligations if o.status == 'ok'])
    distinct = len(set((o.rule, o.function, o.role) for o in ctx.obligations if o.nontrivial))
    rnd = random.Random(ctx.seed)
    pool = [o for o in ctx.obligations]
    samples = [o.as_dict() for o in (viol[:10] + rnd.sample(pool, min(12, len(pool))))]
    by_rule = {}
    for o in ctx.obligations:
        r = by_rule.setdefault(o.rule, {'obligations': 0, 'ok': 0, 'violation': 0, 'undecided': 0})
        r['obligations'] += 1
        r[o.status] += 1
    ev = {
        'property_id': ctx.prop,
        'tier': ctx.tier,
        'seed': ctx.seed,
        'level': 'other',
        'coverage': {
            'explanation': explanation,
            'obligations': n_ob,
            'discharged': n_ok,
            'evaluations': max(ctx.evaluations, n_ob),
            'distinct_nontrivial': distinct,
            'rule': 'one obligation per (rule, function, construct role) instance found by query over the resolved AST of the '
                    'current /repo tree; non-trivial = the instance touches at least one rule-relevant construct '
                    '(an invalidator, a count operation, a guarded access, a table entry ...); evaluations = CFG paths / '
                    '(configuration x byte) pairs / table entries evaluated while deciding them',
            'samples': samples,
            'checker_cmd': (ctx.cmds[0] if ctx.cmds else 'tool/aslsa --prefix /repo --out <unit>.json <unit>.cpp -- -std=c++11 -DASL_STATIC -I/repo/include'),
            'trusted_base': ['clang 14 front end (parsing, overload/template resolution, constant evaluation)',
                             'tool/aslsa.cpp (AST to JSON extraction)', 'bin/*.py rule engine and the rule tables'] + list(trusted_extra),
            'exhaustive': False,
            'units': ctx.units,
            'functions_analysed': len(ctx.functions_analysed),
            'by_rule': by_rule,
            'rule_floors': [{'rule': r, 'found': f, 'floor': fl} for r, f, fl in ctx.floors],
            'positive_controls': ctx.controls,
            'known_findings_matched': [{'rule': o.rule, 'function': o.function, 'role': o.role, 'where': o.where} for o, k in matched],
            'undecided': [o.as_dict() for o in undec],
        },
        'assumptions': list(assumptions) + ['flags of the real static-library build: -std=c++11 -DASL_STATIC -I/repo/include',
                                            'char is signed 8-bit, int 32-bit, long long 64-bit (x86-64 Linux target of the build)'],
        'wall_s': round(time.time() - ctx.t0, 3),
        'violations': len(new_viol),
    }
    # schema-reserved coverage keys keep their types: a rule module's extra key that collides is stored under <key>_info
    RESERVED_INT = ('evaluations', 'distinct_nontrivial', 'states', 'transitions', 'traces_validated_against_impl', 'obligations', 'discharged', 'disagreements_checked')
    for k_, v_ in ctx.info.items():
        if (k_ in RESERVED_INT and not isinstance(v_, int)) or k_ in ('rule', 'samples', 'checker_cmd', 'trusted_base', 'programs', 'explanation', 'exhaustive'):
            ev['coverage'][k_ + '_info'] = v_
        else:
            ev['coverage'][k_] = v_
    evdir = os.environ.get('ASL_EVIDENCE_DIR') or os.path.join(VERIF, 'evidence')   # overridden only by bin/try_patch.sh (scratch trees)
    os.makedirs(evdir, exist_ok=True)
    json.dump(ev, open(os.path.join(evdir, ctx.prop + '.json'), 'w'), indent=1)
    for l in lines:
        print(l)
    print('%s [%s]: %d obligations, %d discharged, %d known finding(s), %d new violation(s), %d undecided; %d functions in %d units; %.1fs'
          % (ctx.prop, ctx.tier, n_ob, n_ok, len(matched), len(new_viol), len(undec), len(ctx.functions_analysed), len(ctx.units), time.time() - ctx.t0))
    if new_viol:
        return 1
    if undec:
        return 2
    return 0
