"""R-AUTOMATON - abstract interpretation of a character-driven parser loop.

The body of `while (char c = *s++) { ... }` is interpreted over abstract configurations
    (tracked scalar state variables - concrete small integers,  tracked stacks - exact top window + "more below" + bottom marker)
for each of the 255 non-NUL byte values (so every guard on the character is decided exactly), with a worklist to the fixpoint.
Everything the machine does not track (text buffers, produced values) evaluates to UNKNOWN and forks both ways.
Reported: stack-safety violations (pop of the bottom element, top of an empty stack, machine-specific hooks), push-back cycles,
reads of the cursor other than the push-back, configurations the interpreter cannot represent (as 'undecided', never as a pass)."""
import ir, bytesets
from ir import strip, strip_lv, const_val, T, pe, walk_expr, fn_exprs

U = 'UNKNOWN'
K = 2          # exact window of each abstract stack


class Stuck(Exception):
    """the interpreter met a construct it cannot represent soundly"""
    pass


class Env:
    __slots__ = ('vars', 'stacks', 'locals', 'pushback', 'events', 'ctl', 'viol', 'texts', 'log')

    def __init__(self, vars_, stacks):
        self.vars = dict(vars_)          # tracked scalar variables: name -> int
        self.stacks = dict(stacks)       # name -> tuple (top first); may contain '*' followed by the bottom marker
        self.locals = {}                 # per-iteration locals: var id -> int | U
        self.pushback = 0
        self.events = []
        self.viol = []
        self.texts = {}                  # text members followed concretely (run_text only): name -> tuple of bytes | None (unknown)
        self.log = None                  # run_text only: the events of the whole run so far (tuple), None = not kept

    def copy(self):
        e = Env(self.vars, self.stacks)
        e.locals = dict(self.locals)
        e.pushback = self.pushback
        e.events = list(self.events)
        e.viol = list(self.viol)
        e.texts = dict(self.texts)
        e.log = self.log
        return e

    def key(self):
        if self.texts or self.log is not None:
            return (tuple(sorted(self.vars.items())), tuple(sorted(self.stacks.items())), tuple(sorted(self.texts.items(), key=lambda kv: kv[0])), self.log)
        return (tuple(sorted(self.vars.items())), tuple(sorted(self.stacks.items())))


class Machine:
    """desc keys:
       func            the IR function containing the loop
       tracked         {name: ('mem'|'local', initial value)}  concrete scalar state
       stacks          {name: {'bottom': kind, 'init': tuple, 'push_kind': fn(machine, env, arg expr)->kind}}
       stack_is_member bool (stack objects are members of this / locals)
       inline          set of short names of member functions whose bodies are interpreted
       intrinsics      {short callee name: fn(machine, env, call expr) -> list of envs or None}
       pure            set of short names of pure predicates evaluated exactly on known arguments
       on_pop / on_top hooks (optional)
    """

    def __init__(self, prog, desc):
        self.prog = prog
        self.d = desc
        self.f = desc['func']
        self.loop = self._find_loop()
        self.cvar = self.loop['cv']
        self.cursor = self._cursor_id()
        self.below = dict((n, set()) for n in desc['stacks'])
        self.violations = []      # (rule role, line, detail)
        self.undecided = []
        self.transitions = 0
        self.redispatch = {}
        self.configs = set()
        self.cursor_reads = []
        self._auto_inline()
        self.local_arrays = {}
        self._auto_counters()

    def _auto_counters(self):
        """integer locals that live across iterations (declared outside the character loop with a constant initial value), are
        only ever set to constants or stepped by constants, and index a fixed-size local array are followed exactly (clamped
        just above the largest array they index); every indexed access of such an array with a known index is bounds-checked"""
        f = self.f
        inside = set(id(x) for x in ir.walk_stmts(self.loop['body']))
        arrays, cands = {}, {}
        for s_ in ir.walk_stmts(f['body']):
            if s_.get('k') != 'decl':
                continue
            for v in s_['vars']:
                tv = T(f, v['t'])
                ini = strip(v.get('init') or {})
                if (tv.get('arr') is not None or tv.get('n') is not None) and tv.get('n') and not tv.get('ptr') and ini.get('k') != 'str' and not tv.get('const'):
                    arrays[v['id']] = (tv['n'], v.get('n'))
                elif id(s_) not in inside and tv.get('int') and not tv.get('ptr') and v.get('init') is not None and const_val(v['init']) is not None and v.get('n') not in self.d['tracked']:
                    cands[v['id']] = (v.get('n'), const_val(v['init']))
        self.local_arrays = arrays
        # flags: locals that live across iterations and only ever take constant values (`bool blank = true; ... blank = false;`)
        for vid, (name, init) in list(cands.items()):
            writes = []
            okf = True
            for e in fn_exprs(f):
                if e.get('k') == 'bin' and e.get('op', '').endswith('=') and e['op'] not in ('==', '!=', '<=', '>='):
                    tgt = strip_lv(e['x'])
                    if tgt.get('k') == 'var' and tgt.get('id') == vid:
                        if e['op'] != '=' or const_val(e['y']) is None:
                            okf = False
                        writes.append(e)
                elif e.get('k') == 'un' and e.get('op') in ('post++', 'post--', 'pre++', 'pre--', '&'):
                    tgt = strip_lv(e['e'])
                    if tgt.get('k') == 'var' and tgt.get('id') == vid:
                        okf = False
                elif e.get('k') == 'call':
                    for a in e.get('a', []) or []:
                        a_ = a
                        while isinstance(a_, dict) and a_.get('k') == 'cast' and a_.get('ck') == 'NoOp':
                            a_ = a_['e']
                        if isinstance(a_, dict) and a_.get('k') == 'var' and a_.get('id') == vid:
                            okf = False         # handed to a callee as an lvalue
            unique = sum(1 for s_ in ir.walk_stmts(f['body']) if s_.get('k') == 'decl' for v in s_['vars'] if v.get('n') == name) == 1
            if okf and writes and unique and self.d.get('auto_flags', True):
                self.d['tracked'][name] = ('local', init)
                cands.pop(vid)
        if not arrays or not cands:
            return
        uses = {}
        for e in fn_exprs(f):
            if e.get('k') == 'idx':
                b = strip(e['b'])
                if b.get('k') == 'var' and b.get('id') in arrays:
                    for w in walk_expr(e['i']):
                        if w.get('k') == 'var' and w.get('id') in cands:
                            uses.setdefault(w['id'], set()).add(b['id'])
        for vid, arrs in uses.items():
            name, init = cands[vid]
            ok = True
            for e in fn_exprs(f):
                tgt = None
                if e.get('k') == 'bin' and e.get('op', '').endswith('=') and e['op'] not in ('==', '!=', '<=', '>='):
                    tgt = strip_lv(e['x'])
                    if tgt.get('k') == 'var' and tgt.get('id') == vid and const_val(e['y']) is None:
                        ok = False
                elif e.get('k') == 'un' and e.get('op') == '&':
                    tgt = strip_lv(e['e'])
                    if tgt.get('k') == 'var' and tgt.get('id') == vid:
                        ok = False
            # the name must be unique among the function's locals (tracked locals are keyed by name)
            if sum(1 for s_ in ir.walk_stmts(f['body']) if s_.get('k') == 'decl' for v in s_['vars'] if v.get('n') == name) != 1:
                ok = False
            if ok:
                self.d['tracked'][name] = ('local', init)
                self.d.setdefault('clamp', {})[name] = (-1, max(arrays[a][0] for a in arrs) + 1)

    def _auto_inline(self):
        """helpers of the parser's own class that touch the tracked state (assign a tracked member, push / pop a tracked stack, or
        call such a helper) are interpreted at their call sites like the functions listed under 'inline': an extracted
        `end_container()` must not hide its pop from the machine"""
        cls = self.f.get('cls')
        if not cls:
            return
        inline = set(self.d.get('inline', ()))
        tracked = set(n for n, v in self.d.get('tracked', {}).items() if v[0] == 'mem') | set(self.d.get('stacks', {}))
        skip = set(self.d.get('intrinsics', {})) | set(self.d.get('pure', ()))
        cands = [g for g in self.prog.functions if g.get('cls') == cls and g.get('body') and g is not self.f and g.get('n') not in skip]
        changed = True
        while changed:
            changed = False
            for g in cands:
                if g['n'] in inline:
                    continue
                hit = False
                for e in fn_exprs(g):
                    if e.get('k') == 'mem' and e.get('f') in tracked and strip_lv(e.get('b') or {'k': 'this'}).get('k') == 'this':
                        hit = True
                        break
                    if e.get('k') == 'call' and (e.get('pq') or e.get('fn') or '').split('::')[-1] in inline and (e.get('cls') == cls or e.get('obj') is None):
                        hit = True
                        break
                if hit:
                    inline.add(g['n'])
                    changed = True
        # helpers outside the class (file-level statics) that are handed a tracked stack by reference: interpreted at the call, the
        # parameter naming the stack
        alias = self.d.setdefault('stack_alias', {})
        srcs = [self.f] + [g for g in cands if g['n'] in inline]
        for host in srcs:
            for e in fn_exprs(host):
                if e.get('k') != 'call' or not e.get('fn') or e.get('obj') is not None:
                    continue
                for ai, a in enumerate(e.get('a', [])):
                    a_ = strip_lv(a)
                    sn = a_.get('f') if a_.get('k') == 'mem' else a_.get('n') if a_.get('k') == 'var' else None
                    if sn in self.d.get('stacks', {}):
                        for g in self.prog.fn(e['fn'], e.get('sig')):
                            if g.get('body') and g.get('file') == self.f.get('file') and ai < len(g['params']) and T(g, g['params'][ai]['t']).get('ref'):
                                inline.add(g['n'])
                                alias[g['params'][ai]['n']] = sn
        self.d['inline'] = inline

    # ------------------------------------------------------------ setup
    def _find_loop(self):
        for s_ in ir.walk_stmts(self.f['body']):
            if s_.get('k') == 'while' and s_.get('cv') and T(self.f, s_['cv']['t']).get('bits') == 8:
                return s_
        raise ir.AnalysisBroken('%s: character loop `while (char c = *p++)` not found' % self.f['q'])

    def _cursor_id(self):
        for w in walk_expr(self.loop['cv']['init']):
            if w.get('k') == 'un' and w.get('op') == 'post++' and strip_lv(w['e']).get('k') == 'var':
                return strip_lv(w['e'])['id']
        raise ir.AnalysisBroken('%s: loop cursor not found' % self.f['q'])

    # ------------------------------------------------------------ abstract stacks
    def push(self, env, name, kind):
        st = (kind,) + env.stacks[name]
        transient = self.d['stacks'][name].get('transient', ())
        # collapse when the exact window holds more than K non-transient elements (transient kinds - e.g. comment
        # markers - only ever sit on top and are popped before the containers below them are touched)
        if '*' in st:
            i = st.index('*')
            exact = [x for x in st[:i] if x not in transient]
            if len(exact) > K:
                self.below[name].add(st[i - 1])
                st = st[:i - 1] + st[i:]
        else:
            exact = [x for x in st[:-1] if x not in transient]
            if len(exact) > K:
                self.below[name].add(st[-2])
                st = st[:-2] + ('*', st[-1])
        env.stacks[name] = st

    def pop(self, env, name, line, what='pop'):
        """returns list of envs (forks when the revealed element is unknown)"""
        st = env.stacks[name]
        bottom = self.d['stacks'][name]['bottom']
        if not st:
            env.viol.append(('%s:%s on an empty stack' % (name, what), line, 'the stack `%s` can be empty here' % name))
            return [env]
        if st[0] == bottom and len(st) == 1:
            env.viol.append(('%s:%s removes the bottom element' % (name, what), line,
                             '`%s.%s()` can execute when only the bottom (%s) element is on the stack: later top()/pop() use an empty stack' % (name, what, bottom)))
            env.stacks[name] = ()
            return [env]
        rest = st[1:]
        if rest and rest[0] == '*':
            outs = []
            kinds = sorted(self.below[name]) or []
            for k in kinds:
                e1 = env.copy()
                e1.stacks[name] = (k,) + rest            # more unknown elements remain
                outs.append(e1)
                e2 = env.copy()
                e2.stacks[name] = (k,) + rest[1:]        # that was the last unknown one
                outs.append(e2)
            if not outs:
                env.stacks[name] = rest[1:]
                return [env]
            return outs
        env.stacks[name] = rest
        return [env]

    def top(self, env, name, line):
        st = env.stacks[name]
        if not st:
            env.viol.append(('%s:top of an empty stack' % name, line, '`%s.top()` can execute on an empty stack' % name))
            return None
        return st[0]

    def depth(self, env, name):
        st = env.stacks[name]
        if '*' in st:
            return K + 3
        return len(st)

    def set_top(self, env, name, kind):
        st = env.stacks[name]
        env.stacks[name] = (kind,) + st[1:]

    # ------------------------------------------------------------ expression evaluation
    def is_tracked(self, e):
        e = strip_lv(e)
        if e.get('k') == 'mem' and strip_lv(e.get('b') or {}).get('k') == 'this' and e.get('f') in self.d['tracked']:
            return e['f']
        if e.get('k') == 'var' and e.get('n') in self.d['tracked'] and self.d['tracked'][e['n']][0] == 'local':
            return e['n']
        return None

    def stack_name(self, e):
        e = strip_lv(e)
        if e.get('k') == 'mem' and e.get('f') in self.d['stacks']:
            return e['f']
        if e.get('k') == 'var' and e.get('n') in self.d['stacks']:
            return e['n']
        if e.get('k') == 'var' and e.get('vk') == 'param' and e.get('n') in self.d.get('stack_alias', {}):
            return self.d['stack_alias'][e['n']]
        return None

    def const_array(self, vid):
        """contents of a const-qualified local / static array with a literal initialiser (look-up tables), else None"""
        ca = getattr(self, '_const_arrays', None)
        if ca is None:
            ca = {}
            from ir import walk_stmts as _ws
            for s_ in _ws(self.f.get('body')):
                if s_.get('k') == 'decl':
                    for v in s_['vars']:
                        ini = strip(v.get('init') or {})
                        tv = T(self.f, v['t'])
                        if tv.get('n') is None and tv.get('arr') is None:
                            continue
                        if ini.get('k') == 'str':
                            ca[v['id']] = list(ini['b']) + [0]
                        elif ini.get('k') == 'initlist':
                            vals = [const_val(x) for x in ini.get('items', [])]
                            if all(x is not None for x in vals):
                                n_ = tv.get('n') or len(vals)
                                ca[v['id']] = (vals + [0] * n_)[:max(n_, len(vals))]
            # const tables at namespace scope (keyed by their qualified name)
            for qn, g in self.prog.globals.items():
                if not g.get('const'):
                    continue
                if 'vals' in g:
                    ca[qn] = list(g['vals'])
                elif isinstance(g.get('init'), dict) and strip(g['init']).get('k') == 'str':
                    ca[qn] = list(strip(g['init'])['b']) + [0]
            self._const_arrays = ca
        return ca.get(vid)

    def ev(self, e, env, c):
        """value of e: int, a pointer into a constant table ('ptr', array id, index), or U.
        Side effects of ++/-- on tracked variables are applied."""
        if e is None:
            return U
        k = e.get('k')
        if k == 'int':
            return e['v']
        if k in ('str', 'float'):
            return U
        if k == 'var':
            if e.get('id') == self.cvar['id']:
                return c
            if e.get('id') == self.cursor:
                self.cursor_reads.append(e.get('l', 0))
                return U
            t = self.is_tracked(e)
            if t:
                return env.vars[t]
            if self.const_array(e.get('id')) is not None:
                return ('ptr', e['id'], 0)
            if e.get('q') and self.const_array(e.get('q')) is not None:
                return ('ptr', e['q'], 0)
            if e.get('id') in env.locals:
                return env.locals[e['id']]
            if 'cv' in e:
                return e['cv']
            return U
        if k == 'mem':
            t = self.is_tracked(e)
            if t:
                return env.vars[t]
            return U
        if k == 'cast':
            v = self.ev(e['e'], env, c)
            if v is U:
                return U
            ck = e.get('ck')
            if isinstance(v, tuple):
                return 1 if ck == 'PointerToBoolean' else v
            if ck in ('IntegralToBoolean', 'PointerToBoolean'):
                return int(v != 0)
            if ck == 'IntegralCast':
                t = T(self.f, e.get('t'))
                if t.get('bits'):
                    return bytesets.wrap(v, t['bits'], t.get('sg', True))
            return v
        if k == 'temp':
            return self.ev(e['e'], env, c)
        if k == 'un':
            op = e['op']
            if op in ('post++', 'post--', 'pre++', 'pre--'):
                t = self.is_tracked(e['e'])
                tgt = strip_lv(e['e'])
                if t:
                    old = env.vars[t]
                    new = old + (1 if '++' in op else -1)
                    env.vars[t] = self.clamp(t, new)
                    return old if op.startswith('post') else new
                if tgt.get('k') == 'var' and tgt.get('id') == self.cursor:
                    if op == 'post--' or op == 'pre--':
                        env.pushback += 1
                    else:
                        self.cursor_reads.append(e.get('l', 0))
                    return U
                if tgt.get('k') == 'var' and tgt.get('id') in env.locals and env.locals[tgt['id']] is not U:
                    old = env.locals[tgt['id']]
                    d_ = 1 if '++' in op else -1
                    env.locals[tgt['id']] = ('ptr', old[1], old[2] + d_) if isinstance(old, tuple) else old + d_
                    return old if op.startswith('post') else env.locals[tgt['id']]
                return U
            if op == '&' and env.texts:
                # address of a character of a followed text (`&_buffer[1]`): a pointer into that text
                x_ = strip(e['e'])
                while x_.get('k') in ('paren', 'cast'):
                    x_ = strip(x_['e'])
                if x_.get('k') == 'call' and x_.get('op') == '[]' and x_.get('obj') is not None and len(x_.get('a', [])) == 1:
                    tn_ = self.text_name(x_['obj'], env)
                    i_ = self.ev(x_['a'][0], env, c) if tn_ is not None else U
                    if tn_ is not None and env.texts[tn_] is not None and isinstance(i_, int) and 0 <= i_ <= len(env.texts[tn_]):
                        return ('ptr', ('text', tn_), i_)
            v = self.ev(e['e'], env, c)
            if op == '*' and isinstance(v, tuple):
                arr = self.array_of(v[1], env)
                return arr[v[2]] if arr is not None and 0 <= v[2] < len(arr) else U
            if op == '*' or op == '&':
                return U
            if v is U:
                return U
            if isinstance(v, tuple):
                return 0 if op == '!' else U
            if op == '!':
                return int(not v)
            if op == '-':
                return -v
            if op == '~':
                return ~v
            return v
        if k == 'bin':
            op = e['op']
            if op == '&&':
                a = self.ev(e['x'], env, c)
                if a is not U and not a:
                    return 0
                b = self.ev(e['y'], env, c)
                if b is not U and not b:
                    return 0
                if a is U or b is U:
                    return U
                return 1
            if op == '||':
                a = self.ev(e['x'], env, c)
                if a is not U and a:
                    return 1
                b = self.ev(e['y'], env, c)
                if b is not U and b:
                    return 1
                if a is U or b is U:
                    return U
                return 0
            if op == ',':
                self.ev(e['x'], env, c)
                return self.ev(e['y'], env, c)
            a, b = self.ev(e['x'], env, c), self.ev(e['y'], env, c)
            if a is U or b is U:
                return U
            if isinstance(a, tuple) or isinstance(b, tuple):
                # pointers into constant tables: difference, offset, comparison with null / each other
                if isinstance(a, tuple) and isinstance(b, tuple):
                    if a[1] != b[1]:
                        return U
                    if op == '-':
                        return a[2] - b[2]
                    if op in ('==', '!=', '<', '>', '<=', '>='):
                        return int({'==': a[2] == b[2], '!=': a[2] != b[2], '<': a[2] < b[2], '>': a[2] > b[2], '<=': a[2] <= b[2], '>=': a[2] >= b[2]}[op])
                    return U
                p_, i_ = (a, b) if isinstance(a, tuple) else (b, a)
                if op == '+':
                    return ('ptr', p_[1], p_[2] + i_)
                if op == '-' and isinstance(a, tuple):
                    return ('ptr', a[1], a[2] - b)
                if op in ('==', '!=') and i_ == 0:
                    return int(op == '!=')
                return U
            try:
                return {'+': a + b, '-': a - b, '*': a * b, '&': a & b, '|': a | b, '^': a ^ b, '<<': a << b if 0 <= b < 64 else 0, '>>': a >> b if 0 <= b < 64 else 0,
                        '==': int(a == b), '!=': int(a != b), '<': int(a < b), '>': int(a > b), '<=': int(a <= b), '>=': int(a >= b),
                        '%': (a % b if b else 0), '/': (int(a / b) if b else 0)}[op]
            except KeyError:
                return U
        if k == 'cond':
            cc = self.ev(e['c'], env, c)
            if cc is U:
                a, b = self.ev(e['x'], env, c), self.ev(e['y'], env, c)
                return a if (a == b and a is not U) else U
            return self.ev(e['x'], env, c) if cc else self.ev(e['y'], env, c)
        if k == 'construct' and len(e.get('a', [])) == 1:
            return self.ev(e['a'][0], env, c)
        if k == 'call':
            return self.ev_call(e, env, c)
        if k == 'idx':
            bv = self.ev(e['b'], env, c)
            iv = self.ev(e['i'], env, c)
            b0 = strip(e['b'])
            if b0.get('k') == 'var' and b0.get('id') in self.local_arrays and isinstance(iv, int):
                size, aname = self.local_arrays[b0['id']]
                if not 0 <= iv < size:
                    env.viol.append(('buffer:index outside a fixed local array', e.get('l', 0), '`%s` is accessed with index %d but `%s` has %d elements (one byte past a stack buffer for a name / number that long)' % (pe(e)[:40], iv, aname, size)))
            if isinstance(bv, tuple) and iv is not U and not isinstance(iv, tuple):
                arr = self.array_of(bv[1], env)
                j = bv[2] + iv
                if arr is not None and 0 <= j < len(arr):
                    v_ = arr[j]
                    t_ = T(self.f, e.get('t'))
                    return bytesets.wrap(v_, t_['bits'], t_.get('sg', True)) if t_.get('bits') else v_
                return U
            # look-behind / look-ahead through the cursor
            if any(w.get('k') == 'var' and w.get('id') == self.cursor for w in walk_expr(e['b'])):
                self.cursor_reads.append(e.get('l', 0))
            return U
        return U

    def clamp(self, name, v):
        lim = self.d.get('clamp', {}).get(name)
        if lim is not None:
            lo, hi = lim
            return max(lo, min(hi, v))
        return v

    def pure_scalar(self, e):
        """the call is of a free function with by-value scalar parameters and a scalar result that writes nothing but its own
        locals: its value can be computed from the argument values (bytesets / scansim), whatever its body looks like"""
        if e.get('k') != 'call' or e.get('clsp') or e.get('obj') is not None or not e.get('fn'):
            return False
        cache = self.__dict__.setdefault('_pure_cache', {})
        key = (e.get('fn'), e.get('sig'))
        if key in cache:
            return cache[key]
        ok = False
        cands = [g for g in self.prog.fn(e['fn'], e.get('sig')) if g.get('body')]
        if cands:
            g = cands[0]
            ok = all(T(g, p_['t']).get('int') and not T(g, p_['t']).get('ref') and not T(g, p_['t']).get('ptr') for p_ in g['params']) and bool(T(g, g.get('ret')).get('int'))
            if ok:
                for w in fn_exprs(g):
                    tgt = None
                    if w.get('k') == 'bin' and w.get('op', '').endswith('=') and w['op'] not in ('==', '!=', '<=', '>='):
                        tgt = strip_lv(w['x'])
                    elif w.get('k') == 'un' and w.get('op') in ('post++', 'pre++', 'post--', 'pre--'):
                        tgt = strip_lv(w['e'])
                    elif w.get('k') == 'call' and not (w.get('fn') in bytesets.LIBC):
                        ok = False
                    if tgt is not None and not (tgt.get('k') == 'var' and tgt.get('vk') in ('local', 'param')):
                        ok = False
        cache[key] = ok
        return ok

    def array_of(self, aid, env):
        """elements behind a pointer value: a constant table, or the bytes (and terminator) of a followed text"""
        if isinstance(aid, tuple) and aid and aid[0] == 'text':
            t_ = env.texts.get(aid[1])
            return None if t_ is None else [b - 256 if b > 127 else b for b in t_] + [0]
        return self.const_array(aid)

    def text_name(self, e, env):
        """name of a followed text member (String) the expression designates, if its content is being followed in env"""
        o = strip_lv(e or {})
        while o.get('k') in ('paren', 'cast', 'temp'):
            o = strip_lv(o['e'])
        if o.get('k') == 'mem' and o.get('f') in env.texts and strip_lv(o.get('b') or {'k': 'this'}).get('k') == 'this':
            return o['f']
        if o.get('k') == 'var' and o.get('vk') == 'local' and o.get('n') in env.texts:
            return o['n']          # a String local of the parser function (declared outside the character loop)
        return None

    def text_value(self, e, env, c):
        """bytes of a text operand: a literal, a character value, or a followed text member; None if unknown"""
        x = strip(e)
        while x.get('k') in ('paren', 'cast', 'temp') or (x.get('k') == 'construct' and len(x.get('a', [])) == 1):
            x = strip(x['e'] if x.get('k') != 'construct' else x['a'][0])
        if x.get('k') == 'str':
            return tuple(b & 255 for b in x['b'])
        tn = self.text_name(x, env)
        if tn is not None:
            return env.texts[tn]
        v = self.ev(x, env, c)
        if isinstance(v, int):
            return (v & 255,)
        return None

    def ev_call(self, e, env, c):
        short = (e.get('pq') or e.get('fn') or '').split('::')[-1]
        if env.texts and e.get('obj') is not None:
            tn = self.text_name(e['obj'], env)
            if tn is not None:
                txt = env.texts[tn]
                if txt is None:
                    return U
                if short in ('length', 'size') and not e.get('a'):
                    return len(txt)
                if e.get('op') == '[]' and len(e.get('a', [])) == 1:
                    i = self.ev(e['a'][0], env, c)
                    if isinstance(i, int) and 0 <= i <= len(txt):
                        b = txt[i] if i < len(txt) else 0
                        return b - 256 if b > 127 else b
                    return U
                if e.get('op') in ('==', '!=') and len(e.get('a', [])) == 1:
                    other = self.text_value(e['a'][0], env, c)
                    if other is None:
                        return U
                    return int((txt == other) == (e['op'] == '=='))
                if short in ('operator bool', 'ok') and not e.get('a'):
                    return int(len(txt) > 0)
                if short in ('operator const char *', 'operator char *', 'data', 'str', 'operator*') and not e.get('a'):
                    return ('ptr', ('text', tn), 0)
                return U
        # stack queries
        if e.get('obj') is not None:
            sn = self.stack_name(e['obj'])
            if sn:
                if short == 'top':
                    kd = self.top(env, sn, e.get('l', 0))
                    return self.kind_value(sn, kd)
                if short == 'length':
                    return self.depth(env, sn)
        if short in ('memchr', 'strchr') and not e.get('clsp') and len(e.get('a', [])) >= 2:
            base = self.ev(e['a'][0], env, c)
            ch = self.ev(e['a'][1], env, c)
            lim = self.ev(e['a'][2], env, c) if len(e['a']) > 2 else None
            if isinstance(base, tuple) and ch is not U and not isinstance(ch, tuple) and lim is not U:
                arr = self.const_array(base[1])
                if arr is not None:
                    end = len(arr) if lim is None else min(len(arr), base[2] + lim)
                    for j in range(base[2], end):
                        if (arr[j] & 255) == (ch & 255):
                            return ('ptr', base[1], j)
                        if short == 'strchr' and arr[j] == 0:
                            break
                    return 0
            return U
        if short in bytesets.LIBC and not e.get('clsp') and e.get('obj') is None and len(e.get('a', [])) == 1:
            a0 = self.ev(e['a'][0], env, c)             # character classification of the C library (C locale)
            if a0 is U or isinstance(a0, tuple):
                return U
            return bytesets.LIBC[short](a0)
        if short in self.d.get('pure', ()) or self.pure_scalar(e):
            args = [self.ev(a, env, c) for a in e.get('a', [])]
            if any(a is U for a in args):
                return U
            try:
                fake = dict(e)
                fake['a'] = [{'k': 'int', 'v': a} for a in args]
                return bytesets.Evaluator(self.prog, self.f).call(fake)
            except bytesets.Undecidable:
                return U
        if e.get('op') in ('==', '!=') and e.get('ck') == 'op':
            # comparison operators of untracked objects (buffers)
            for a in e.get('a', []):
                self.ev(a, env, c)
            return U
        # reads through the cursor inside arguments
        for a in e.get('a', []):
            self.ev(a, env, c)
        return U

    def kind_value(self, sn, kd):
        if kd is None:
            return U
        fn = self.d['stacks'][sn].get('kind_value')
        return fn(kd) if fn else U

    # ------------------------------------------------------------ statements
    def exec_stmt(self, s, env, c):
        """generator of (env, control) with control in None | 'break' | 'continue' | 'return' | ('goto', label)"""
        if s is None:
            yield env, None
            return
        k = s.get('k')
        if k == 'block':
            for r in self.exec_seq(s['s'], 0, env, c):
                yield r
            return
        if k == 'expr':
            for e2 in self.exec_expr(s['e'], env, c):
                yield e2, None
            return
        if k == 'decl':
            envs = [env]
            for v in s['vars']:
                nxt = []
                for e1 in envs:
                    if v['n'] in self.d['tracked'] and self.d['tracked'][v['n']][0] == 'local':
                        nxt.append(e1)
                        continue
                    if v.get('init') is not None:
                        ini = strip(v['init'])
                        # X y = stack.popget();  and other effectful initialisers
                        outs = list(self.exec_expr(v['init'], e1, c, want_value=True))
                        for e2, val in outs:
                            e2.locals[v['id']] = val
                            nxt.append(e2)
                    else:
                        e1.locals[v['id']] = U
                        nxt.append(e1)
                envs = nxt
            for e1 in envs:
                yield e1, None
            return
        if k == 'if':
            if s.get('cv') is not None and s['cv'].get('init') is not None:
                # `if (T x = e)`: x is a local of this statement
                env.locals[s['cv']['id']] = self.ev(s['cv']['init'], env, c)
            cnd = strip(s['c'])
            negc = False
            while cnd.get('k') in ('paren',) or (cnd.get('k') == 'un' and cnd.get('op') == '!') or (cnd.get('k') == 'cast' and cnd.get('ck') in ('IntegralToBoolean',)):
                if cnd.get('k') == 'un':
                    negc = not negc
                cnd = strip(cnd['e'])
            inl = self.d.get('inline', ())
            has_inline = any(w.get('k') == 'call' and (w.get('pq') or w.get('fn') or '').split('::')[-1] in inl for w in walk_expr(s['c']))
            if has_inline and cnd.get('k') == 'call' and (cnd.get('pq') or cnd.get('fn') or '').split('::')[-1] in inl:
                # the condition is a call of a helper that changes the tracked state: run it (it may fork) and branch on its result
                branches = []
                for e2, v in self.exec_call(cnd, env, c, True):
                    if v is U:
                        branches += [(e2.copy(), True), (e2, False)]
                    else:
                        branches.append((e2, bool(v) != negc))
            elif has_inline:
                raise Stuck('call of a state-changing helper inside a compound condition at line %d' % s.get('l', 0))
            else:
                cv = self.ev(s['c'], env, c)
                if cv is U:
                    branches = [(env.copy(), True), (env, False)]
                else:
                    branches = [(env, bool(cv))]
            for e1, tr in branches:
                if tr:
                    for r in self.exec_stmt(s['then'], e1, c):
                        yield r
                elif s.get('else') is not None:
                    for r in self.exec_stmt(s['else'], e1, c):
                        yield r
                else:
                    yield e1, None
            return
        if k == 'switch':
            v = self.ev(s['c'], env, c)
            body = s['body']['s'] if s['body'].get('k') == 'block' else [s['body']]
            flat = []
            for st in body:
                labels = []
                x = st
                while x.get('k') in ('case', 'default'):
                    labels.append('default' if x['k'] == 'default' else (x.get('v'), x.get('v2')))
                    x = x['sub']
                flat.append((labels, x))
            if v is U:
                starts = [i for i, (labs, _) in enumerate(flat) if labs]
                if not any('default' in labs for labs, _ in flat):
                    starts.append(None)
            else:
                start = None
                for i, (labs, _) in enumerate(flat):
                    for lab in labs:
                        if lab != 'default' and (lab[0] == v or (lab[1] is not None and lab[0] <= v <= lab[1])):
                            start = i
                            break
                    if start is not None:
                        break
                if start is None:
                    for i, (labs, _) in enumerate(flat):
                        if 'default' in labs:
                            start = i
                starts = [start]
            for st_i in starts:
                e1 = env.copy() if len(starts) > 1 else env
                if st_i is None:
                    yield e1, None
                    continue
                for e2, ctl in self.exec_seq([x for _, x in flat], st_i, e1, c):
                    if ctl == 'break':
                        yield e2, None
                    else:
                        yield e2, ctl
            return
        if k in ('for', 'while', 'do'):
            # inner loops only scan untracked buffers: they must not change tracked state; stack *queries* (top) are allowed
            # and are checked by interpreting the body once (zero iterations is the other abstract outcome)
            for e in ir.stmt_exprs(s):
                if (e.get('k') == 'bin' and e.get('op', '').endswith('=') and e['op'] not in ('==', '!=', '<=', '>=') and self.is_tracked(e['x'])) or \
                   (e.get('k') == 'un' and e.get('op') in ('post++', 'post--', 'pre++', 'pre--') and self.is_tracked(e['e'])) or \
                   (e.get('k') == 'call' and e.get('obj') is not None and self.stack_name(e['obj']) and (e.get('pq') or '').split('::')[-1] not in ('top', 'length')) or \
                   (e.get('k') == 'var' and e.get('id') == self.cursor):
                    raise Stuck('inner loop at line %d modifies tracked state or the cursor' % s.get('l', 0))
            if env.texts and k == 'for':
                # run_text mode: a counting loop over a followed text (a scan of the pending character data) is executed
                # concretely as long as its condition evaluates to a known value
                res = self.concrete_for(s, env.copy(), c)
                if res is not None:
                    for r in res:
                        yield r
                    return
            yield env.copy(), None
            e1 = env
            if s.get('init') is not None:
                for v in (s['init'].get('vars') or []):
                    e1.locals[v['id']] = U
            for e2, ctl in self.exec_stmt(s['body'], e1, c):
                if ctl in (None, 'break', 'continue'):
                    yield e2, None
                else:
                    yield e2, ctl
            return
        if k == 'return':
            if s.get('e') is not None:
                outs = list(self.exec_expr(s['e'], env, c, want_value=True))
                for e2, v in outs:
                    e2.locals['#ret'] = v           # value handed back to an inlining call site
                    yield e2, 'return'
                return
            yield env, 'return'
            return
        if k == 'break':
            yield env, 'break'
            return
        if k == 'continue':
            yield env, 'continue'
            return
        if k == 'goto':
            yield env, ('goto', s['label'])
            return
        if k == 'label':
            for r in self.exec_stmt(s['sub'], env, c):
                yield r
            return
        if k == 'null':
            yield env, None
            return
        raise Stuck('statement kind %s at line %d' % (k, s.get('l', 0)))

    def concrete_for(self, s, env, c, limit=4096):
        """[(env, control)] of a `for` loop executed iteration by iteration, or None when a condition or a fork makes the
        concrete execution impossible (the caller falls back to the abstract zero-or-one-iteration treatment)"""
        if s.get('init') is not None:
            outs = list(self.exec_stmt(s['init'], env, c))
            if len(outs) != 1 or outs[0][1] is not None:
                return None
            env = outs[0][0]
        for _ in range(limit):
            if s.get('c') is not None:
                cv = self.ev(s['c'], env, c)
                if cv is U or isinstance(cv, tuple):
                    return None
                if not cv:
                    return [(env, None)]
            outs = list(self.exec_stmt(s['body'], env, c))
            if len(outs) != 1:
                return None
            env, ctl = outs[0]
            if ctl == 'break':
                return [(env, None)]
            if ctl not in (None, 'continue'):
                return [(env, ctl)]
            if s.get('inc') is not None:
                outs = list(self.exec_expr(s['inc'], env, c))
                if len(outs) != 1:
                    return None
                env = outs[0]
        return None

    def exec_seq(self, stmts, start, env, c):
        if start >= len(stmts):
            yield env, None
            return
        for e1, ctl in self.exec_stmt(stmts[start], env, c):
            if ctl is None:
                for r in self.exec_seq(stmts, start + 1, e1, c):
                    yield r
            elif isinstance(ctl, tuple) and ctl[0] == 'goto':
                # label later in this sequence?
                tgt = None
                for i, st in enumerate(stmts):
                    if st.get('k') == 'label' and st.get('n') == ctl[1]:
                        tgt = i
                if tgt is not None:
                    for r in self.exec_seq(stmts, tgt, e1, c):
                        yield r
                else:
                    yield e1, ctl
            else:
                yield e1, ctl

    def exec_expr(self, e, env, c, want_value=False):
        """side-effecting expression statement; yields env (or (env, value) when want_value)"""
        def out(envs, val=U):
            for x in envs:
                yield (x, val) if want_value else x
        e0 = e
        e = strip(e) if e is not None and e.get('k') in ('temp', 'cast') else e
        k = e.get('k') if e else None
        if k == 'bin' and e.get('op') == '=':
            t = self.is_tracked(e['x'])
            if t:
                results = []
                rhs = strip(e['y'])
                # effectful right-hand sides are not expected for tracked variables
                v = self.ev(e['y'], env, c)
                if v is U:
                    if env.viol:
                        # this path already performed an unsafe stack operation: it is reported and not followed further
                        env.events.append(('dead',))
                        return out([env], U)
                    raise Stuck('tracked variable `%s` assigned an untracked value at line %d (`%s`)' % (t, e.get('l', 0), pe(e)))
                env.vars[t] = self.clamp(t, v)
                return out([env], v)
            tgt = strip_lv(e['x'])
            if tgt.get('k') == 'var' and tgt.get('id') == self.cursor:
                raise Stuck('cursor reassigned inside the loop at line %d' % e.get('l', 0))
            if tgt.get('k') == 'var':
                results = []
                for e2, val in self.exec_expr(e['y'], env, c, want_value=True):
                    e2.locals[tgt['id']] = val
                    results.append(e2)
                return out(results)
            self.ev(e['x'], env, c)
            res = [x for x, _ in self.exec_expr(e['y'], env, c, want_value=True)]
            return out(res)
        if k == 'bin' and e.get('op') in ('+=', '-='):
            t = self.is_tracked(e['x'])
            if t:
                v = self.ev(e['y'], env, c)
                if v is U:
                    raise Stuck('tracked variable `%s` updated with an untracked value at line %d' % (t, e.get('l', 0)))
                env.vars[t] = self.clamp(t, env.vars[t] + (v if e['op'] == '+=' else -v))
                return out([env])
            tgt = strip_lv(e['x'])
            if tgt.get('k') == 'var' and tgt.get('id') == self.cursor:
                raise Stuck('cursor advanced inside the loop at line %d' % e.get('l', 0))
            self.ev(e['y'], env, c)
            return out([env])
        if k == 'call' or k == 'construct':
            return self.exec_call(e, env, c, want_value)
        v = self.ev(e, env, c) if e is not None else U
        return out([env], v)

    def exec_call(self, e, env, c, want_value):
        def out(envs, val=U):
            for x in envs:
                yield (x, val) if want_value else x
        short = (e.get('pq') or e.get('fn') or '').split('::')[-1]
        line = e.get('l', 0)
        if e.get('k') == 'call' and e.get('obj') is not None:
            sn = self.stack_name(e['obj'])
            if sn:
                sd = self.d['stacks'][sn]
                if short in ('operator<<', 'push'):
                    kd = sd['push_kind'](self, env, e['a'][0], c)
                    self.push(env, sn, kd)
                    env.events.append(('push', sn, kd))
                    return out([env])
                if short in ('pop', 'popget'):
                    if e.get('a'):
                        raise Stuck('pop(n) at line %d' % line)
                    old = env.stacks[sn][0] if env.stacks[sn] else None
                    envs = self.pop(env, sn, line, short)
                    for x in envs:
                        x.events.append(('pop', sn, old))
                    return out(envs)
                if short == 'top':
                    self.top(env, sn, line)
                    return out([env], self.kind_value(sn, env.stacks[sn][0] if env.stacks[sn] else None))
                if short in ('length',):
                    return out([env], self.depth(env, sn))
                if short in ('clear', 'resize', 'remove', 'insert', 'reserve'):
                    raise Stuck('%s.%s at line %d' % (sn, short, line))
            # a call on the element returned by top(): elems.top() << e / elems.top().setAttr(..)
            o = strip(e['obj'])
            if o.get('k') == 'call' and o.get('obj') is not None and self.stack_name(o['obj']) and (o.get('pq') or '').split('::')[-1] == 'top':
                sn2 = self.stack_name(o['obj'])
                self.top(env, sn2, line)
                hook = self.d.get('on_top_call')
                if hook:
                    hook(self, env, sn2, e)
                for a in e.get('a', []):
                    self.ev(a, env, c)
                return out([env])
        if env.texts and e.get('k') == 'call' and e.get('obj') is not None:
            tn = self.text_name(e['obj'], env)
            if tn is not None:
                if (e.get('op') in ('<<', '+=') or short in ('append', 'operator<<', 'operator+=')) and len(e.get('a', [])) == 1:
                    add = self.text_value(e['a'][0], env, c)
                    env.texts[tn] = None if (add is None or env.texts[tn] is None) else env.texts[tn] + add
                    return out([env])
                if (e.get('op') == '=' or short == 'operator=') and len(e.get('a', [])) == 1:
                    env.texts[tn] = self.text_value(e['a'][0], env, c)
                    return out([env])
                if short == 'clear' and not e.get('a'):
                    env.texts[tn] = ()
                    return out([env])
                if 'const' in (e.get('sig') or '').split(')')[-1] or e.get('op') in ('==', '!=', '[]'):
                    return out([env], self.ev_call(e, env, c))
                env.texts[tn] = None            # any other member: the content is no longer known
                return out([env])
        if env.texts and e.get('k') == 'call' and e.get('a'):
            # a followed text handed to a function by non-const reference (`appendReference(b, ref, table)`): the callee may
            # write it, its content is no longer known
            cal = [g for g in self.prog.fn(e.get('fn'), e.get('sig')) if g.get('params') is not None] if e.get('fn') else []
            for j, a_ in enumerate(e['a']):
                tn_ = self.text_name(a_, env)
                if tn_ is None:
                    continue
                const_ref = False
                if cal and j < len(cal[0]['params']):
                    pt_ = T(cal[0], cal[0]['params'][j]['t'])
                    const_ref = (not pt_.get('ref') and not pt_.get('ptr')) or bool(T(cal[0], pt_.get('to')).get('const'))
                if not const_ref:
                    env.texts[tn_] = None
        if short in self.d.get('intrinsics', {}):
            res = self.d['intrinsics'][short](self, env, e, c)
            return out(res if res is not None else [env])
        if short in self.d.get('inline', ()):
            cands = [g for g in self.prog.fn(e.get('fn'), e.get('sig')) if g.get('body')]
            if not cands:
                raise Stuck('callee %s has no body' % e.get('fn'))
            g = cands[0]
            saved_f = self.f
            results = []
            self.f = g
            # scalar arguments become the callee's parameters (per-iteration locals of the environment)
            for p_, a in zip(g.get('params', []), e.get('a', [])):
                env.locals[p_['id']] = self.ev(a, env, c)
            try:
                for e2, ctl in self.exec_stmt(g['body'], env, c):
                    results.append((e2, e2.locals.pop('#ret', U) if ctl == 'return' else U))
            finally:
                self.f = saved_f
            if want_value:
                return iter(results)
            return iter([e2 for e2, v in results])
        if e.get('k') == 'call' and not e.get('clsp') and (short in ('memchr', 'strchr') or short in self.d.get('pure', ()) or self.pure_scalar(e)):
            return out([env], self.ev_call(e, env, c))       # side-effect-free: its value is wanted (table look-ups)
        for a in e.get('a', []):
            self.ev(a, env, c)
        if e.get('obj') is not None:
            self.ev(e['obj'], env, c)
        return out([env])

    # ------------------------------------------------------------ exploration
    def initial_env(self):
        vars_ = dict((n, v[1]) for n, v in self.d['tracked'].items())
        stacks = dict((n, tuple(sd['init'])) for n, sd in self.d['stacks'].items())
        return Env(vars_, stacks)

    def step(self, env0, c):
        """all successor environments of one loop iteration on byte c (push-backs are re-dispatched by the caller)"""
        env = env0.copy()
        env.locals = {}
        env.pushback = 0
        env.events = []
        env.viol = []
        outs = []
        body = self.loop['body']
        for e2, ctl in self.exec_stmt(body, env, c):
            outs.append((e2, ctl))
        return outs

    def explore(self, max_configs=60000):
        below_before = None
        rounds = 0
        while below_before != dict((k, set(v)) for k, v in self.below.items()):
            below_before = dict((k, set(v)) for k, v in self.below.items())
            rounds += 1
            if rounds > 6:
                raise Stuck('below-window kinds do not stabilise')
            self.configs = set()
            self.parent = {}
            self.violations = []
            self.transitions = 0
            self.terminal = {}
            init = self.initial_env()
            work = [init]
            self.configs.add(init.key())
            stop_when = self.d.get('stop_state')
            while work:
                env = work.pop()
                if stop_when and stop_when(env):
                    continue
                for b in self.representatives():
                    c = b - 256 if b > 127 else b
                    # follow push-backs: same byte re-dispatched in the new configuration (chain tracked per path)
                    pending = [(env, frozenset())]
                    while pending:
                        cur, chain = pending.pop()
                        for e2, ctl in self.step(cur, c):
                            self.transitions += 1
                            for v in e2.viol:
                                self.violations.append((v[0], v[1], v[2], self.describe(cur), b, self.witness(env.key()) + bytes([b])))
                            if e2.viol:
                                continue        # unsafe path: reported, not followed
                            hook = self.d.get('after_step')
                            if hook:
                                hook(self, cur, e2, ctl, c)
                            if ctl == 'return':
                                self.terminal[e2.key()] = e2
                                continue
                            if ctl not in (None, 'continue', 'break'):
                                raise Stuck('control %s leaves the loop body' % (ctl,))
                            if ctl == 'break':
                                self.terminal[e2.key()] = e2
                                continue
                            if e2.pushback > 1:
                                self.violations.append(('push-back:steps back more than one byte', 0, 'the cursor is decremented %d times in one iteration' % e2.pushback, self.describe(cur), b, self.witness(env.key()) + bytes([b])))
                            if e2.pushback >= 1:
                                kk = e2.key()
                                if kk in chain or len(chain) > 12:
                                    self.violations.append(('push-back:cycle', 0, 'the same byte is re-dispatched for ever (no input is consumed)', self.describe(cur), b, self.witness(env.key()) + bytes([b])))
                                    continue
                                pending.append((e2.copy(), chain | frozenset([kk])))
                                continue
                            kk = e2.key()
                            if kk not in self.configs:
                                self.configs.add(kk)
                                self.parent[kk] = (env.key(), b)
                                if len(self.configs) > max_configs:
                                    raise Stuck('configuration space larger than %d' % max_configs)
                                work.append(e2)
        return self

    def run_text(self, text, max_envs=4000, on_prefix=None, keep_log=False):
        """the configurations the machine can be in after the bytes of `text`, from the initial configuration (every fork on an
        untracked value is followed; push-backs re-dispatch the byte; paths with a violation or a return are dropped)"""
        first = self.initial_env()
        first.texts = dict((n_, ()) for n_ in self.d.get('texts', ()))
        if keep_log:
            first.log = ()
        envs = {first.key(): first}
        stop_when = self.d.get('stop_state')
        for b in text:
            c = b - 256 if b > 127 else b
            nxt = {}
            for env in envs.values():
                if stop_when and stop_when(env):
                    nxt[env.key()] = env
                    continue
                pending = [(env, 0)]
                while pending:
                    cur, depth = pending.pop()
                    for e2, ctl in self.step(cur, c):
                        if e2.viol or ctl == 'return':
                            continue
                        if ctl not in (None, 'continue', 'break'):
                            raise Stuck('control %s leaves the loop body' % (ctl,))
                        if ctl == 'break':
                            continue
                        if e2.log is not None and e2.events:
                            e2.log = e2.log + tuple(tuple(ev) for ev in e2.events)
                        if e2.pushback >= 1:
                            if depth > 12:
                                continue
                            pending.append((e2.copy(), depth + 1))
                            continue
                        nxt[e2.key()] = e2
                        if len(nxt) > max_envs:
                            raise Stuck('more than %d configurations for one text' % max_envs)
            envs = nxt
            if on_prefix is not None:
                on_prefix(len(envs) and list(envs.values()) or [])
        return list(envs.values())

    def representatives(self):
        """One byte per equivalence class of the atomic conditions on the current character found in the interpreted code
        (comparisons of c with constants, pure predicates of c, switch labels on c): bytes of one class take the same branches."""
        if getattr(self, '_reps', None) is not None:
            return self._reps
        atoms = []
        fns = [self.f] + [g for n in self.d.get('inline', ()) for g in self.prog.functions if g.get('n') == n and g.get('body')]
        cid = self.cvar['id']

        def is_c(e):
            return e.get('k') == 'var' and e.get('id') == cid
        labels = set()
        for g in fns:
            for s_ in ir.walk_stmts(g['body']):
                if s_.get('k') == 'switch' and any(is_c(w) for w in walk_expr(s_['c'])):
                    for x in ir.walk_stmts(s_['body']):
                        if x.get('k') == 'case' and x.get('v') is not None:
                            labels.add(x['v'])
            for e in ir.fn_exprs(g):
                if e.get('k') == 'bin' and e.get('op') in ('==', '!=', '<', '>', '<=', '>=') and (any(is_c(w) for w in walk_expr(e['x'])) or any(is_c(w) for w in walk_expr(e['y']))):
                    atoms.append(e)
                elif e.get('k') == 'call' and (e.get('pq') or e.get('fn') or '').split('::')[-1] in self.d.get('pure', ()) and any(is_c(w) for a in e.get('a', []) for w in walk_expr(a)):
                    atoms.append(e)
        sig = {}
        for b in range(1, 256):
            c = b - 256 if b > 127 else b
            vals = []
            for a in atoms:
                try:
                    vals.append(bytesets._Bound(self.prog, self.f, is_c, c).ev(a))
                except bytesets.Undecidable:
                    vals.append(None)
            vals.append(c if c in labels else None)
            sig.setdefault(tuple(vals), []).append(b)
        self._reps = sorted(v[0] for v in sig.values())
        self.byte_classes = len(sig)
        return self._reps

    def witness(self, key):
        """an input (one representative byte per step) that drives the machine from its initial configuration to `key`"""
        out = []
        guard = 0
        while key in self.parent and guard < 10000:
            key, b = self.parent[key]
            out.append(b)
            guard += 1
        return bytes(reversed(out))

    def describe(self, env):
        return ', '.join('%s=%s' % kv for kv in sorted(env.vars.items())) + ' | ' + ' '.join('%s=[%s]' % (n, ' '.join(str(x) for x in st)) for n, st in sorted(env.stacks.items()))
