#!/usr/bin/env python3
"""Runs each seeded change in /verif/seeded against the check of its own property (scratch worktree, bin/try_patch.sh)
and records which rules report it: updates meta.json ("caught_by") and writes seeded/MATRIX.md."""
import json, os, subprocess, sys, re
V = os.path.dirname(os.path.dirname(os.path.abspath(__file__)))
rows = []
for d in sorted(os.listdir(os.path.join(V, 'seeded'))):
    sd = os.path.join(V, 'seeded', d)
    if not os.path.isdir(sd) or not os.path.exists(os.path.join(sd, 'patch.diff')):
        continue
    prop = d.split('-')[0]
    meta = json.load(open(os.path.join(sd, 'meta.json')))
    props = [prop] + meta.get('also_check', [])
    r = subprocess.run([os.path.join(V, 'bin', 'try_patch.sh'), os.path.join(sd, 'patch.diff')] + props, stdout=subprocess.PIPE, stderr=subprocess.STDOUT, universal_newlines=True)
    out = r.stdout
    if 'PATCH DOES NOT APPLY' in out or 'patch does not apply' in out:
        verdict, rules = 'patch no longer applies to HEAD (superseded by a later fix)', []
    else:
        rules = sorted(set(re.findall(r'^  rule      (\S+)', out, re.M)))
        verdict = 'caught (exit 1)' if r.returncode == 1 and rules else ('analysis-broken (exit 2)' if r.returncode == 2 else 'MISSED')
    meta['caught_by'] = {'checks_run': props, 'verdict': verdict, 'rules': rules}
    json.dump(meta, open(os.path.join(sd, 'meta.json'), 'w'), indent=1)
    rows.append((d, meta.get('summary', '')[:110].replace('|', '/').replace('\n', ' '), ('first run: ' + ('reported' if meta.get('reported_when_first_run') else 'missed') + '; now: ') + verdict, ', '.join(rules)))
    print(d, verdict, rules)
with open(os.path.join(V, 'seeded', 'MATRIX.md'), 'w') as f:
    f.write('# Seeded changes vs. checks\n\nEach row: a change to aslze/asl produced by an independent sub-agent (given only the property text), confirmed by\n`bin/confirm_seed.sh` (builds, 28/28 tests pass, demo fails with / passes without), then run with `bin/try_patch.sh`.\n\n| seed | change | verdict | reporting rules |\n|---|---|---|---|\n')
    for r_ in rows:
        f.write('| %s | %s | %s | %s |\n' % r_)
