#!/usr/bin/env python3
"""Runs each seeded change in /verif/seeded against the check of its own property (scratch worktree, bin/try_patch.sh), in
parallel, and records which rules report it: updates meta.json ("caught_by") and writes seeded/MATRIX.md.
  seed_matrix.py [prefix ...]     only the seeds whose directory name starts with one of the prefixes (MATRIX.md is then not rewritten)"""
import json, os, subprocess, sys, re
from concurrent.futures import ThreadPoolExecutor
V = os.path.dirname(os.path.dirname(os.path.abspath(__file__)))
only = [a for a in sys.argv[1:] if not a.startswith('--')]


def run_one(d):
    sd = os.path.join(V, 'seeded', d)
    prop = d.split('-')[0]
    meta = json.load(open(os.path.join(sd, 'meta.json')))
    props = [prop] + meta.get('also_check', [])
    r = subprocess.run([os.path.join(V, 'bin', 'try_patch.sh'), os.path.join(sd, 'patch.diff')] + props, stdout=subprocess.PIPE, stderr=subprocess.STDOUT, universal_newlines=True)
    return d, r.returncode, r.stdout, props


dirs = []
for d in sorted(os.listdir(os.path.join(V, 'seeded'))):
    sd = os.path.join(V, 'seeded', d)
    if not os.path.isdir(sd) or not os.path.exists(os.path.join(sd, 'patch.diff')):
        continue
    if only and not any(d.startswith(o) for o in only):
        continue
    dirs.append(d)
rows = []
with ThreadPoolExecutor(max_workers=10) as ex:
    for d, rc, out, props in ex.map(run_one, dirs):
        sd = os.path.join(V, 'seeded', d)
        meta = json.load(open(os.path.join(sd, 'meta.json')))
        if meta.get('superseded_by'):
            verdict, rules = 'no longer a defect on HEAD: superseded by ' + meta['superseded_by'].split(':')[0], []
        elif 'PATCH DOES NOT APPLY' in out or 'patch does not apply' in out:
            verdict, rules = 'patch no longer applies to HEAD (superseded by a later fix)', []
        else:
            rules = sorted(set(re.findall(r'^  rule      (\S+)', out, re.M)))
            verdict = 'caught (exit 1)' if rc == 1 and rules else ('analysis-broken (exit 2)' if rc == 2 else 'MISSED')
        meta['caught_by'] = {'checks_run': props, 'verdict': verdict, 'rules': rules}
        json.dump(meta, open(os.path.join(sd, 'meta.json'), 'w'), indent=1)
        first = meta.get('reported_when_first_run')
        rows.append((d, str(meta.get('summary', ''))[:110].replace('|', '/').replace('\n', ' '), ('first run: ' + ('reported' if first else 'missed' if first is not None else 'n/a') + '; now: ') + verdict, ', '.join(rules)))
        print(d, verdict, rules)
if not only:
    with open(os.path.join(V, 'seeded', 'MATRIX.md'), 'w') as f:
        f.write('# Seeded changes vs. checks\n\nEach row: a change to aslze/asl produced by an independent sub-agent (given only the property text), confirmed by\n`bin/confirm_seed.sh` (builds, 28/28 tests pass, demo fails with / passes without), then run with `bin/try_patch.sh`.\n\n| seed | change | verdict | reporting rules |\n|---|---|---|---|\n')
        for r_ in rows:
            f.write('| %s | %s | %s | %s |\n' % r_)
