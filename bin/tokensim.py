"""Token-level interpretation of the mutating members of asl::Array (C01.lifetime, sequence semantics).

The element storage is a buffer of *slots*; a slot is raw (None) or refers to a token = one constructed element object with a
value.  `memmove` / `memcpy` copy slot contents bitwise (two slots may then refer to the same object, as in the real
relocation idiom), `asl_construct*` create a token in a slot, `asl_destroy` ends one - destroying a raw slot or an object
that was already destroyed is reported at once - and `a[i] = v` assigns to the constructed object in the slot.  The header
record {n, s, rc} behind `d()` is a record of the interpreter, `reserve(m)` is summarised by its contract (capacity >= m
afterwards, elements relocated bitwise).  The members themselves (`remove`, `removeIf`, `resize`, `insert`, ...) and the
members they call are interpreted from their bodies by scansim.  After the call the array is audited: the first n slots
refer to n distinct live objects whose values are the reference sequence, and every other object ever constructed has been
destroyed exactly once.  Each member is interpreted on every array of 0..4 elements and every argument combination in range
(all predicate outcomes for removeIf, aliasing and non-aliasing arguments for insert)."""
import itertools
import scansim
from scansim import Unsupported, OOB
from ir import strip, strip_lv, T, pe


class Broken(Exception):
    pass


class Tok(object):
    _next = [0]

    def __init__(self, val):
        Tok._next[0] += 1
        self.id = Tok._next[0]
        self.val = val
        self.live = True

    def _v(self, o):
        return o.val if isinstance(o, Tok) else o

    def __eq__(self, o):
        return self.val == self._v(o)

    def __ne__(self, o):
        return self.val != self._v(o)

    def __lt__(self, o):
        return self.val < self._v(o)

    def __le__(self, o):
        return self.val <= self._v(o)

    def __gt__(self, o):
        return self.val > self._v(o)

    def __ge__(self, o):
        return self.val >= self._v(o)

    __hash__ = None

    def __repr__(self):
        return 'obj#%d(%s%s)' % (self.id, self.val, '' if self.live else ', destroyed')


def value_of(v):
    return v.val if isinstance(v, Tok) else v


class ArrayRun(scansim.Run):
    """scansim.Run over one Array object: buffer 'A' holds slots, record 'hdr' the header"""

    def __init__(self, prog, f, world, **kw):
        scansim.Run.__init__(self, prog, f, world.bufs, **kw)
        self.world = world
        self.recs = world.recs
        self.elem_size = world.elem_size
        self.mems = world.mems
        self.functors = world.functors

    # ---- element access
    def load(self, p, line):
        v = scansim.Run.load(self, p, line)
        if isinstance(p, tuple) and p[1] == 'A':
            if v is None:
                raise Broken('reads element %d, which holds no constructed object (line %s)' % (p[2], line))
            if not v.live:
                raise Broken('reads element %d, whose object was destroyed (line %s)' % (p[2], line))
        return v

    def store(self, p, v, line):
        if isinstance(p, tuple) and p[0] == 'P' and p[1] == 'A':
            buf = self.bufs['A']
            if not 0 <= p[2] < len(buf):
                raise OOB('A', p[2], len(buf), line)
            cur = buf[p[2]]
            if cur is None or not cur.live:
                raise Broken('assigns to element %d, which holds no constructed object (line %s)' % (p[2], line))
            cur.val = value_of(v)
            return
        scansim.Run.store(self, p, value_of(v) if isinstance(v, Tok) else v, line)

    def call(self, e):
        fn = e.get('fn') or ''
        pq = e.get('pq') or fn
        w = self.world
        if fn in ('memcpy', 'memmove') and not e.get('clsp'):
            dst, src, n_ = self.val(e['a'][0]), self.val(e['a'][1]), self.val(e['a'][2])
            if isinstance(dst, tuple) and dst[0] == 'P' and dst[1] == 'A' and isinstance(src, tuple) and src[1] == 'A' and isinstance(n_, int):
                es = self.elem_size['A']
                if n_ % es:
                    raise Unsupported('`%s`: %d bytes of %d-byte elements' % (pe(e), n_, es))
                k = n_ // es
                buf = self.bufs['A']
                if k < 0 or (k > 0 and not (0 <= src[2] and src[2] + k <= len(buf))):
                    raise OOB('A', src[2] + max(k, 0), len(buf), e.get('l'))
                if k > 0 and not (0 <= dst[2] and dst[2] + k <= len(buf)):
                    raise OOB('A', dst[2] + k, len(buf), e.get('l'))
                if k > 0:
                    buf[dst[2]:dst[2] + k] = list(buf[src[2]:src[2] + k])
                return dst
        if pq in ('asl::asl_destroy', 'asl::asl_construct', 'asl::asl_construct_copy') and not e.get('clsp'):
            args = [self.val(a) for a in e.get('a', [])]
            p = args[0]
            if not (isinstance(p, tuple) and p[0] == 'P' and p[1] == 'A'):
                raise Unsupported('`%s` outside the element storage' % pe(e))
            if pq == 'asl::asl_construct_copy' and len(e.get('a', [])) > 1:
                # the source of the copy must be a constructed object other than the one being constructed
                try:
                    sl = self.lv(e['a'][1])
                except Unsupported:
                    sl = None
                if sl is not None and sl[0] == 'buf' and sl[1][1] == 'A' and sl[1][2] == p[2]:
                    raise Broken('copy-constructs element %d from itself (its own raw storage) (line %s)' % (p[2], e.get('l')))
            buf = self.bufs['A']
            cnt = 1
            if pq != 'asl::asl_construct_copy' and len(args) > 1:
                cnt = args[1]
                if not isinstance(cnt, int):
                    raise Unsupported('`%s`' % pe(e))
            for j in range(p[2], p[2] + max(cnt, 0)):
                if not 0 <= j < len(buf):
                    raise OOB('A', j, len(buf), e.get('l'))
                cur = buf[j]
                if pq == 'asl::asl_destroy':
                    if cur is None:
                        raise Broken('destroys element %d, which holds no constructed object (line %s)' % (j, e.get('l')))
                    if not cur.live:
                        raise Broken('destroys element %d a second time: %r was already destroyed (line %s)' % (j, cur, e.get('l')))
                    cur.live = False
                else:
                    if cur is not None and cur.live and sum(1 for x in buf if x is cur) == 1:
                        raise Broken('constructs over element %d, which still holds the live %r (line %s)' % (j, cur, e.get('l')))
                    t = Tok(value_of(args[1]) if pq == 'asl::asl_construct_copy' else 0)
                    w.created.append(t)
                    buf[j] = t
            return None
        if e.get('obj') is not None and strip_lv(e['obj']).get('k') == 'var' and strip_lv(e['obj']).get('id') in self.functors:
            return self.functors[strip_lv(e['obj'])['id']](*[self.val(a) for a in e.get('a', [])])
        if e.get('clsp') == 'asl::Array' and (e.get('obj') is None or strip_lv(e['obj']).get('k') == 'this'):
            name = pq.split('::')[-1]
            if name == 'd':
                return ('R', 'hdr')
            if name == 'reserve':
                m = self.val(e['a'][0])
                h = w.recs['hdr']
                if not isinstance(m, int):
                    raise Unsupported('reserve of an abstract amount')
                if m > h['s']:
                    s1 = max(2 * h['s'], m)
                    self.bufs['A'].extend([None] * (s1 - len(self.bufs['A'])))
                    h['s'] = s1
                return ('THIS',)
            if name in ('alloc', 'free'):
                raise Unsupported('member %s (raw storage management)' % name)
            cands = [g for g in self.prog.fn(e.get('fn'), e.get('sig')) if g.get('body')]
            if not cands:
                raise Unsupported('member %s has no body' % fn)
            g = cands[0]
            HELPERS_RUN.add((g.get('file'), g.get('line')))
            sub = ArrayRun(self.prog, g, w, depth=self.depth + 1, budget=self.budget)
            for p_, a in zip(g['params'], e.get('a', [])):
                pt = T(g, p_['t'])
                if pt.get('ref'):
                    # reference parameter: bound to the argument's storage when it is an element of the array
                    try:
                        l = self.lv(a)
                    except Unsupported:
                        l = None
                    if l is not None and l[0] == 'buf' and l[1][1] == 'A':
                        sub.boxed[p_['id']] = ('A', l[1][2])
                        continue
                sub.vars[p_['id']] = scansim.wrap(self.val(a), pt)
            if len(g['params']) > len(e.get('a', [])):
                raise Unsupported('default argument of %s' % fn)
            r = sub.run()
            return r
        return scansim.Run.call(self, e)


HELPERS_RUN = set()      # (file, line) of the members of Array interpreted as callees of the member being decided


class World(object):
    def __init__(self, vals, cap, elem_size):
        self.toks = [Tok(v) for v in vals]
        self.created = list(self.toks)
        self.bufs = {'A': list(self.toks) + [None] * (cap - len(vals))}
        self.recs = {'hdr': {'n': len(vals), 's': cap, 'rc': 1, 'pad': 0}}
        self.elem_size = {'A': elem_size}
        self.mems = {'_a': ('P', 'A', 0)}
        self.functors = {}

    def audit(self, expect, exact_prefix=None):
        """-> None or a description of what is wrong with the final state"""
        h = self.recs['hdr']
        buf = self.bufs['A']
        n = h['n']
        if not isinstance(n, int) or not 0 <= n <= len(buf) or h['s'] != len(buf):
            return 'the header says n = %s, capacity = %s for %d slots' % (n, h['s'], len(buf))
        if n != len(expect):
            return 'the length is %d, the reference sequence has %d element(s)' % (n, len(expect))
        seen = set()
        for i in range(n):
            t = buf[i]
            if t is None:
                return 'element %d of the array holds no constructed object' % i
            if not t.live:
                return 'element %d of the array is the destroyed %r' % (i, t)
            if t.id in seen:
                return 'elements of the array share the object %r (it will be destroyed twice)' % t
            seen.add(t.id)
        got = [buf[i].val for i in range(n)]
        k = len(expect) if exact_prefix is None else exact_prefix
        if got[:k] != list(expect[:k]):
            return 'the array holds %s, the reference sequence is %s' % (got, list(expect))
        for t in self.created:
            if t.live and t.id not in seen:
                return '%r is neither in the array nor destroyed (leaked)' % t
        return None


def boxed_patch():
    """scansim boxes address-taken locals in one-element buffers; a reference parameter bound to an array element is boxed to
    (buffer, index)"""
    R = scansim.Run
    if getattr(R, '_tok_patched', False):
        return
    R._tok_patched = True
    old_val, old_get, old_put, old_lv = R.val, R.get, R.put, R.lv

    def _slot(self, vid):
        b = self.boxed.get(vid)
        return b if isinstance(b, tuple) and len(b) == 2 and b[0] == 'A' else None

    def val(self, e):
        if e is not None and e.get('k') == 'var' and _slot(self, e.get('id')) is not None:
            return self.load(('P',) + _slot(self, e['id']), e.get('l'))
        if e is not None and e.get('k') == 'un' and e.get('op') == '&' and strip_lv(e['e']).get('k') == 'var' and _slot(self, strip_lv(e['e']).get('id')) is not None:
            return ('P',) + _slot(self, strip_lv(e['e'])['id'])
        return old_val(self, e)

    def lv(self, e):
        x = strip_lv(e)
        if x.get('k') == 'var' and _slot(self, x.get('id')) is not None:
            return ('buf', ('P',) + _slot(self, x['id']), T(self.f, x.get('dt') or x.get('t')), x.get('l'))
        return old_lv(self, e)
    R.val, R.lv = val, lv


boxed_patch()


# ---------------------------------------------------------------------------------------------- cases

def _run(prog, f, vals, cap, es, args=None, functor=None, alias=None, objs=None):
    """interpret member f on an array holding vals (capacity cap). args: {param index: value}; functor: {param index:
    callable}; alias: {param index: element index} binds a reference parameter to an element; objs: {param index: list} an
    Array argument.  -> (world, result)"""
    w = World(vals, cap, es)
    r = ArrayRun(prog, f, w, objects=True)
    for k, v in (args or {}).items():
        r.vars[f['params'][k]['id']] = v
    for k, fn in (functor or {}).items():
        w.functors[f['params'][k]['id']] = fn
    for k, j in (alias or {}).items():
        r.boxed[f['params'][k]['id']] = ('A', j)
    for k, lst in (objs or {}).items():
        pid = f['params'][k]['id']
        w.bufs[('O', pid)] = list(lst)
        r.objlen[pid] = len(lst)
    res = r.run()
    return w, res


def cases_for(f):
    """(label, kwargs for _run, expected sequence, exact prefix or None) for every array of 0..4 elements"""
    name, sig = f['n'], f.get('sig') or ''
    np_ = len(f['params'])
    for L in range(0, 5):
        vals = [10 + k for k in range(L)]
        cap = max(L, 3)
        if name == 'remove' and np_ == 2:
            for i in range(0, L + 1):
                for n in range(0, L - i + 2):
                    exp = vals[:i] + vals[i + n:] if i + n <= L else vals
                    yield ('%s.remove(%d, %d)' % (vals, i, n), dict(vals=vals, cap=cap, args={0: i, 1: n}), exp, None)
        elif name == 'removeIf' and np_ == 1:
            for bits in itertools.product((False, True), repeat=L):
                pred = (lambda bits: lambda x: int(bits[value_of(x) - 10]))(bits)
                yield ('%s.removeIf(removing %s)' % (vals, [v for v, b in zip(vals, bits) if b]), dict(vals=vals, cap=cap, functor={0: pred}),
                       [v for v, b in zip(vals, bits) if not b], None)
        elif name == 'removeOne' and np_ == 2:
            for x in vals + [99]:
                for i0 in range(0, L + 1):
                    idx = [k for k in range(i0, L) if vals[k] == x]
                    exp = vals[:idx[0]] + vals[idx[0] + 1:] if idx else vals
                    yield ('%s.removeOne(%d, %d)' % (vals, x, i0), dict(vals=vals, cap=cap, args={0: x, 1: i0}), exp, None)
        elif name == 'removeLast' and np_ == 0:
            yield ('%s.removeLast()' % vals, dict(vals=vals, cap=cap), vals[:-1], None)
        elif name == 'clear' and np_ == 0:
            yield ('%s.clear()' % vals, dict(vals=vals, cap=cap), [], None)
        elif name == 'resize' and np_ == 1:
            for m in range(0, L + 4):
                yield ('%s.resize(%d)' % (vals, m), dict(vals=vals, cap=cap, args={0: m}), vals[:m] + [0] * max(0, m - L), min(L, m))
        elif name == 'insert' and np_ == 2:
            for k in [-1] + list(range(0, L + 1)):
                kk = L if k == -1 else k
                yield ('%s.insert(%d, 99)' % (vals, k), dict(vals=vals, cap=L + 2, args={0: k, 1: 99}), vals[:kk] + [99] + vals[kk:], None)
                for j in range(L):
                    yield ('%s.insert(%d, element %d of the same array)' % (vals, k, j), dict(vals=vals, cap=L + 2, args={0: k}, alias={1: j}), vals[:kk] + [vals[j]] + vals[kk:], None)
        elif name == 'operator<<' and np_ == 1:
            yield ('%s << 99' % vals, dict(vals=vals, cap=L + 2, args={0: 99}), vals + [99], None)
            for j in range(L):
                yield ('%s << element %d of the same array' % (vals, j), dict(vals=vals, cap=L + 2, alias={0: j}), vals + [vals[j]], None)
        elif name == 'append' and np_ == 2:
            for n in range(0, 3):
                yield ('%s.append(p, %d)' % (vals, n), dict(vals=vals, cap=cap, args={0: ('P', 'EXT', 0), 1: n}), vals + [70, 71][:n], None)
        elif name == 'append' and np_ == 1:
            for n in range(0, 3):
                yield ('%s.append(array of %d)' % (vals, n), dict(vals=vals, cap=cap, objs={0: [70, 71][:n]}), vals + [70, 71][:n], None)


MEMBERS = ('remove', 'removeIf', 'removeOne', 'removeLast', 'clear', 'resize', 'insert', 'operator<<', 'append')


def decide(prog, f, elem_size):
    """-> ('ok', cases) | ('bad', label, what) | ('undecided', label, why) | None (no cases for this member)"""
    n = 0
    for label, kw, expect, prefix in cases_for(f):
        n += 1
        try:
            w = World(kw['vals'], kw['cap'], elem_size)
            r = ArrayRun(prog, f, w, objects=True)
            for k, v in (kw.get('args') or {}).items():
                r.vars[f['params'][k]['id']] = v
            for k, fn in (kw.get('functor') or {}).items():
                w.functors[f['params'][k]['id']] = fn
            for k, j in (kw.get('alias') or {}).items():
                r.boxed[f['params'][k]['id']] = ('A', j)
            for k, lst in (kw.get('objs') or {}).items():
                pid = f['params'][k]['id']
                w.bufs[('O', pid)] = list(lst)
                r.objlen[pid] = len(lst)
            w.bufs['EXT'] = [70, 71]
            r.run()
        except Broken as b:
            return 'bad', label, str(b)
        except OOB as o:
            return 'bad', label, 'accesses storage outside the allocated capacity: %s' % o
        except (Unsupported, TypeError, KeyError, IndexError, AttributeError) as u:
            return 'undecided', label, '%s: %s' % (type(u).__name__, u)
        what = w.audit(expect, prefix)
        if what:
            return 'bad', label, what
    if n == 0:
        return None
    return 'ok', n
