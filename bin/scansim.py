"""Exhaustive interpretation of a scanning function over abstract input strings.

A scanner (UTF-8/16/32 converter, code-point counter, enumerator step) is interpreted - not executed - on every string of
byte-class representatives up to a maximal sequence length, followed by the terminator.  The byte classes are computed
from the function itself: two byte values are in one class iff every condition of the function that tests a single
input-derived variable evaluates alike on them, so strings of representatives cover every control path that any string
of that length can take.  Input buffers are bounds-checked at the terminator: a read one past it is the violation
R-SCAN looks for, reported with the abstract string as witness.  The interpreter handles the statement and expression
forms of these functions (integers, pointers into the given buffers and local arrays, loops, switch, calls of small
scalar helpers); anything else raises Unsupported (-> undecided)."""
from ir import strip, strip_lv, const_val, T, pe, walk_expr, walk_stmts, fn_exprs
import bytesets

MAX_STEPS = 20000


class Unsupported(Exception):
    pass


class OOB(Exception):
    def __init__(self, buf, idx, size, line):
        Exception.__init__(self, 'read of element %d of the %d-element input `%s` (line %s)' % (idx, size, buf, line))
        self.buf, self.idx, self.size, self.line = buf, idx, size, line


class _Break(Exception):
    pass


class _Continue(Exception):
    pass


class _Return(Exception):
    def __init__(self, v):
        self.v = v


def wrap(v, t):
    if not isinstance(v, int):
        return v
    if t.get('bool'):
        return int(v != 0)
    b = t.get('bits')
    if not b:
        return v
    v &= (1 << b) - 1
    if t.get('sg', True) and v >= (1 << (b - 1)):
        v -= 1 << b
    return v


def _is_this(o):
    """`this` or `*this` as the object of a call"""
    o = strip_lv(o)
    while o.get('k') in ('paren', 'cast'):
        o = strip_lv(o['e'])
    if o.get('k') == 'un' and o.get('op') == '*':
        o = strip_lv(o['e'])
    return o.get('k') == 'this'


def _on_this(e):
    """member expression on the current object, directly or through anonymous union / struct layers"""
    b = strip_lv(e.get('b') or {'k': 'this'})
    while b.get('k') == 'mem' and not b.get('f'):
        b = strip_lv(b.get('b') or {'k': 'this'})
    return b.get('k') == 'this'


def never_written(prog, qn):
    """a namespace-scope array that no function of the analysed program stores into, takes the address of or passes on: a look-up
    table although it is not declared const (cached per program)"""
    cache = prog.__dict__.setdefault('_never_written', {})
    if qn not in cache:
        ok = True
        for f in prog.functions:
            if not f.get('body'):
                continue
            # addresses of elements that only initialise pointers to const are reads
            harmless = set()
            for s_ in walk_stmts(f['body']):
                if s_.get('k') == 'decl':
                    for v in s_['vars']:
                        tv = T(f, v['t'])
                        if v.get('init') is not None and tv.get('ptr') and T(f, tv.get('to')).get('const'):
                            i_ = strip(v['init'])
                            if i_.get('k') == 'un' and i_.get('op') == '&':
                                harmless.add(id(i_))
            for e in fn_exprs(f):
                if id(e) in harmless:
                    continue
                tgt = None
                if e.get('k') == 'bin' and e.get('op', '').endswith('=') and e['op'] not in ('==', '!=', '<=', '>='):
                    tgt = e['x']
                elif e.get('k') == 'un' and e.get('op') in ('post++', 'post--', 'pre++', 'pre--', '&'):
                    tgt = e['e']
                elif e.get('k') == 'call':
                    import q as _q
                    ptypes = _q._sig_params(e.get('sig') or '')
                    for ai, a in enumerate(e.get('a', []) or []):
                        a_ = strip(a)
                        if a_.get('k') == 'var' and a_.get('q') == qn:
                            pt = ptypes[ai] if ai < len(ptypes) else ''
                            if not pt.startswith('const '):
                                ok = False          # handed to a callee that may write through the pointer
                if tgt is not None and any(w.get('k') == 'var' and w.get('q') == qn for w in walk_expr(tgt)):
                    ok = False
            if not ok:
                break
        cache[qn] = ok
    return cache[qn]


import itertools as _it
class FieldCell(list):
    """a one-element view of a record field, so that a reference bound to `p->next` can be handled like a boxed variable"""

    def __init__(self, recs, rec, field):
        list.__init__(self, [None])
        self._recs, self._rec, self._field = recs, rec, field

    def __len__(self):
        return 1

    def __getitem__(self, i):
        if i != 0:
            raise IndexError(i)
        r = self._recs[self._rec]
        if r.get('__freed'):
            raise OOB(('R', self._rec), 0, 0, None)
        return r[self._field]

    def __setitem__(self, i, v):
        if i != 0:
            raise IndexError(i)
        r = self._recs[self._rec]
        if r.get('__freed'):
            raise OOB(('R', self._rec), 0, 0, None)
        r[self._field] = v


class PodRecord(dict):
    """fields of a plain C structure: a field never stored to reads as indeterminate"""
    def __missing__(self, k):
        return UNINIT


_UNIQ = _it.count(1)       # names of interpreter-made objects are unique for the life of the process (never derived from addresses)


UNINIT = ('U',)          # a byte of freshly allocated storage nobody has written


class Run:
    def __init__(self, prog, f, bufs, ptr_params=None, int_params=None, mem_ptrs=None, call_ptrs=None, growable=(), mems=None, depth=0, budget=None, methods=None, ignore=None, objects=False, externs=None):
        self.prog, self.f = prog, f
        self.bufs = bufs                        # name -> list of ints (shared with sub-runs)
        self.vars = {}                          # var id -> int | ('P', buf, idx)
        self.mems = mems if mems is not None else {}   # member name -> value (shared with sub-runs of the same object)
        self.methods = methods or {}            # method name -> 'interp' | callable(run, call expr, arg values)
        self.ignore = ignore                    # callable(stmt) -> True: statement irrelevant to the tracked state, skipped
        self.externs = externs or {}            # name of an external (system) function -> callable(run, call expr, arg values)
        self.recs = {}                          # name -> {field: value}: records reached through ('R', name) references
        self.transparent = ()                   # record templates whose objects stand for the single value they are built from
        self.transparent_vars = set()
        self.sinks = {}                         # member name -> buffer name: String members that only receive appended text
        self.listsinks = {}                     # var id -> list of strings: a modelled Array<String> (shared with sub-runs)
        self.dicts = {}                         # var id -> {key chars: value chars}: a modelled Dic<String> (shared with sub-runs)
        self.ignore_string_members = False      # True: assignments / appends to String members of the current object are not tracked
        self.strmem_vals = {}                   # member name -> chars: last value assigned to an (otherwise ignored) String member
        self.elem_size = {}                     # buffer name -> size in bytes of one element (byte-based sizes / offsets are scaled)
        self.objects = objects                  # True: local asl::String / asl::Array objects are modelled as bounds-checked buffers
        self.objlen = {}                        # var id -> element count of a modelled object (locals and registered parameters)
        self.strobjs = set()                    # ids of modelled objects that are Strings (length = characters before the NUL)
        self.strcap = {}                        # id of a modelled String -> bytes it was constructed with room for (String(cap, n))
        self.boxed = {}                         # var id -> buffer name (locals whose address was taken)
        self.call_ptrs = call_ptrs or {}        # method name -> pointer value
        self.growable = set(growable)
        self.depth = depth
        self.budget = budget if budget is not None else [MAX_STEPS]
        for pid, pv in (ptr_params or {}).items():
            self.vars[pid] = pv
        for pid, v in (int_params or {}).items():
            self.vars[pid] = v
        for name, pv in (mem_ptrs or {}).items():
            self.mems[name] = pv
        self.local_n = 0

    def boxslot(self, vid):
        """(buffer name, index) of a variable that lives in a buffer (address taken, or a reference bound to an element)"""
        b = self.boxed[vid]
        if isinstance(b, tuple) and len(b) == 2 and isinstance(b[1], int) and (b[0] in self.bufs):
            return b
        return (b, 0)

    def pass_arg(self, v):
        """an argument value as the callee sees it: the caller's own object becomes a reference to this run's object"""
        return ('THISOF', self) if isinstance(v, tuple) and v == ('THIS',) else v

    def record_class_has_bodies(self, rec):
        return any(g.get('body') for g in self.prog.functions if g.get('cls') == rec)

    def call_member(self, e, fn, name, args):
        """member `fn` of this run's object called with evaluated arguments (from this run or from a callee that was handed
        the object): a pointer accessor, a stub, or the member's body interpreted on the same members"""
        if name in self.call_ptrs and not args:
            return self.call_ptrs[name]
        m = self.methods.get(name)
        if m is None and self.methods.get('*') == 'interp':
            m = 'interp'            # every member of the current object is interpreted from its body
        if m is None:
            raise Unsupported('member call `%s`' % pe(e))
        if callable(m):
            return m(self, e, args)
        cands = [g for g in self.prog.fn(fn, e.get('sig')) if g.get('body')]
        if not cands:
            raise Unsupported('method %s has no body' % fn)
        g = cands[0]
        sub = Run(self.prog, g, self.bufs, depth=self.depth + 1, budget=self.budget, growable=self.growable, mems=self.mems, methods=self.methods, ignore=self.ignore, call_ptrs=self.call_ptrs, externs=self.externs)
        sub.transparent = self.transparent
        sub.objects = self.objects
        sub.ignore_string_members = self.ignore_string_members
        sub.recs = self.recs
        sub.listsinks, sub.dicts = self.listsinks, self.dicts
        sub.objlen, sub.strobjs, sub.strcap = self.objlen, self.strobjs, self.strcap       # same object: same modelled members
        pend = getattr(self, '_pending_refs', None)
        if pend:
            sub.boxed.update(pend)
            self._pending_refs = None
        self.bind_args(sub, g, fn, args)
        return sub.run()

    def ref_bindings(self, e, fn):
        """boxes for the non-const scalar / pointer reference parameters of the member a call names, taken from the argument
        expressions in this run (the member itself may run on another run's object)"""
        cands = [g for g in self.prog.fn(fn, e.get('sig')) if g.get('body')]
        if not cands:
            return None
        g = cands[0]
        probe = Run(self.prog, g, self.bufs)
        for p_, a in zip(g['params'], e.get('a', [])):
            pt = T(g, p_['t'])
            to_ = T(g, pt.get('to')) if pt.get('ref') else {}
            if pt.get('ref') and not to_.get('const') and (to_.get('ptr') or to_.get('int')):
                self.bind_ref(probe, g, p_, a)
        return dict(probe.boxed) or None

    def bind_args(self, sub, g, fn, args):
        for p_, a in zip(g['params'], args):
            if p_['id'] in sub.boxed:
                continue
            if self.objects and isinstance(a, tuple) and a[0] == 'P' and isinstance(a[1], tuple) and a[1][0] == 'O' and a[2] == 0 and \
                    (T(g, p_['t']).get('ref') or T(g, p_['t']).get('rec')):
                # a modelled object handed to a member by reference: the parameter names the same object
                self.bufs[('O', p_['id'])] = self.bufs[a[1]]
                sub.objlen[p_['id']] = self.objlen.get(a[1][1], 0)
                if a[1][1] in self.strobjs:
                    sub.strobjs.add(p_['id'])
                continue
            if isinstance(a, tuple) and a[0] == 'SLIST' and a[1] in self.listsinks:
                self.listsinks[p_['id']] = self.listsinks[a[1]]
                continue
            if isinstance(a, tuple) and a[0] == 'DICT' and a[1] in self.dicts:
                self.dicts[p_['id']] = self.dicts[a[1]]
                continue
            sub.vars[p_['id']] = wrap(a, T(g, p_['t']))
        if len(g['params']) > len(args):
            # default arguments (the IR carries them on the parameter when they are constants)
            for p_ in g['params'][len(args):]:
                if 'def' in p_ and isinstance(p_['def'], dict):
                    sub.vars[p_['id']] = wrap(sub.val(p_['def']), T(g, p_['t']))
                else:
                    raise Unsupported('default argument of %s' % fn)

    def call_record_member(self, recname, e, fn, args, ctor=None):
        """a member (or constructor) of a small record class run on a modelled record: its fields are the run's members"""
        cands = [g for g in self.prog.fn(fn, e.get('sig')) if g.get('body')] if ctor is None else [ctor]
        if not cands:
            raise Unsupported('member %s of a modelled record has no body' % fn)
        g = cands[0]
        if self.depth > 6:
            raise Unsupported('call depth')
        sub = Run(self.prog, g, self.bufs, depth=self.depth + 1, budget=self.budget, growable=self.growable, mems=self.recs[recname], methods={'*': 'interp'}, externs=self.externs, objects=True)
        sub.transparent = self.transparent
        sub.recs = self.recs
        sub.self_rec = recname
        sub.listsinks, sub.dicts = self.listsinks, self.dicts
        self.bind_args(sub, g, fn, args)
        r = sub.run()
        return ('R', recname) if isinstance(r, tuple) and r == ('THIS',) else r

    def new_record(self, cls, ctor_expr=None, copy_of=None):
        """a fresh modelled record of class cls: constructed by ctor_expr (a 'construct' expression whose constructor has a body),
        or a field-wise copy of another record"""
        self._anon = getattr(self, '_anon', 0) + 1
        name = 'rec%d' % next(_UNIQ)
        if copy_of is not None:
            self.recs[name] = dict(self.recs[copy_of])
            return name
        self.recs[name] = {}
        # members that are asl arrays start as empty modelled arrays (their own default construction)
        rdef = self.prog.records.get(cls) or {}
        for fl in rdef.get('fields', []):
            ft = T(rdef, fl['t'])
            if ft.get('recp') == 'asl::Array' and not ft.get('ref') and not ft.get('ptr'):
                aid = 'marr%d' % next(_UNIQ)
                self.bufs[('O', aid)] = []
                self.objlen[aid] = 0
                self.recs[name][fl['n']] = ('P', ('O', aid), 0)
        if ctor_expr is not None:
            ctors = [g for g in self.prog.fn(ctor_expr.get('fn'), ctor_expr.get('sig')) if g.get('body')]
            if not ctors:
                raise Unsupported('constructor %s has no body' % ctor_expr.get('fn'))
            args = [self.pass_arg(self.val(a)) for a in ctor_expr.get('a', [])]
            self.call_record_member(name, ctor_expr, ctor_expr.get('fn'), args, ctor=ctors[0])
        return name

    def text_of(self, v, line):
        """the characters of a string value: a C string, a substring value or a modelled String object"""
        if isinstance(v, tuple) and v[0] == 'P' and isinstance(v[1], tuple) and v[1][0] == 'O' and v[1][1] in self.strobjs and v[2] == 0:
            return list(self.bufs[v[1]][:-1])
        if isinstance(v, tuple) and v[0] == 'P':
            return self.cstring(v, line)
        if isinstance(v, tuple) and v[0] == 'STRV':
            return list(v[1])
        if isinstance(v, tuple) and v[0] == 'OBJ' and v[1] in self.strobjs:
            return list(self.bufs[('O', v[1])][:-1])
        raise Unsupported('a value that is not a text')

    def temp_string(self, chars):
        self._anon = getattr(self, '_anon', 0) + 1
        tid = 'str%d' % next(_UNIQ)
        self.bufs[('O', tid)] = list(chars) + [0]
        self.objlen[tid] = len(chars)
        self.strobjs.add(tid)
        return tid

    def recv_is_this(self, o):
        """the receiver of a call is the current object: this / *this, or a reference parameter bound to it"""
        if _is_this(o):
            return True
        o = strip_lv(o)
        while o.get('k') in ('paren', 'cast'):
            o = strip_lv(o['e'])
        rv_ = self.vars.get(o.get('id')) if o.get('k') == 'var' else None
        return isinstance(rv_, tuple) and (rv_ == ('THIS',) or (rv_[0] == 'THISOF' and rv_[1] is self))

    def bind_ref(self, sub, g, p_, a):
        """reference parameter p_ of callee g bound to argument expression a: when a designates an element of a buffer (or a
        boxed variable) the parameter names that storage; -> True if bound"""
        pt = T(g, p_['t'])
        if not pt.get('ref') or pt.get('rec'):
            return False
        try:
            l = self.lv(a)
        except (Unsupported, OOB):
            return False
        if l[0] == 'buf' and isinstance(l[1], tuple) and l[1][0] == 'P':
            sub.boxed[p_['id']] = (l[1][1], l[1][2])
            return True
        if l[0] == 'var' and l[1] in self.boxed:
            sub.boxed[p_['id']] = self.boxslot(l[1])
            return True
        if l[0] == 'rec' and not T(g, pt.get('to')).get('const'):
            name = ('F', l[1], l[2])
            if name not in self.bufs:
                self.bufs[name] = FieldCell(self.recs, l[1], l[2])
            sub.boxed[p_['id']] = (name, 0)
            return True
        cur_ = self.vars.get(l[1]) if l[0] == 'var' else None
        if l[0] == 'var' and not T(g, pt.get('to')).get('const') and not (isinstance(cur_, tuple) and cur_[0] in ('R', 'THIS', 'THISOF', 'SLIST', 'DICT', 'OBJ')):
            # a local scalar handed to a non-const reference parameter (an out-parameter): the variable moves into a cell both
            # functions see; it may still be unset
            name = ('V', l[1], next(_UNIQ))
            self.bufs[name] = [self.vars.get(l[1], UNINIT)]
            self.boxed[l[1]] = name
            sub.boxed[p_['id']] = self.boxslot(l[1])
            return True
        return False

    def tick(self):
        self.budget[0] -= 1
        if self.budget[0] < 0:
            raise Unsupported('step limit (no termination within %d steps)' % MAX_STEPS)

    def const_table(self, e):
        """buffer name of a const-qualified namespace-scope / static array with a constant initialiser (look-up table)"""
        qn = e.get('q')
        g = self.prog.globals.get(qn) if qn else None
        if g is None:
            return None
        if not g.get('const') and not never_written(self.prog, qn):
            return None
        name = ('G', qn)
        if name not in self.bufs:
            if 'vals' in g:
                vals = list(g['vals'])
            elif (g.get('init') or {}).get('k') == 'str':
                vals = list(g['init']['b']) + [0]
            elif (g.get('init') or {}).get('k') == 'initlist' and g['init'].get('items') and all(isinstance(it, dict) and it.get('k') == 'initlist' for it in g['init']['items']) and g.get('_types') is not None:
                # a constant table of plain structures ({ "amp", '&' }, ...): one record per row, fields in declaration order;
                # string literals become constant C strings
                at = T(g, g.get('t'))
                et = T(g, at.get('el') or at.get('to')) if (at.get('el') or at.get('to')) else {}
                rdef = self.prog.records.get(et.get('rec') or '')
                if not rdef or not rdef.get('fields'):
                    return None
                vals = []
                for i_, row in enumerate(g['init']['items']):
                    rec = {}
                    for fl, it in zip(rdef['fields'], row.get('items', [])):
                        it_ = strip(it)
                        while it_.get('k') in ('cast', 'paren'):
                            it_ = strip(it_['e'])
                        if it_.get('k') == 'str':
                            sn = ('GS', qn, i_, fl['n'])
                            self.bufs[sn] = list(it_['b']) + [0]
                            rec[fl['n']] = ('P', sn, 0)
                        elif const_val(it_) is not None:
                            rec[fl['n']] = const_val(it_)
                        else:
                            return None
                    if len(rec) != len(rdef['fields']):
                        return None
                    rn = 'grow:%s:%d' % (qn, i_)
                    self.recs[rn] = rec
                    vals.append(('R', rn))
            else:
                return None
            n_ = T(g, g.get('t')).get('n') if g.get('_types') is not None else None
            if n_ and n_ > len(vals):
                vals += [0] * (n_ - len(vals))
            self.bufs[name] = vals
        return name

    # ------------------------------------------------------------ memory
    def load(self, p, line):
        if isinstance(p, tuple) and p[0] == 'PF':
            rec = self.recs[p[1]]
            if rec.get('__freed'):
                raise OOB(('R', p[1]), 0, 0, line)
            return rec[p[2]]
        if not (isinstance(p, tuple) and p[0] == 'P'):
            raise Unsupported('dereference of a non-pointer')
        _, b, i = p
        buf = self.bufs[b]
        if b in self.growable:
            return buf[i] if 0 <= i < len(buf) else 0
        if not 0 <= i < len(buf):
            raise OOB(b, i, len(buf), line)
        return buf[i]

    def store(self, p, v, line):
        if isinstance(p, tuple) and p[0] == 'PF':
            rec = self.recs[p[1]]
            if rec.get('__freed'):
                raise OOB(('R', p[1]), 0, 0, line)
            rec[p[2]] = v
            return
        if not (isinstance(p, tuple) and p[0] == 'P'):
            raise Unsupported('store through a non-pointer')
        _, b, i = p
        buf = self.bufs[b]
        if b in self.growable:
            if i < 0:
                raise OOB(b, i, len(buf), line)
            while len(buf) <= i:
                buf.append(0)
            buf[i] = v
            return
        if isinstance(b, tuple) and b[0] == 'O' and b[1] in self.strcap and len(buf) <= i < self.strcap[b[1]]:
            # a String constructed with spare capacity (String(cap, n)): text written through data() may use it
            while len(buf) <= i:
                buf.append(0)
            buf[i] = v
            self.objlen[b[1]] = len(buf) - 1
            return
        if not 0 <= i < len(buf):
            raise OOB(b, i, len(buf), line)
        buf[i] = v

    # ------------------------------------------------------------ lvalues
    def lv(self, e):
        e = strip_lv(e)
        k = e.get('k')
        if k == 'var':
            return ('var', e['id'], T(self.f, e.get('dt') or e.get('t')))
        if k == 'mem' and _on_this(e):
            return ('mem', e['f'], T(self.f, e.get('t')))
        if k == 'mem':
            base = self.val(e['b'])
            if isinstance(base, tuple) and base[0] == 'R' and not e.get('f'):
                return ('recobj', base[1])
            if isinstance(base, tuple) and base[0] == 'R':
                if self.recs.get(base[1], {}).get('__freed'):
                    raise OOB(('R', base[1]), 0, 0, e.get('l'))          # store into a deleted node
                return ('rec', base[1], e['f'], T(self.f, e.get('t')))
            raise Unsupported('lvalue `%s`' % pe(e))
        if k == 'call' and not (e.get('op') == '[]' and self.obj_of(e) is not None):
            v = self.val(e)
            if isinstance(v, tuple) and v[0] == 'R':
                return ('recobj', v[1])
        if k == 'un' and e.get('op') == '*':
            return ('buf', self.val(e['e']), T(self.f, e.get('t')), e.get('l'))
        if k == 'idx':
            p = self.val(e['b'])
            i = self.val(e['i'])
            if isinstance(p, tuple) and hasattr(i, 'candidates'):
                # abstract index: the element is the join of the elements at every index the abstract value admits
                return ('bufs', [('P', p[1], p[2] + k_) for k_ in i.candidates()], T(self.f, e.get('t')), e.get('l'), (p, i))
            if not (isinstance(p, tuple) and isinstance(i, int)):
                raise Unsupported('index expression `%s`' % pe(e))
            return ('buf', ('P', p[1], p[2] + i), T(self.f, e.get('t')), e.get('l'))
        if k == 'cast':
            return self.lv(e['e'])
        if k in ('temp', 'paren'):
            return self.lv(e['e'])
        if k == 'call' and e.get('op') == '[]' and self.obj_of(e) is not None and len(e.get('a', [])) == 1:
            i = self.val(e['a'][0])
            if not isinstance(i, int):
                raise Unsupported('index expression `%s`' % pe(e))
            return ('buf', ('P', ('O', self.obj_of(e)), i), T(self.f, e.get('t')), e.get('l'))
        raise Unsupported('lvalue `%s`' % pe(e))

    HEXL, HEXU = [ord(c) for c in '0123456789abcdef'] + [0], [ord(c) for c in '0123456789ABCDEF'] + [0]

    def libc_printf(self, e, fn):
        """snprintf(dst, size, "%02x", v) and relatives with a literal format of one integer conversion"""
        args = e.get('a', [])
        k0 = 2 if fn == 'snprintf' else 1
        if len(args) != k0 + 2:
            raise Unsupported('`%s`' % pe(e))
        fmt = strip(args[k0])
        while fmt.get('k') in ('cast', 'paren') or fmt.get('k') == 'cond':
            if fmt.get('k') == 'cond':
                cv_ = self.val(fmt['c'])            # a format chosen by a condition on known values
                if not isinstance(cv_, int):
                    raise Unsupported('format of `%s` is not a literal' % pe(e))
                fmt = strip(fmt['x'] if cv_ else fmt['y'])
            else:
                fmt = strip(fmt['e'])
        if fmt.get('k') != 'str':
            raise Unsupported('format of `%s` is not a literal' % pe(e))
        text = bytes(fmt['b']).decode('latin-1')
        dst = self.val(args[0])
        size = self.val(args[1]) if fn == 'snprintf' else 1 << 20
        v = self.val(args[k0 + 1])
        if not (isinstance(dst, tuple) and dst[0] == 'P' and isinstance(size, int)):
            raise Unsupported('`%s`' % pe(e))
        import re
        mg = re.match(r'^((?:[^%]|%%)*)%([-+ 0#]*)(\d*)(?:\.(\d+))?(hh|h|ll|l|L)?([xXdiugGeEf])((?:[^%]|%%)*)$', text)
        if mg and isinstance(v, (int, float)) and not isinstance(v, bool):
            # one numeric conversion with a concrete argument: the text C produces (Python's % operator formats integers and
            # floating point the same way for these conversions)
            pre, post = mg.group(1).replace('%%', '%'), mg.group(7).replace('%%', '%')
            flags, width, prec, lm, conv = mg.group(2), mg.group(3), mg.group(4), mg.group(5) or '', mg.group(6)
            if conv in 'xXu':
                if not isinstance(v, int):
                    raise Unsupported('`%s`: integer conversion of a floating value' % pe(e))
                v = v & ((1 << 64) - 1 if lm in ('ll', 'l') else 0xffffffff)
            elif conv in 'di':
                if not isinstance(v, int):
                    raise Unsupported('`%s`: integer conversion of a floating value' % pe(e))
            else:
                v = float(v)
            body = ('%' + flags + width + ('.' + prec if prec is not None else '') + ('d' if conv in 'diu' else conv)) % v
            full = [ord(c) for c in pre + body + post]
            out = full[:max(size - 1, 0)] + [0]
            if size > 0:
                for j, c in enumerate(out):
                    self.store(('P', dst[1], dst[2] + j), c, e.get('l'))
            return len(full)            # snprintf returns the length of the untruncated text
        m0 = re.match(r'^((?:[^%]|%%)*)%(0?)(\d*)([xXdiu])((?:[^%]|%%)*)$', text)
        if not m0:
            raise Unsupported('format "%s"' % text)
        pre, post = m0.group(1).replace('%%', '%'), m0.group(5).replace('%%', '%')
        m = re.match(r'^%(0?)(\d*)([xXdiu])$', text[len(m0.group(1)):len(text) - len(m0.group(5))])
        width = int(m.group(2) or 0)
        # abstract value: only two-digit hexadecimal of a byte-sized value is modelled (digit = table[nibble])
        import absim
        if not (isinstance(v, absim.BV) and m.group(3) in 'xX' and width == 2 and m.group(1) and v.lo >= 0 and v.hi <= 255):
            raise Unsupported('`%s` with an abstract argument' % pe(e))
        tabv = self.HEXL if m.group(3) == 'x' else self.HEXU
        out = [ord(c) for c in pre] + [absim.tab(tabv, (v >> 4) & 15), absim.tab(tabv, v & 15)] + [ord(c) for c in post]
        full_len = len(out)
        out = out[:max(size - 1, 0)] + [0]
        if size <= 0:
            return full_len
        for j, c in enumerate(out):
            self.store(('P', dst[1], dst[2] + j), c, e.get('l'))
        return full_len

    def cstring(self, p, line):
        """the characters of the terminated string at pointer p (every element read is bounds-checked)"""
        if not (isinstance(p, tuple) and p[0] == 'P'):
            raise Unsupported('string function on a non-pointer')
        out, j = [], 0
        while True:
            c = self.load(('P', p[1], p[2] + j), line)
            if not isinstance(c, int):
                raise Unsupported('string function on abstract characters')
            if c == 0:
                return out
            out.append(c)
            j += 1
            self.tick()

    def libc_str(self, e, fn):
        a = [self.val(x) for x in e.get('a', [])]
        hay = self.cstring(a[0], e.get('l'))
        if fn == 'strlen':
            return len(hay)
        if fn == 'strstr':
            nee = self.cstring(a[1], e.get('l'))
            for k in range(0, len(hay) - len(nee) + 1):
                if hay[k:k + len(nee)] == nee:
                    return ('P', a[0][1], a[0][2] + k)
            return 0
        c = a[1] & 255 if isinstance(a[1], int) else None
        if c is None:
            raise Unsupported('`%s`' % pe(e))
        hay8 = [x & 255 for x in hay] + [0]
        ks = [k for k, x in enumerate(hay8) if x == c]
        if not ks:
            return 0
        return ('P', a[0][1], a[0][2] + (ks[0] if fn == 'strchr' else ks[-1]))

    def libc_strtoul(self, e):
        p = self.val(e['a'][0])
        base = self.val(e['a'][2])
        if not (isinstance(p, tuple) and p[0] == 'P' and base in (10, 16)):
            raise Unsupported('`%s`' % pe(e))
        digits = '0123456789abcdef'[:base]
        v, j = 0, 0
        while True:
            c = self.load(('P', p[1], p[2] + j), e.get('l'))
            if not isinstance(c, int):
                raise Unsupported('`%s` on abstract characters' % pe(e))
            ch = chr(c & 255).lower()
            if ch not in digits or c == 0:
                break
            v = v * base + digits.index(ch)
            j += 1
        return v

    def sink_call(self, e, name, sv):
        """text appended to a String member that is only written: `m << x`, `m += x`, `m.append(x)`"""
        out = self.bufs[self.sinks[sv[1]]]
        if (e.get('op') in ('<<', '+=') or name in ('append', 'operator<<', 'operator+=')) and len(e.get('a', [])) == 1:
            a = e['a'][0]
            at = T(self.f, strip_lv(a).get('t'))
            v = self.val(a)
            if isinstance(v, tuple) and v[0] == 'P':
                out.extend(self.cstring(v, e.get('l')))
            elif isinstance(v, int) and (at.get('bits') == 8 or strip(a).get('chr')):
                out.append(v)
            else:
                raise Unsupported('`%s` appends something that is neither a character nor a string' % pe(e))
            return sv
        if name in ('length',) and not e.get('a'):
            return len(out)
        raise Unsupported('member call `%s` on an output string' % pe(e))

    def tmp_of(self, e):
        """the call's object is a temporary string produced by a modelled call (substring): its buffer name"""
        if not self.objects:
            return None
        o = strip(e.get('obj') or {})
        while o.get('k') in ('temp', 'paren', 'cast'):
            o = strip(o['e'])
        if o.get('k') == 'call' and (o.get('fn') or '').split('::')[-1] in ('substring', 'substr') and self.obj_of(o) is not None:
            return o
        return None

    def tmp_call(self, e, name):
        inner = self.tmp_of(e)
        oid = self.obj_of(inner)
        a = [self.val(x) for x in inner.get('a', [])]
        n_ = self.objlen[oid]
        if not all(isinstance(x, int) for x in a) or not a:
            raise Unsupported('`%s`' % pe(inner))
        if (inner.get('fn') or '').endswith('substring'):
            # String::substring(i, j): memcpy of j - i characters from position i, no clamping
            i0, i1 = a[0], (a[1] if len(a) > 1 else n_)
        else:
            # String::substr(i, n): negative i counts from the end, both ends clamped to the length
            i0 = a[0] + n_ if a[0] < 0 else a[0]
            i0 = min(i0, n_)
            i1 = min(i0 + a[1], n_) if len(a) > 1 else n_
        if i1 < i0:
            raise OOB(('O', oid), i1, n_, inner.get('l'))
        chars = [self.load(('P', ('O', oid), j), inner.get('l')) for j in range(i0, i1)]
        if name in ('hexToInt',) and not e.get('a'):
            v = 0
            for c in chars:
                if not isinstance(c, int):
                    raise Unsupported('`%s` on abstract characters' % pe(e))
                ch = chr(c & 255).lower()
                if ch not in '0123456789abcdef':
                    break
                v = v * 16 + '0123456789abcdef'.index(ch)
            return v
        if name in ('length',) and not e.get('a'):
            return len(chars)
        if (name in ('toInt', 'operator int') or name.startswith('operator int')) and not e.get('a'):
            txt = ''.join(chr(c & 255) for c in chars if isinstance(c, int))
            import re as _re
            m_ = _re.match(r'\s*[-+]?\d+', txt)
            return int(m_.group(0)) if m_ else 0
        raise Unsupported('member call `%s` on a substring' % pe(e))

    def obj_of(self, e):
        o = strip_lv(e.get('obj') or {})
        while o.get('k') in ('temp', 'paren'):
            o = strip_lv(o['e'])
        if o.get('k') == 'var' and ('O', o.get('id')) in self.bufs:
            return o['id']
        if self.objects and o.get('k') == 'call' and o.get('op') == '[]' and o.get('obj') is not None and len(o.get('a', [])) == 1:
            lv_ = strip_lv(o['obj'])
            if lv_.get('k') == 'var' and lv_.get('id') in self.listsinks:
                # an element of a modelled array of strings: a temporary string object holding its text
                sv = self.val(o)
                if isinstance(sv, tuple) and sv[0] == 'STRV':
                    return self.temp_string(sv[1])
        if self.objects and o.get('k') == 'call' and o.get('op') == '->' and o.get('obj') is not None:
            o = strip_lv(o['obj'])          # a smart-pointer member: p.operator->()
            while o.get('k') in ('temp', 'paren'):
                o = strip_lv(o['e'])
        if self.objects and (o.get('k') == 'mem' or (o.get('k') == 'un' and o.get('op') == '*')):
            # p->member(): p is a member / record field / pointer that refers to a modelled object
            try:
                pv = self.val(o if o.get('k') == 'mem' else o['e'])
            except Unsupported:
                pv = None
            if isinstance(pv, tuple) and pv[0] == 'P' and isinstance(pv[1], tuple) and pv[1][0] == 'O' and pv[2] == 0 and pv[1] in self.bufs:
                return pv[1][1]
        if o.get('k') == 'call' and self.strobjs and (o.get('op') in ('<<', '+=') or (o.get('fn') or '').split('::')[-1] in ('append', 'operator<<', 'operator+=')):
            inner = self.obj_of(o)          # q << a << b: the receiver of the outer call is the object of the inner one
            if inner is not None and inner in self.strobjs:
                return inner
        return None

    def get(self, l):
        if l[0] == 'var' and l[1] in self.boxed:
            bn_, bi_ = self.boxslot(l[1])
            return self.load(('P', bn_, bi_), None)
        if l[0] == 'var':
            if l[1] not in self.vars:
                raise Unsupported('read of an unset variable')
            return self.vars[l[1]]
        if l[0] == 'mem':
            if l[1] not in self.mems:
                raise Unsupported('read of member %s' % l[1])
            return self.mems[l[1]]
        if l[0] == 'rec':
            return self.recs[l[1]][l[2]]
        if l[0] == 'recobj':
            return ('R', l[1])
        if l[0] == 'bufs':
            vals = [self.load(p_, l[3]) for p_ in l[1]]
            if all(isinstance(v_, int) for v_ in vals) and len(set(vals)) == 1:
                return vals[0]
            import absim
            base, idx = l[4]
            if base[1][0] in ('G', 'S') and all(isinstance(v_, int) for v_ in self.bufs[base[1]]):
                # look-up in a constant table with an abstract index: kept as "that table at that index"
                return absim.TabVal(tuple(self.bufs[base[1]][base[2]:]), idx)
            return absim.join(vals)
        return self.load(l[1], l[3])

    def put(self, l, v):
        if l[0] == 'bufs':
            raise Unsupported('store through an abstract index')
        if l[0] == 'var' and l[1] in self.boxed:
            bn_, bi_ = self.boxslot(l[1])
            self.store(('P', bn_, bi_), wrap(v, l[2]), None)
        elif l[0] == 'var':
            self.vars[l[1]] = wrap(v, l[2])
        elif l[0] == 'mem':
            self.mems[l[1]] = wrap(v, l[2])
        elif l[0] == 'rec':
            self.recs[l[1]][l[2]] = wrap(v, l[3])
        elif l[0] == 'recobj':
            raise Unsupported('assignment of a whole record')
        else:
            self.store(l[1], wrap(v, l[2]), l[3])

    # ------------------------------------------------------------ expressions
    def val(self, e):
        self.tick()
        if e is None:
            raise Unsupported('missing expression')
        k = e.get('k')
        if k == 'int':
            return e['v']
        if k == 'float' and 'v' in e:
            return float(e['v'])
        if 'cv' in e and k not in ('var',):
            return e['cv']
        if k == 'cast':
            ck = e.get('ck')
            if ck == 'NullToPointer':
                return 0
            if ck == 'ArrayToPointerDecay':
                inner = strip_lv(e['e'])
                if inner.get('k') == 'var' and ('A', inner['id']) in self.bufs:
                    return ('P', ('A', inner['id']), 0)
                if inner.get('k') == 'var':
                    g = self.const_table(inner)
                    if g is not None:
                        return ('P', g, 0)
                if inner.get('k') == 'str':
                    name = ('S', id(inner))
                    if name not in self.bufs:
                        self.bufs[name] = [wrap(b, {'bits': 8, 'sg': True}) for b in inner['b']] + [0]
                    return ('P', name, 0)
                return self.val(e['e'])
            v = self.val(e['e'])
            if isinstance(v, tuple):
                if ck in ('PointerToBoolean',):
                    return 1
                return v
            if ck in ('IntegralToBoolean',):
                return int(v != 0)
            if ck in ('IntegralCast',):
                return wrap(v, T(self.f, e.get('t')))
            if ck in ('LValueToRValue', 'NoOp', 'BitCast', 'FunctionToPointerDecay', 'IntegralToPointer'):
                return v
            if ck == 'IntegralToFloating' and isinstance(v, int):
                tt = T(self.f, e.get('t'))
                if tt.get('bits') == 32 or tt.get('s') == 'float':
                    import struct
                    return struct.unpack('f', struct.pack('f', float(v)))[0]
                return float(v)
            if ck == 'FloatingToIntegral' and isinstance(v, float):
                if v != v or v in (float('inf'), float('-inf')):
                    raise Unsupported('conversion of a non-finite value to an integer')
                return wrap(int(v), T(self.f, e.get('t')))
            if ck == 'FloatingCast' and isinstance(v, float):
                tt = T(self.f, e.get('t'))
                if tt.get('s') == 'float':
                    import struct
                    try:
                        return struct.unpack('f', struct.pack('f', v))[0]
                    except OverflowError:
                        return float('inf') if v > 0 else float('-inf')
                return v
            if ck in ('IntegralToFloating', 'FloatingToIntegral', 'FloatingCast'):
                return v
            return v
        if k == 'var':
            if e['id'] in self.boxed:
                bn_, bi_ = self.boxslot(e['id'])
                return self.load(('P', bn_, bi_), e.get('l'))
            if e['id'] in self.vars:
                return self.vars[e['id']]
            if 'cv' in e:
                return e['cv']
            if ('A', e['id']) in self.bufs:
                return ('P', ('A', e['id']), 0)
            g = self.const_table(e)
            if g is not None:
                return ('P', g, 0)
            gq = self.prog.globals.get(e.get('q')) if e.get('q') else None
            if gq is not None and gq.get('const') and isinstance(gq.get('init'), dict) and const_val(gq['init']) is not None:
                return const_val(gq['init'])            # scalar constant at namespace scope
            if ('O', e['id']) in self.bufs:
                return ('P', ('O', e['id']), 0)
            if e['id'] in self.listsinks:
                return ('SLIST', e['id'])
            if e['id'] in self.dicts:
                return ('DICT', e['id'])
            raise Unsupported('variable %s' % e.get('n'))
        if k == 'mem' and _on_this(e) and e.get('f') in self.sinks:
            return ('SINK', e['f'])
        if k == 'mem' and not _on_this(e) and e.get('f') == '_len':
            bo = strip_lv(e.get('b') or {})
            if bo.get('k') == 'var' and ('O', bo.get('id')) in self.bufs and bo.get('id') in self.strobjs:
                return len(self.bufs[('O', bo['id'])]) - 1          # length field of a modelled String
        if k == 'mem' and not _on_this(e):
            base = self.val(e['b'])
            if isinstance(base, tuple) and base[0] == 'R' and not e.get('f'):
                return base             # anonymous union / struct layer of the record
            if isinstance(base, tuple) and base[0] == 'R':
                rec = self.recs[base[1]]
                if rec.get('__freed'):
                    raise OOB(('R', base[1]), 0, 0, e.get('l'))          # field of a deleted node
                if e.get('f') not in rec:
                    raise Unsupported('field %s of record %s' % (e.get('f'), base[1]))
                return rec[e['f']]
            if isinstance(base, dict) and e.get('f') in base:
                return base[e['f']]
            raise Unsupported('member `%s` of a value that is not a modelled record' % pe(e))
        if k == 'mem':
            return self.get(self.lv(e))
        if k == 'this':
            return ('THIS',)
        if k in ('temp', 'paren'):
            return self.val(e['e'])
        if k == 'construct' and self.objects and e.get('cls') in self.prog.records and e.get('cls') not in ('asl::String',) and not (e.get('clsp') or '').startswith('asl::Array') \
                and self.record_class_has_bodies(e['cls']) and [g for g in self.prog.fn(e.get('fn'), e.get('sig')) if g.get('body')] \
                and not (len(e.get('a', [])) == 1 and T(self.f, strip_lv(e['a'][0]).get('t')).get('rec') == e['cls']):
            return ('R', self.new_record(e['cls'], ctor_expr=e))
        if k == 'construct' and len(e.get('a', [])) == 1:
            return self.val(e['a'][0])
        if k == 'un':
            op = e['op']
            if op == '*':
                if strip(e['e']).get('k') == 'this':
                    return ('THIS',)
                pv = self.val(e['e']) if strip(e['e']).get('k') == 'var' else None
                if isinstance(pv, tuple) and pv[0] == 'R':
                    return pv
                return self.get(self.lv(e))
            if op == '&':
                l = self.lv(e['e'])
                if l[0] == 'buf':
                    return l[1]
                if l[0] == 'recobj':
                    return ('R', l[1])
                if l[0] == 'rec':
                    return ('PF', l[1], l[2])           # address of a field of a modelled record (`&p->next`)
                if l[0] == 'var' and isinstance(self.vars.get(l[1]), tuple) and self.vars[l[1]][:1] == ('R',):
                    return self.vars[l[1]]          # address of a reference parameter bound to a modelled record
                if l[0] == 'var':
                    if l[1] not in self.boxed:
                        name = ('V', l[1], next(_UNIQ))
                        self.bufs[name] = [self.vars.get(l[1], 0)]
                        self.boxed[l[1]] = name
                    bn_, bi_ = self.boxslot(l[1])
                    return ('P', bn_, bi_)
                if l[0] == 'mem' and (((l[2].get('rec') or '') and not (l[2].get('rec') or '').startswith('asl::')) or l[2].get('int')):
                    return ('PM', l[1])            # address of a native (C library) or scalar member of the current object: opaque, for stubs
                raise Unsupported('address of `%s`' % pe(e['e']))
            if op in ('post++', 'post--', 'pre++', 'pre--'):
                l = self.lv(e['e'])
                old = self.get(l)
                d = 1 if '++' in op else -1
                new = ('P', old[1], old[2] + d) if isinstance(old, tuple) else old + d
                self.put(l, new)
                return old if op.startswith('post') else self.get(l)
            v = self.val(e['e'])
            if isinstance(v, tuple):
                if op == '!':
                    return 0
                raise Unsupported('unary %s on a pointer' % op)
            r = {'-': -v, '!': int(not v), '~': ~v, '+': v}.get(op)
            if r is None:
                raise Unsupported('unary %s' % op)
            return wrap(r, T(self.f, e.get('t'))) if op != '!' else r
        if k == 'idx':
            return self.get(self.lv(e))
        if k == 'cond':
            return self.val(e['x']) if self.truth(e['c']) else self.val(e['y'])
        if k == 'bin':
            op = e['op']
            if op == '&&':
                return int(self.truth(e['x']) and self.truth(e['y']))
            if op == '||':
                return int(self.truth(e['x']) or self.truth(e['y']))
            if op == ',':
                self.val(e['x'])
                return self.val(e['y'])
            if op == '=':
                v = self.val(e['y'])
                l = self.lv(e['x'])
                self.put(l, v)
                return self.get(l) if l[0] != 'buf' else wrap(v, l[2])
            if op.endswith('=') and op not in ('==', '!=', '<=', '>='):
                l = self.lv(e['x'])
                a = self.get(l)
                b = self.val(e['y'])
                r = self.arith(op[:-1], a, b, e)
                self.put(l, r)
                return self.get(l) if l[0] != 'buf' else r
            a, b = self.val(e['x']), self.val(e['y'])
            if op in ('==', '!=', '<', '>', '<=', '>='):
                if isinstance(a, tuple) or isinstance(b, tuple):
                    if isinstance(a, tuple) and isinstance(b, tuple):
                        if a[0] != 'P' or b[0] != 'P':
                            if op in ('==', '!='):
                                return int((a == b) == (op == '=='))
                            raise Unsupported('ordering of references')
                        if a[1] != b[1]:
                            # distinct objects: ordered by a fixed virtual layout (each buffer has its own address range)
                            names = sorted(self.bufs, key=repr)
                            a, b = names.index(a[1]) * (1 << 24) + a[2], names.index(b[1]) * (1 << 24) + b[2]
                        else:
                            a, b = a[2], b[2]
                    else:
                        # pointer against null
                        a, b = (1 if isinstance(a, tuple) else a), (1 if isinstance(b, tuple) else b)
                else:
                    tx, ty = T(self.f, strip_lv(e['x']).get('t')), T(self.f, strip_lv(e['y']).get('t'))
                    if (tx.get('bits') == 32 and tx.get('sg') is False) or (ty.get('bits') == 32 and ty.get('sg') is False):
                        a &= 0xffffffff
                        b &= 0xffffffff
                return int({'==': a == b, '!=': a != b, '<': a < b, '>': a > b, '<=': a <= b, '>=': a >= b}[op])
            return wrap(self.arith(op, a, b, e), T(self.f, e.get('t')))
        if k == 'call':
            return self.call(e)
        if k == 'initlist':
            # aggregate initialiser of a plain struct: a record value {field: value}
            rec = self.prog.records.get(T(self.f, e.get('t')).get('rec') or '')
            items = e.get('items', [])
            if rec is None or len(items) > len(rec.get('fields', [])):
                raise Unsupported('initialiser list `%s`' % pe(e))
            out = {}
            for fld, it in zip(rec['fields'], items):
                out[fld['n']] = self.val(it)
            for fld in rec['fields'][len(items):]:
                out[fld['n']] = 0
            return out
        if k == 'str':
            name = ('S', id(e))
            if name not in self.bufs:
                self.bufs[name] = [wrap(b, {'bits': 8, 'sg': True}) for b in e['b']] + [0]
            return ('P', name, 0)
        if k == 'sizeof':
            if 'cv' in e:
                return e['cv']
        if k == 'delete':
            pv = self.val(e['e'])
            if pv == 0:
                return 0
            if isinstance(pv, tuple) and pv[0] == 'R' and pv[1] in self.recs:
                if self.recs[pv[1]].get('__freed'):
                    raise OOB(('R', pv[1]), 0, 0, e.get('l'))          # double delete
                self.recs[pv[1]]['__freed'] = True
                return 0
            raise Unsupported('`%s`' % pe(e))
        raise Unsupported('expression `%s` (%s)' % (pe(e), k))

    def arith(self, op, a, b, e):
        if isinstance(a, tuple) or isinstance(b, tuple):
            pt, off = (a, b) if isinstance(a, tuple) else (b, a)
            if isinstance(pt, tuple) and pt[0] == 'P' and isinstance(off, int) and pt[1] in self.elem_size and self.elem_size[pt[1]] > 1:
                # a pointer into a buffer of multi-byte elements used as char* / void*: the offset is in bytes
                px = e['x'] if isinstance(a, tuple) else e['y']
                to = T(self.f, T(self.f, strip_lv(px).get('t')).get('to'))
                if (to.get('bits') == 8 or to.get('s') in ('void', 'const void')) and not to.get('rec'):
                    es = self.elem_size[pt[1]]
                    if off % es:
                        raise Unsupported('byte offset %d into a buffer of %d-byte elements' % (off, es))
                    off //= es
                    a, b = (pt, off) if isinstance(a, tuple) else (off, pt)
            if op == '+' and isinstance(a, tuple) and isinstance(b, int):
                return ('P', a[1], a[2] + b)
            if op == '+' and isinstance(b, tuple) and isinstance(a, int):
                return ('P', b[1], b[2] + a)
            if op == '-' and isinstance(a, tuple) and isinstance(b, int):
                return ('P', a[1], a[2] - b)
            if op == '-' and isinstance(a, tuple) and isinstance(b, tuple):
                if a[1] != b[1]:
                    raise Unsupported('difference of pointers into different buffers')
                return a[2] - b[2]
            raise Unsupported('pointer arithmetic %s' % op)
        if op in ('/', '%'):
            if b == 0:
                raise Unsupported('division by zero')
            qv = abs(a) // abs(b) * (1 if (a >= 0) == (b >= 0) else -1)
            return qv if op == '/' else a - qv * b
        if op in ('<<', '>>') and not 0 <= b < 64:
            raise Unsupported('shift by %d' % b)
        r = {'+': lambda: a + b, '-': lambda: a - b, '*': lambda: a * b, '<<': lambda: a << b, '>>': lambda: a >> b,
             '&': lambda: a & b, '|': lambda: a | b, '^': lambda: a ^ b}.get(op)
        if r is None:
            raise Unsupported('operator %s' % op)
        return r()

    def truth(self, e):
        v = self.val(e)
        return True if isinstance(v, tuple) else bool(v)

    def call(self, e):
        fn = e.get('fn') or ''
        name = (e.get('pq') or fn).split('::')[-1]          # template arguments are not part of the member's name
        if fn in bytesets.LIBC and not e.get('clsp'):
            return bytesets.LIBC[fn](self.val(e['a'][0]))
        if fn in ('memcpy', 'memmove', 'memset') and not e.get('clsp'):
            dst = self.val(e['a'][0])
            n_ = self.val(e['a'][2])
            if fn != 'memset' and isinstance(dst, tuple) and dst == ('THIS',) and self.objects:
                src = self.val(e['a'][1])
                sz = strip(e['a'][2])
                while sz.get('k') in ('cast', 'paren'):
                    sz = strip(sz['e'])
                if isinstance(src, tuple) and src[0] == 'R' and src[1] in self.recs and (sz.get('k') == 'sizeof' or sz.get('sizeof') is not None):
                    # memcpy(this, &v, sizeof(v)): bitwise copy of a modelled record - an inline array is copied by content,
                    # a container member becomes a second handle on the same storage
                    for fld, v_ in self.recs[src[1]].items():
                        if isinstance(v_, tuple) and v_[0] == 'P' and isinstance(v_[1], tuple) and v_[1][0] != 'O':
                            mine = self.mems.get(fld)
                            if not (isinstance(mine, tuple) and mine[0] == 'P' and len(self.bufs[mine[1]]) == len(self.bufs[v_[1]])):
                                raise Unsupported('`%s`: inline member %s' % (pe(e), fld))
                            self.bufs[mine[1]][:] = self.bufs[v_[1]]
                        else:
                            self.mems[fld] = v_
                    return dst
            if not isinstance(dst, tuple) or dst[0] != 'P' or not isinstance(n_, int):
                raise Unsupported('`%s`' % pe(e))
            es = self.elem_size.get(dst[1], 1)
            if es > 1:
                if n_ % es:
                    raise Unsupported('`%s`: %d bytes into a buffer of %d-byte elements' % (pe(e), n_, es))
                n_ //= es
            if fn == 'memset':
                v_ = self.val(e['a'][1])
                for j in range(n_):
                    self.store(('P', dst[1], dst[2] + j), v_ & 255, e.get('l'))
                return dst
            src = self.val(e['a'][1])
            if not isinstance(src, tuple):
                raise Unsupported('`%s`' % pe(e))
            vals = [self.load(('P', src[1], src[2] + j), e.get('l')) for j in range(n_)]
            for j in range(n_):
                self.store(('P', dst[1], dst[2] + j), vals[j], e.get('l'))
            return dst
        if (fn in self.externs or (e.get('pq') or '') in self.externs) and not e.get('clsp') and e.get('obj') is None:
            return self.externs[fn if fn in self.externs else e['pq']](self, e, [self.val(a) for a in e.get('a', [])])
        if fn == 'memcmp' and not e.get('clsp') and len(e.get('a', [])) == 3:
            a = [self.val(x) for x in e['a']]
            if not (isinstance(a[0], tuple) and isinstance(a[1], tuple) and isinstance(a[2], int)):
                raise Unsupported('`%s`' % pe(e))
            u1 = [self.load(('P', a[0][1], a[0][2] + j), e.get('l')) for j in range(a[2])]
            u2 = [self.load(('P', a[1][1], a[1][2] + j), e.get('l')) for j in range(a[2])]
            if not all(isinstance(x, int) for x in u1 + u2):
                raise Unsupported('`%s` on abstract bytes' % pe(e))
            u1, u2 = [x & 255 for x in u1], [x & 255 for x in u2]
            return (u1 > u2) - (u1 < u2)
        if fn in ('atoi', 'atol', 'atoll', 'atof') and not e.get('clsp') and len(e.get('a', [])) == 1:
            # glibc on LP64: atoi = (int) strtol(s, 0, 10), atol / atoll = strtol / strtoll (saturating), atof = strtod
            import re as _re
            pv = self.val(e['a'][0])
            txt = ''.join(chr(c & 255) for c in self.cstring(pv, e.get('l')))
            if fn == 'atof':
                m_ = _re.match(r'\s*[-+]?(\d+\.?\d*([eE][-+]?\d+)?|\.\d+([eE][-+]?\d+)?)', txt)
                return float(m_.group(0)) if m_ else 0.0
            m_ = _re.match(r'\s*[-+]?\d+', txt)
            v_ = int(m_.group(0)) if m_ else 0
            v_ = max(-(1 << 63), min((1 << 63) - 1, v_))
            return wrap(v_, {'bits': 32, 'sg': True}) if fn == 'atoi' else v_
        if fn == 'strcpy' and not e.get('clsp') and len(e.get('a', [])) == 2:
            dst, src = self.val(e['a'][0]), self.val(e['a'][1])
            if not (isinstance(dst, tuple) and dst[0] == 'P' and isinstance(src, tuple) and src[0] == 'P'):
                raise Unsupported('`%s`' % pe(e))
            chars = self.cstring(src, e.get('l')) + [0]
            for j, c in enumerate(chars):
                self.store(('P', dst[1], dst[2] + j), c, e.get('l'))
            return dst
        if fn in ('strcmp', 'strncmp') and not e.get('clsp'):
            a = [self.val(x) for x in e.get('a', [])]
            s1, s2 = self.cstring(a[0], e.get('l')), self.cstring(a[1], e.get('l'))
            if fn == 'strncmp':
                if not isinstance(a[2], int):
                    raise Unsupported('`%s`' % pe(e))
                s1, s2 = s1[:a[2]], s2[:a[2]]
            u1, u2 = [x & 255 for x in s1], [x & 255 for x in s2]
            return (u1 > u2) - (u1 < u2)
        if fn in ('strpbrk', 'strcspn', 'strspn') and not e.get('clsp'):
            a = [self.val(x) for x in e.get('a', [])]
            hay, cs = self.cstring(a[0], e.get('l')), set(self.cstring(a[1], e.get('l')))
            k_ = 0
            while k_ < len(hay) and ((hay[k_] in cs) == (fn == 'strspn')):
                k_ += 1
            if fn == 'strpbrk':
                return ('P', a[0][1], a[0][2] + k_) if k_ < len(hay) else 0
            return k_
        if fn in ('strlen', 'strstr', 'strchr', 'strrchr') and not e.get('clsp'):
            return self.libc_str(e, fn)
        if fn in ('memchr', 'memrchr') and not e.get('clsp') and len(e.get('a', [])) == 3:
            # reads exactly the n bytes it is given (no stop at a NUL): each is loaded, so a range past the buffer is seen
            a = [self.val(x) for x in e['a']]
            if not (isinstance(a[0], tuple) and a[0][0] == 'P' and isinstance(a[1], int) and isinstance(a[2], int)):
                raise Unsupported('`%s`' % pe(e))
            if a[2] < 0:
                raise OOB(a[0][1], a[2], len(self.bufs.get(a[0][1], [])), e.get('l'))
            hits = []
            for k_ in range(a[2]):
                b_ = self.load(('P', a[0][1], a[0][2] + k_), e.get('l'))
                if not isinstance(b_, int):
                    raise Unsupported('memchr over abstract bytes')
                if (b_ & 255) == (a[1] & 255):
                    hits.append(k_)
                    if fn == 'memchr':
                        break
                self.tick()
            return ('P', a[0][1], a[0][2] + hits[-1]) if hits else 0
        if fn in ('snprintf', 'sprintf') and not e.get('clsp'):
            return self.libc_printf(e, fn)
        if fn in ('strtoul', 'strtol') and not e.get('clsp') and len(e.get('a', [])) == 3:
            return self.libc_strtoul(e)
        if e.get('obj') is not None and strip_lv(e['obj']).get('k') == 'var' and strip_lv(e['obj']).get('id') in self.transparent_vars and not e.get('a'):
            return wrap(self.vars[strip_lv(e['obj'])['id']], T(self.f, e.get('t')))
        if e.get('obj') is not None and self.ignore_string_members:
            mo = strip_lv(e['obj'])
            while mo.get('k') in ('temp', 'paren', 'cast'):
                mo = strip_lv(mo['e'])
            if (mo.get('k') == 'mem' and _on_this(mo) and (e.get('clsp') == 'asl::String' or T(self.f, mo.get('t')).get('rec') == 'asl::String')) or (_is_this(e['obj']) and name == 'operator='):
                if name in ('operator=', 'operator<<', 'operator+=', 'append', 'assign'):
                    vals_ = []
                    for a_ in e.get('a', []):
                        try:
                            vals_.append(self.val(a_))
                        except Unsupported:
                            vals_.append(None)
                    if name == 'operator=' and mo.get('k') == 'mem' and len(vals_) == 1:
                        v_ = vals_[0]
                        if isinstance(v_, tuple) and v_[0] == 'STRV':
                            self.strmem_vals[mo['f']] = tuple(v_[1])
                        elif isinstance(v_, tuple) and v_[0] == 'P':
                            self.strmem_vals[mo['f']] = tuple(self.cstring(v_, e.get('l')))
                        elif isinstance(v_, int):
                            self.strmem_vals[mo['f']] = (v_,)
                        else:
                            self.strmem_vals.pop(mo['f'], None)
                    return ('IGN',)
                if name in ('operator==', 'operator!=') and len(e.get('a', [])) == 1 and mo.get('f') in self.strmem_vals:
                    rv = self.val(e['a'][0])
                    lhs = list(self.strmem_vals[mo['f']])
                    rhs = self.cstring(rv, e.get('l')) if isinstance(rv, tuple) and rv[0] == 'P' else list(rv[1]) if isinstance(rv, tuple) and rv[0] == 'STRV' else None
                    if rhs is None:
                        raise Unsupported('`%s`' % pe(e))
                    return int((lhs == rhs) == (name == 'operator=='))
        if e.get('obj') is not None:
            so_ = strip(e['obj'])
            while so_.get('k') in ('temp', 'paren', 'cast', 'construct') and (so_.get('e') is not None or so_.get('a')):
                so_ = strip(so_['e']) if so_.get('e') is not None else strip(so_['a'][0])
            if so_.get('k') == 'call' and (so_.get('fn') or '').split('::')[-1] in ('substring', 'substr') and self.obj_of(so_) is not None and self.obj_of(so_) in self.strobjs and self.tmp_of(e) is None:
                sv = self.val(so_)
                if isinstance(sv, tuple) and sv[0] == 'STRV':
                    if name in ('operator int', 'toInt') or (e.get('k') == 'call' and 'operator int' in (e.get('fn') or '')):
                        txt = ''.join(chr(c & 255) for c in sv[1])
                        import re as _re
                        m_ = _re.match(r'\s*[-+]?\d+', txt)
                        return int(m_.group(0)) if m_ else 0
                    if name == 'length':
                        return len(sv[1])
                    raise Unsupported('member call `%s` on a substring' % pe(e))
        if e.get('obj') is not None and self.dicts:
            do = strip_lv(e['obj'])
            while do.get('k') in ('temp', 'paren', 'cast'):
                do = strip_lv(do['e'])
            if (name == 'operator=' or e.get('op') == '=') and do.get('k') == 'call' and do.get('op') == '[]' and do.get('obj') is not None and len(e.get('a', [])) == 1:
                dv = strip_lv(do['obj'])
                if dv.get('k') == 'var' and dv.get('id') in self.dicts:
                    # dic[key] = value with texts on both sides
                    key, val_ = self.text_of(self.val(do['a'][0]), e.get('l')), self.text_of(self.val(e['a'][0]), e.get('l'))
                    self.dicts[dv['id']][tuple(key)] = tuple(val_)
                    return ('DICT', dv['id'])
            if do.get('k') == 'var' and do.get('id') in self.dicts:
                if name in ('length', 'size') and not e.get('a'):
                    return len(self.dicts[do['id']])
                if name == 'clear' and not e.get('a'):
                    self.dicts[do['id']].clear()
                    return ('DICT', do['id'])
                if name in ('has', 'contains') and len(e.get('a', [])) == 1:
                    return int(tuple(self.text_of(self.val(e['a'][0]), e.get('l'))) in self.dicts[do['id']])
                raise Unsupported('member call `%s` on a modelled dictionary' % pe(e))
        if e.get('obj') is not None and self.listsinks:
            lo = strip_lv(e['obj'])
            while lo.get('k') in ('temp', 'paren', 'cast'):
                lo = strip_lv(lo['e'])
            if lo.get('k') == 'call' and (lo.get('op') == '<<' or (lo.get('fn') or '').split('::')[-1] in ('operator<<', 'append')):
                inner = self.val(lo)            # out << a << b: the inner append runs first
                if isinstance(inner, tuple) and inner[0] == 'LSINK':
                    lo = {'k': 'var', 'id': inner[1]}
            if lo.get('k') == 'var' and lo.get('id') in self.listsinks:
                lst = self.listsinks[lo['id']]
                if name == 'clear' and not e.get('a'):
                    del lst[:]
                    return ('LSINK', lo['id'])
                if name in ('length', 'size') and not e.get('a'):
                    return len(lst)
                if (e.get('op') == '<<' or name in ('operator<<', 'append')) and len(e.get('a', [])) == 1:
                    v_ = self.val(e['a'][0])
                    if isinstance(v_, tuple) and v_[0] == 'P':
                        lst.append(tuple(self.cstring(v_, e.get('l'))))
                    elif isinstance(v_, tuple) and v_[0] == 'STRV':
                        lst.append(tuple(v_[1]))
                    elif isinstance(v_, tuple) and v_[0] == 'OBJ' and v_[1] in self.strobjs:
                        lst.append(tuple(self.bufs[('O', v_[1])][:-1]))
                    else:
                        raise Unsupported('`%s` appends something that is not a string' % pe(e))
                    return ('LSINK', lo['id'])
                if e.get('op') == '[]' and len(e.get('a', [])) == 1:
                    i_ = self.val(e['a'][0])
                    if not isinstance(i_, int) or not 0 <= i_ < len(lst):
                        raise OOB(('L', lo['id']), i_ if isinstance(i_, int) else -1, len(lst), e.get('l'))
                    return ('STRV', tuple(lst[i_]))
                raise Unsupported('member call `%s` on an output list' % pe(e))
        if e.get('obj') is not None and self.sinks:
            so = strip_lv(e['obj'])
            while so.get('k') in ('temp', 'paren', 'cast'):
                so = strip_lv(so['e'])
            sv = None
            if so.get('k') == 'mem' and _on_this(so) and so.get('f') in self.sinks:
                sv = ('SINK', so['f'])
            elif so.get('k') == 'call':
                sv = self.val(so)
            if isinstance(sv, tuple) and sv[0] == 'SINK':
                return self.sink_call(e, name, sv)
        if self.objects and e.get('obj') is not None and e.get('clsp') == 'asl::StaticSpace' and name in ('construct', 'destroy'):
            # in-place storage of a container member (`_s.construct(Array<char>(n))`): the member becomes a modelled object of n
            # elements whose bytes are not initialised; construct() without an argument gives an empty container
            so = strip_lv(e['obj'])
            if so.get('k') == 'mem' and so.get('f') and _on_this(so):
                fld, oid = so['f'], 'm:' + so['f']
                if name == 'destroy':
                    if not (isinstance(self.mems.get(fld), tuple) and self.mems[fld][:1] == ('P',)):
                        raise Unsupported('`%s` of storage that holds no object' % pe(e))
                    self.mems.pop(fld)
                    return 0
                n_ = 0
                if e.get('a'):
                    a0 = strip(e['a'][0])
                    while a0.get('k') in ('temp', 'paren', 'cast'):
                        a0 = strip(a0['e'])
                    if not (a0.get('k') == 'construct' and a0.get('clsp') == 'asl::Array' and a0.get('sig') == '(int)' and len(a0.get('a', [])) == 1):
                        raise Unsupported('`%s`' % pe(e))
                    n_ = self.val(a0['a'][0])
                    if not isinstance(n_, int):
                        raise Unsupported('`%s`' % pe(e))
                    if n_ < 0:
                        raise OOB(('O', oid), n_, 0, e.get('l'))
                self.bufs[('O', oid)] = [UNINIT] * n_
                self.objlen[oid] = n_
                self.mems[fld] = ('P', ('O', oid), 0)
                return 0
        if e.get('obj') is not None and self.tmp_of(e) is not None:
            return self.tmp_call(e, name)
        if e.get('obj') is not None and self.obj_of(e) is not None:
            oid = self.obj_of(e)
            oe = strip_lv(e['obj'])
            while oe.get('k') in ('temp', 'paren'):
                oe = strip_lv(oe['e'])
            if oe.get('k') == 'call' and oe.get('op') != '->':
                self.val(oe)            # q << a << b: the inner append runs first (once)
            if e.get('op') == '[]':
                return self.get(self.lv(e))
            if (name in ('data', 'str', 'ptr', 'operator char *', 'operator const char *', 'operator*', 'operator->') or e.get('op') == '->') and not e.get('a'):
                return ('P', ('O', oid), 0)
            if name in ('length', 'size') and not e.get('a'):
                if oid in self.strobjs:
                    return len(self.bufs[('O', oid)]) - 1
                return self.objlen[oid]
            if name in ('cap', 'capacity') and not e.get('a') and oid not in self.strobjs:
                # the modelled array has no slack: its capacity is its length (the real capacity is at least that, so every
                # path the model takes for "fits" is a path the real code can take)
                return self.objlen[oid]
            if oid in self.strobjs and (e.get('op') in ('<<', '+=') or name in ('append', 'operator<<', 'operator+=')) and 1 <= len(e.get('a', [])) <= 2:
                # text appended to a local String: a character, a C string (optionally n characters of it) or another String
                buf = self.bufs[('O', oid)]
                a0 = e['a'][0]
                v = self.val(a0)
                at = T(self.f, strip_lv(a0).get('t'))
                if isinstance(v, tuple) and v[0] == 'P':
                    if len(e['a']) == 2:
                        cnt = self.val(e['a'][1])
                        if not isinstance(cnt, int):
                            raise Unsupported('`%s`' % pe(e))
                        chars = [self.load(('P', v[1], v[2] + j), e.get('l')) for j in range(max(cnt, 0))]
                    else:
                        chars = self.cstring(v, e.get('l'))
                elif isinstance(v, int) and len(e['a']) == 1 and (at.get('bits') == 8 or strip(a0).get('chr')):
                    chars = [v]
                else:
                    raise Unsupported('`%s` appends something that is neither a character nor a string' % pe(e))
                buf[len(buf) - 1:len(buf) - 1] = chars
                self.objlen[oid] = len(buf) - 1
                return ('P', ('O', oid), 0) if False else ('OBJ', oid)
            if oid in self.strobjs and (name == 'operator=' or e.get('op') == '=' or name == 'assign') and len(e.get('a', [])) == 1:
                # a local String assigned a C string, another String, a substring or a character
                v_ = self.val(e['a'][0])
                if isinstance(v_, tuple) and v_[0] == 'P':
                    chars = self.cstring(v_, e.get('l'))
                elif isinstance(v_, tuple) and v_[0] == 'STRV':
                    chars = list(v_[1])
                elif isinstance(v_, tuple) and v_[0] == 'OBJ' and v_[1] in self.strobjs:
                    chars = list(self.bufs[('O', v_[1])][:-1])
                elif isinstance(v_, int):
                    chars = [v_]
                else:
                    raise Unsupported('`%s`' % pe(e))
                self.bufs[('O', oid)][:] = chars + [0]
                self.objlen[oid] = len(chars)
                return ('OBJ', oid)
            if oid in self.strobjs and name in ('cap', 'capacity') and not e.get('a'):
                # the modelled string has no slack beyond its terminator, except the room it was constructed with
                return max(len(self.bufs[('O', oid)]), self.strcap.get(oid, 0))
            if oid in self.strobjs and name == 'resize' and 1 <= len(e.get('a', [])) <= 3:
                # String::resize(n, keep = true, newlen = true): room for n characters and the terminator, the old text kept
                n_ = self.val(e['a'][0])
                flags_ = [self.val(a_) for a_ in e['a'][1:]]
                if not isinstance(n_, int) or n_ < 0 or not all(isinstance(x_, int) for x_ in flags_):
                    raise Unsupported('`%s`' % pe(e))
                keep_ = flags_[0] if len(flags_) > 0 else 1
                buf = self.bufs[('O', oid)]
                old_ = buf[:-1][:n_] if keep_ else []
                buf[:] = old_ + [0] * (n_ - len(old_)) + [0]
                self.objlen[oid] = n_
                self.strcap.pop(oid, None)
                return ('OBJ', oid)
            if oid in self.strobjs and name == 'fix' and len(e.get('a', [])) == 1:
                # String::fix(n): the text was written through str(); the length becomes n (the terminator must be there)
                n_ = self.val(e['a'][0])
                buf = self.bufs[('O', oid)]
                if not isinstance(n_, int) or n_ < 0 or n_ >= len(buf):
                    raise OOB(('O', oid), n_ if isinstance(n_, int) else -1, len(buf), e.get('l'))
                if buf[n_] != 0:
                    raise OOB(('O', oid), n_, len(buf), e.get('l'))          # length set past / before the terminator
                del buf[n_ + 1:]
                self.objlen[oid] = n_
                return ('OBJ', oid)
            if oid in self.strobjs and name == 'clear' and not e.get('a'):
                self.bufs[('O', oid)][:] = [0]
                self.objlen[oid] = 0
                return ('OBJ', oid)
            if oid in self.strobjs and name == 'indexOf' and 1 <= len(e.get('a', [])) <= 2:
                buf = self.bufs[('O', oid)]
                n_ = len(buf) - 1
                pat = self.val(e['a'][0])
                i0 = self.val(e['a'][1]) if len(e['a']) > 1 else 0
                if not isinstance(i0, int):
                    raise Unsupported('`%s`' % pe(e))
                if not 0 <= i0 <= n_:
                    raise OOB(('O', oid), i0, n_, e.get('l'))      # strstr / strchr from outside the text
                if isinstance(pat, tuple) and pat[0] == 'P':
                    needle = self.cstring(pat, e.get('l'))
                elif isinstance(pat, tuple) and pat[0] == 'STRV':
                    needle = list(pat[1])
                elif isinstance(pat, int):
                    needle = [pat]
                else:
                    raise Unsupported('`%s`' % pe(e))
                hay = [x & 255 if isinstance(x, int) else None for x in buf[:n_]]
                nd_ = [x & 255 for x in needle]
                for k_ in range(i0, n_ - len(nd_) + 1):
                    if hay[k_:k_ + len(nd_)] == nd_:
                        return k_
                return -1
            if oid in self.strobjs and name in ('substring', 'substr') and 1 <= len(e.get('a', [])) <= 2:
                buf = self.bufs[('O', oid)]
                n_ = len(buf) - 1
                a = [self.val(x) for x in e['a']]
                if not all(isinstance(x, int) for x in a):
                    raise Unsupported('`%s`' % pe(e))
                if name == 'substring':
                    i0, i1 = a[0], (a[1] if len(a) > 1 else n_)
                else:
                    i0 = a[0] + n_ if a[0] < 0 else a[0]
                    i0 = min(i0, n_)
                    i1 = min(i0 + a[1], n_) if len(a) > 1 else n_
                if i1 < i0 or i0 < 0 or i1 > n_ + 1:
                    raise OOB(('O', oid), i1 if i1 > n_ else i0, n_, e.get('l'))
                return ('STRV', tuple(buf[i0:i1]))
            if oid not in self.strobjs and (name == 'operator=' or e.get('op') == '=') and len(e.get('a', [])) == 1:
                # Array handle assignment: the receiver becomes another handle on the argument's elements (asl arrays share storage)
                sv = self.val(e['a'][0])
                src_ = sv[1] if isinstance(sv, tuple) and sv[0] == 'P' and isinstance(sv[1], tuple) and sv[1][0] == 'O' and sv[2] == 0 and sv[1] in self.bufs else None
                if src_ is None or src_[1] in self.strobjs:
                    raise Unsupported('`%s`' % pe(e))
                ro = strip_lv(e['obj'])
                while ro.get('k') in ('temp', 'paren', 'cast'):
                    ro = strip_lv(ro['e'])
                if ro.get('k') == 'mem' and _on_this(ro) and ro.get('f') in self.mems:
                    self.mems[ro['f']] = ('P', src_, 0)
                elif ro.get('k') == 'var':
                    self.bufs[('O', ro['id'])] = self.bufs[src_]
                    self.objlen[ro['id']] = self.objlen.get(src_[1], len(self.bufs[src_]))
                else:
                    raise Unsupported('`%s`' % pe(e))
                return ('P', src_, 0)
            if oid not in self.strobjs and name == 'clone' and not e.get('a'):
                # Array::clone(): a new array with its own copy of the elements
                self._anon = getattr(self, '_anon', 0) + 1
                nid = 'clone%d' % next(_UNIQ)
                self.bufs[('O', nid)] = list(self.bufs[('O', oid)])
                self.objlen[nid] = self.objlen.get(oid, len(self.bufs[('O', oid)]))
                return ('P', ('O', nid), 0)
            if oid not in self.strobjs and (e.get('op') == '<<' or name in ('operator<<', 'append')) and len(e.get('a', [])) == 1:
                v_ = self.val(e['a'][0])
                if isinstance(v_, (int, float)):
                    # one element appended to a modelled array
                    buf_ = self.bufs[('O', oid)]
                    del buf_[self.objlen.get(oid, len(buf_)):]
                    buf_.append(v_)
                    for k_ in list(self.bufs):
                        if isinstance(k_, tuple) and k_[0] == 'O' and self.bufs[k_] is buf_:
                            self.objlen[k_[1]] = len(buf_)           # every handle on this storage sees the new length
                    return ('OBJ', oid)
                raise Unsupported('`%s` appends something that is not a scalar' % pe(e))
            if oid not in self.strobjs and name in ('clear', 'resize') and len(e.get('a', [])) <= 1:
                # Array object: clear() / resize(n) change the element count (new elements are zero)
                buf = self.bufs[('O', oid)]
                n_ = self.val(e['a'][0]) if e.get('a') else 0
                if not isinstance(n_, int) or n_ < 0:
                    raise OOB(('O', oid), n_ if isinstance(n_, int) else -1, len(buf), e.get('l'))
                if n_ < len(buf):
                    del buf[n_:]
                else:
                    buf.extend([0] * (n_ - len(buf)))
                self.objlen[oid] = n_
                return ('OBJ', oid)
            if oid in self.strobjs and (e.get('sig') or '').endswith('const') and [g for g in self.prog.fn(fn, e.get('sig')) if g.get('body')] and self.depth < 6:
                # any other const member of String on a modelled string: interpreted from its body with that string as `this`
                g = [g for g in self.prog.fn(fn, e.get('sig')) if g.get('body')][0]
                sp = ('P', ('O', oid), 0)
                sub = Run(self.prog, g, self.bufs, depth=self.depth + 1, budget=self.budget, growable=self.growable, mems={'_len': len(self.bufs[('O', oid)]) - 1},
                          methods={'*': 'interp'}, call_ptrs={'str': sp, 'data': sp}, externs=self.externs, objects=True)
                sub.recs = self.recs
                sub.strobjs |= self.strobjs
                sub.listsinks, sub.dicts = self.listsinks, self.dicts
                self.bind_args(sub, g, fn, [self.pass_arg(self.val(a)) for a in e.get('a', [])])
                return sub.run()
            raise Unsupported('member call `%s` on a modelled object' % pe(e))
        if e.get('obj') is not None or e.get('clsp'):
            # whose member is it?  the current object, the object of an outer run handed down as an argument, or a modelled record
            rv = None
            if e.get('obj') is not None and not self.recv_is_this(e['obj']):
                ro = strip_lv(e['obj'])
                while ro.get('k') in ('paren', 'cast', 'temp'):
                    ro = strip_lv(ro['e'])
                if ro.get('k') == 'var':
                    rv = self.vars.get(ro.get('id'))
                elif self.objects and ro.get('k') in ('call', 'construct') and T(self.f, ro.get('t')).get('rec') in self.prog.records and self.record_class_has_bodies(T(self.f, ro.get('t')).get('rec')):
                    rv = self.val(ro)
            if isinstance(rv, tuple) and rv[0] == 'THISOF' and rv[1] is not self:
                args = [self.pass_arg(self.val(a)) for a in e.get('a', [])]
                return rv[1].call_member(e, fn, name, args)
            if self.objects and isinstance(rv, tuple) and rv[0] == 'R' and rv[1] in self.recs and self.prog.fn(fn, e.get('sig')):
                args = [self.pass_arg(self.val(a)) for a in e.get('a', [])]
                return self.call_record_member(rv[1], e, fn, args)
            if e.get('obj') is None or self.recv_is_this(e['obj']):
                if name in self.call_ptrs and not e.get('a'):
                    return self.call_ptrs[name]
                if self.methods.get(name) is not None or self.methods.get('*') == 'interp':
                    pend = self.ref_bindings(e, fn) if not callable(self.methods.get(name)) else None
                    args = []
                    g0 = [g_ for g_ in self.prog.fn(fn, e.get('sig')) if g_.get('body')]
                    for j_, a in enumerate(e.get('a', [])):
                        if pend and g0 and j_ < len(g0[0]['params']) and g0[0]['params'][j_]['id'] in pend:
                            args.append(None)           # bound by reference: the value is read through the box
                        else:
                            args.append(self.val(a))
                    self._pending_refs = pend
                    return self.call_member(e, fn, name, args)
            if name in self.call_ptrs and not e.get('a'):
                return self.call_ptrs[name]
            raise Unsupported('member call `%s`' % pe(e))
        if self.depth > 4:
            raise Unsupported('call depth')
        cands = [g for g in self.prog.fn(fn, e.get('sig')) if g.get('body')]
        if not cands:
            raise Unsupported('call of %s' % fn)
        g = cands[0]
        sub = Run(self.prog, g, self.bufs, depth=self.depth + 1, budget=self.budget, growable=self.growable, externs=self.externs, objects=self.objects)
        sub.transparent = self.transparent
        sub.listsinks, sub.dicts = self.listsinks, self.dicts
        sub.recs = self.recs                # records a helper builds (and returns) stay reachable in the caller
        for p_, a in zip(g['params'], e.get('a', [])):
            ao = strip_lv(a)
            if self.objects and ao.get('k') == 'var' and ('O', ao.get('id')) in self.bufs and T(g, p_['t']).get('ref'):
                # a modelled object passed by reference: the parameter names the same object
                self.bufs[('O', p_['id'])] = self.bufs[('O', ao['id'])]
                sub.objlen[p_['id']] = self.objlen.get(ao['id'], 0)
                if ao['id'] in self.strobjs:
                    sub.strobjs.add(p_['id'])
                continue
            if self.bind_ref(sub, g, p_, a):
                continue
            pt_ = T(g, p_['t'])
            to_ = T(g, pt_.get('to')) if pt_.get('ref') else {}
            if pt_.get('ref') and not to_.get('const') and (to_.get('int') or to_.get('ptr') or to_.get('flt')):
                raise Unsupported('non-const reference parameter `%s` of %s bound to an lvalue the interpreter cannot share' % (p_.get('n'), g.get('q')))
            av = self.val(a)
            if isinstance(av, tuple) and av[0] == 'SLIST' and av[1] in self.listsinks:
                self.listsinks[p_['id']] = self.listsinks[av[1]]
                continue
            if isinstance(av, tuple) and av[0] == 'DICT' and av[1] in self.dicts:
                self.dicts[p_['id']] = self.dicts[av[1]]
                continue
            if isinstance(av, tuple) and av == ('THIS',):
                # the current object handed to a helper (`nextCut(*this, sep, i)`): members called on that parameter are
                # members of the same object
                sub.mems, sub.methods, sub.call_ptrs, sub.ignore = self.mems, self.methods, self.call_ptrs, self.ignore
                sub.strobjs |= self.strobjs
                sub.listsinks = self.listsinks
            sub.vars[p_['id']] = wrap(av, T(g, p_['t']))
        return sub.run()

    # ------------------------------------------------------------ statements
    def decl(self, v):
        tv = T(self.f, v['t'])
        if tv.get('n') is not None and not tv.get('ptr') and (tv.get('arr') is not None or tv.get('to') is not None or tv.get('el') is not None):
            name = ('A', v['id'])
            self.bufs[name] = [0] * tv['n']
            ini = strip(v.get('init') or {})
            if ini.get('k') == 'initlist':
                for j, it in enumerate(ini.get('items', [])[:tv['n']]):
                    self.bufs[name][j] = self.val(it)
            elif ini.get('k') == 'str':
                for j, b in enumerate(ini['b'][:tv['n']]):
                    self.bufs[name][j] = b
            return
        if (tv.get('recp') or '') in self.transparent or (tv.get('rec') or '').split('<')[0] in self.transparent:
            # a bit-reinterpreting wrapper (AsOther<A, B>): the object stands for the value it was built from
            ini = strip(v.get('init') or {})
            if ini.get('k') == 'construct' and len(ini.get('a', [])) == 1:
                self.vars[v['id']] = self.val(ini['a'][0])
                self.transparent_vars.add(v['id'])
                return
            raise Unsupported('local %s of type %s' % (v['n'], tv.get('s')))
        if self.objects and v.get('init') is not None and (tv.get('rec') == 'asl::String' or (tv.get('ref') and T(self.f, tv.get('to')).get('rec') == 'asl::String')):
            # a String local (or reference) initialised from a text value - an element of a modelled array, a substring, another
            # modelled string: a string object of its own holding that text
            ini_ = strip(v['init'])
            is_len_ctor = ini_.get('k') == 'construct' and ini_.get('a') and all(T(self.f, strip_lv(a).get('t')).get('int') for a in ini_['a'])
            io_ = strip_lv(v['init'])
            while io_.get('k') in ('cast', 'temp', 'paren'):
                io_ = strip_lv(io_['e'])
            aliases_obj = io_.get('k') == 'var' and ('O', io_.get('id')) in self.bufs
            if not is_len_ctor and not (tv.get('ref') and aliases_obj) and not (ini_.get('k') == 'construct' and not ini_.get('a')):
                try:
                    tv_ = self.val(v['init'])
                    chars = self.text_of(tv_, v.get('l'))
                except Unsupported:
                    chars = None
                if chars is not None:
                    self.bufs[('O', v['id'])] = list(chars) + [0]
                    self.objlen[v['id']] = len(chars)
                    self.strobjs.add(v['id'])
                    return
        if self.objects and tv.get('ref') and v.get('init') is not None:
            io = strip_lv(v['init'])
            while io.get('k') in ('cast', 'temp', 'paren'):
                io = strip_lv(io['e'])
            if io.get('k') == 'var' and ('O', io.get('id')) in self.bufs:
                # a local reference to a modelled object names the same object
                self.bufs[('O', v['id'])] = self.bufs[('O', io['id'])]
                self.objlen[v['id']] = self.objlen.get(io['id'], 0)
                if io['id'] in self.strobjs:
                    self.strobjs.add(v['id'])
                return
        if self.objects and not tv.get('ref') and not tv.get('ptr') and (tv.get('rec') or '').replace(' ', '') == 'asl::Array<asl::String>':
            # an array of strings: a list of texts (initialised empty, or a second handle on the list an expression yields)
            if v.get('init') is None or (strip(v['init']).get('k') == 'construct' and not strip(v['init']).get('a')):
                self.listsinks[v['id']] = []
                return
            rv = self.val(v['init'])
            if isinstance(rv, tuple) and rv[0] == 'SLIST' and rv[1] in self.listsinks:
                self.listsinks[v['id']] = self.listsinks[rv[1]]
                return
            raise Unsupported('local %s of type %s' % (v['n'], tv.get('s')))
        if self.objects and not tv.get('ref') and not tv.get('ptr') and tv.get('recp') in ('asl::Dic', 'asl::Map', 'asl::HashDic') and (tv.get('rec') or '').replace(' ', '') in ('asl::Dic<asl::String>', 'asl::Map<asl::String,asl::String>', 'asl::HashDic<asl::String>'):
            if v.get('init') is None or (strip(v['init']).get('k') == 'construct' and not strip(v['init']).get('a')):
                self.dicts[v['id']] = {}
                return
            rv = self.val(v['init'])
            if isinstance(rv, tuple) and rv[0] == 'DICT' and rv[1] in self.dicts:
                self.dicts[v['id']] = self.dicts[rv[1]]
                return
            raise Unsupported('local %s of type %s' % (v['n'], tv.get('s')))
        if self.objects and (tv.get('rec') == 'asl::String' or tv.get('recp') == 'asl::Array'):
            # a local string / array constructed with a length: a zero-filled buffer of that many elements (+1: the NUL
            # of a String), bounds-checked like any other buffer
            ini = strip(v.get('init') or {})
            args = ini.get('a', []) if ini.get('k') == 'construct' else None
            if tv.get('rec') == 'asl::String' and (v.get('init') is None or (args is not None and len(args) == 0)):
                self.bufs[('O', v['id'])] = [0]           # default-constructed: the empty string
                self.objlen[v['id']] = 0
                self.strobjs.add(v['id'])
                return
            if tv.get('recp') == 'asl::Array' and v.get('init') is not None:
                # initialised from another modelled array: a second handle on the same elements (asl arrays share storage), or
                # from clone(): its own copy
                io = strip_lv(v['init'])
                while io.get('k') in ('cast', 'temp', 'paren') or (io.get('k') == 'construct' and len(io.get('a', [])) == 1 and T(self.f, strip_lv(io['a'][0]).get('t')).get('recp') == 'asl::Array'):
                    io = strip_lv(io['a'][0] if io.get('k') == 'construct' else io['e'])
                src_ = None
                if io.get('k') == 'var' and ('O', io.get('id')) in self.bufs:
                    src_ = ('O', io['id'])
                elif io.get('k') == 'call' and io.get('obj') is not None and self.obj_of(io) is not None:
                    rv = self.val(io)
                    if isinstance(rv, tuple) and rv[0] == 'P' and rv[1] in self.bufs and rv[2] == 0:
                        src_ = rv[1]
                    elif isinstance(rv, tuple) and rv[0] == 'OBJ':
                        src_ = ('O', rv[1])
                if src_ is not None:
                    self.bufs[('O', v['id'])] = self.bufs[src_]
                    self.objlen[v['id']] = len(self.bufs[src_])
                    return
            if args is not None and 1 <= len(args) <= 2 and all(T(self.f, strip_lv(a).get('t')).get('int') for a in args):
                n_ = self.val(args[-1])
                if isinstance(n_, int) and n_ < 0:
                    raise OOB(('O', v['id']), n_, 0, v.get('l'))          # a string / array of negative length
                if isinstance(n_, int) and 0 <= n_ < (1 << 20):
                    name = ('O', v['id'])
                    # (an Array of n scalars is not initialised by its constructor; String(n, ..) buffers are written by the caller)
                    self.bufs[name] = [0] * (n_ + 1) if tv.get('rec') == 'asl::String' else [UNINIT] * n_
                    self.objlen[v['id']] = n_
                    if tv.get('rec') == 'asl::String':
                        self.strobjs.add(v['id'])
                        if len(args) == 2:
                            c_ = self.val(args[0])
                            if isinstance(c_, int) and 0 <= c_ < (1 << 20):
                                self.strcap[v['id']] = max(c_ + 1, 16)     # String(cap, n): inline space or a block of at least cap + 1 bytes
                    return
            raise Unsupported('local %s of type %s' % (v['n'], tv.get('s')))
        if self.objects and tv.get('rec') and not tv.get('ref') and not tv.get('ptr') and tv.get('rec') in self.prog.records and self.record_class_has_bodies(tv['rec']) and v.get('init') is not None:
            # a local of a small record class (an enumerator / cursor): a modelled record, constructed by its own constructor or
            # copied from the record an expression yields
            ini = strip(v['init'])
            while ini.get('k') in ('temp', 'paren', 'cast') or (ini.get('k') == 'construct' and len(ini.get('a', [])) == 1 and T(self.f, strip_lv(ini['a'][0]).get('t')).get('rec') == tv['rec'] and (ini.get('cls') == tv['rec'])):
                ini = strip(ini['a'][0] if ini.get('k') == 'construct' else ini['e'])
            if ini.get('k') == 'construct' and ini.get('cls') == tv['rec']:
                name = self.new_record(tv['rec'], ctor_expr=ini)
            else:
                rv = self.val(ini)
                if not (isinstance(rv, tuple) and rv[0] == 'R' and rv[1] in self.recs):
                    raise Unsupported('local %s of type %s' % (v['n'], tv.get('s')))
                name = self.new_record(tv['rec'], copy_of=rv[1])
            self.vars[v['id']] = ('R', name)
            return
        trivial_ = v.get('init') is None or (strip(v['init']).get('k') == 'construct' and strip(v['init']).get('trivial') and not strip(v['init']).get('a'))
        if trivial_ and tv.get('rec') and not tv.get('ref') and not tv.get('ptr') and not tv['rec'].startswith('asl::') and \
                not self.record_class_has_bodies(tv['rec']):
            # a local plain structure (struct timespec, ...) without initialiser: a record whose fields are indeterminate
            name = 'pod%d' % next(_UNIQ)
            self.recs[name] = PodRecord()
            self.vars[v['id']] = ('R', name)
            return
        if v.get('init') is not None and tv.get('rec') and not tv.get('ref') and not tv.get('ptr') and not tv['rec'].startswith('asl::') and \
                not self.record_class_has_bodies(tv['rec']):
            # a plain structure initialised from an expression that yields one (`const timespec to = deadline(t);`): a copy
            ini_ = strip(v['init'])
            while ini_.get('k') in ('temp', 'paren', 'cast') or (ini_.get('k') == 'construct' and len(ini_.get('a', [])) == 1):
                ini_ = strip(ini_['e'] if ini_.get('k') != 'construct' else ini_['a'][0])
            rv = self.val(ini_)
            if isinstance(rv, tuple) and rv[0] == 'R' and rv[1] in self.recs:
                name = 'pod%d' % next(_UNIQ)
                self.recs[name] = PodRecord(self.recs[rv[1]])
                self.vars[v['id']] = ('R', name)
                return
            raise Unsupported('local %s of type %s' % (v['n'], tv.get('s')))
        if v.get('init') is None:
            if tv.get('int') or tv.get('ptr'):
                self.vars.pop(v['id'], None)
                return
            raise Unsupported('local %s of type %s' % (v['n'], tv.get('s')))
        if tv.get('ref') and v.get('init') is not None and (T(self.f, tv.get('to')).get('ptr') or T(self.f, tv.get('to')).get('int')) and not T(self.f, tv.get('to')).get('const'):
            # a reference local bound to a slot of a buffer (`KeyValN*& head = a[i];`): reads and writes go to that slot
            try:
                l_ = self.lv(v['init'])
            except Unsupported:
                l_ = None
            if l_ is not None and l_[0] == 'buf' and isinstance(l_[1], tuple) and l_[1][0] == 'P' and l_[1][1] in self.bufs and isinstance(l_[1][2], int):
                self.boxed[v['id']] = (l_[1][1], l_[1][2])
                return
            if l_ is not None and l_[0] == 'var' and l_[1] in self.boxed:
                self.boxed[v['id']] = self.boxed[l_[1]]
                return
            raise Unsupported('local %s of type %s' % (v['n'], tv.get('s')))
        if tv.get('ref') and T(self.f, tv.get('to')).get('rec') and v.get('init') is not None:
            # a reference local bound to a modelled record (`Data& h = d();`)
            rv = self.val(v['init'])
            if isinstance(rv, tuple) and rv[0] == 'R' and rv[1] in self.recs:
                self.vars[v['id']] = rv
                return
            raise Unsupported('local %s of type %s' % (v['n'], tv.get('s')))
        if not (tv.get('int') or tv.get('ptr') or tv.get('flt')):
            raise Unsupported('local %s of type %s' % (v['n'], tv.get('s')))
        self.boxed.pop(v['id'], None)
        self.vars[v['id']] = wrap(self.val(v['init']), tv)

    def stmt(self, s):
        self.tick()
        if s is None:
            return
        k = s.get('k')
        if self.ignore is not None and k in ('expr', 'decl', 'for', 'while', 'return') and self.ignore(s):
            if k == 'return':
                raise _Return(None)
            return
        if k == 'block':
            for x in s['s']:
                self.stmt(x)
            return
        if k == 'decl':
            for v in s['vars']:
                self.decl(v)
            return
        if k == 'expr':
            self.val(s['e'])
            return
        if k == 'if':
            if s.get('init'):
                self.stmt(s['init'])
            if s.get('cv'):
                self.decl(s['cv'])
            if self.truth(s['c']):
                self.stmt(s['then'])
            elif s.get('else') is not None:
                self.stmt(s['else'])
            return
        if k in ('for', 'while'):
            if s.get('init') is not None:
                self.stmt(s['init'])
            while True:
                if s.get('cv'):
                    self.decl(s['cv'])
                if s.get('c') is not None and not self.truth(s['c']):
                    break
                try:
                    self.stmt(s['body'])
                except _Break:
                    break
                except _Continue:
                    pass
                if s.get('inc') is not None:
                    self.val(s['inc'])
            return
        if k == 'do':
            while True:
                try:
                    self.stmt(s['body'])
                except _Break:
                    break
                except _Continue:
                    pass
                if not self.truth(s['c']):
                    break
            return
        if k == 'switch':
            if s.get('init'):
                self.stmt(s['init'])
            v = self.val(s['c'])
            body = s['body']['s'] if s['body'].get('k') == 'block' else [s['body']]
            flat = []
            for st in body:
                labels = []
                x = st
                while x.get('k') in ('case', 'default'):
                    labels.append('default' if x['k'] == 'default' else (x.get('v'), x.get('v2')))
                    x = x['sub']
                flat.append((labels, x))
            start = None
            for i, (labels, _) in enumerate(flat):
                for l in labels:
                    if l != 'default' and l[0] is not None and (l[0] <= v <= l[1] if l[1] is not None else v == l[0]):
                        start = i
                        break
                if start is not None:
                    break
            if start is None:
                for i, (labels, _) in enumerate(flat):
                    if 'default' in labels:
                        start = i
                        break
            if start is None:
                return
            try:
                for _, x in flat[start:]:
                    self.stmt(x)
            except _Break:
                pass
            return
        if k == 'return':
            raise _Return(self.val(s['e']) if s.get('e') is not None else None)
        if k == 'break':
            raise _Break()
        if k == 'continue':
            raise _Continue()
        if k in ('null', 'empty'):
            return
        if k in ('case', 'default', 'label'):
            self.stmt(s.get('sub'))
            return
        raise Unsupported('statement kind %s' % k)

    def run(self):
        try:
            # constructor: the written member initialisers of scalar members run first (`: _type(t), _len(0)`)
            for ini in (self.f.get('inits') or []):
                if ini.get('written') and ini.get('field') and isinstance(ini.get('e'), dict):
                    ft = T(self.f, ini.get('ft'))
                    if ft.get('int') or ft.get('ptr') or ft.get('flt') or ft.get('bool') or ft.get('enum'):
                        self.mems[ini['field']] = wrap(self.val(ini['e']), ft)
            self.stmt(self.f['body'])
        except _Return as r:
            return r.v
        except (_Break, _Continue):
            raise Unsupported('break/continue outside a loop')
        return None


# ---------------------------------------------------------------------------------------------- byte classes

def byte_classes(prog, f, signed, width=8):
    """Partition of the input element values by the single-variable conditions of f.  -> sorted representatives (non-zero)"""
    conds = []
    for e in fn_exprs(f):
        if e.get('k') == 'bin' and e.get('op') in ('==', '!=', '<', '>', '<=', '>='):
            vs = set(w['id'] for w in walk_expr(e) if w.get('k') == 'var' and w.get('vk') in ('local', 'param') and T(f, w.get('dt') or w.get('t')).get('int'))
            if len(vs) == 1 and not any(w.get('k') in ('call', 'mem', 'idx') or (w.get('k') == 'un' and w.get('op') in ('*', 'post++', 'pre++', 'post--', 'pre--')) for w in walk_expr(e)):
                conds.append((e, list(vs)[0]))
    lo, hi = (-(1 << (width - 1)), (1 << (width - 1))) if signed else (0, 1 << width)
    if width > 8:
        # wide units: representatives around every constant of the conditions
        ks = set([1, hi - 1])
        for e, _ in conds:
            for w in walk_expr(e):
                if w.get('k') == 'int' and const_val(w) is not None:
                    ks |= {const_val(w) - 1, const_val(w), const_val(w) + 1}
        return sorted(k for k in ks if lo <= k < hi and k != 0), len(conds)
    sig = {}
    for b in range(lo, hi):
        row = []
        for e, vid in conds:
            try:
                row.append(bool(bytesets.Evaluator(prog, f, {vid: b}).ev(e)))
            except bytesets.Undecidable:
                row.append(None)
        sig.setdefault(tuple(row), []).append(b)
    reps = sorted(v[0] if v[0] != 0 else (v[1] if len(v) > 1 else 0) for v in sig.values())
    return [r for r in reps if r != 0], len(conds)


def strings(reps, maxlen):
    import itertools
    for n in range(0, maxlen + 1):
        for s in itertools.product(reps, repeat=n):
            yield list(s)
