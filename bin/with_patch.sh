#!/bin/bash
# usage: bin/with_patch.sh <patch.diff> <command...>   (development aid)
# Runs a command with ASL_REPO pointing at a scratch worktree of /repo with the patch applied; removes the worktree afterwards.
set -u
PATCH=$(readlink -f "$1"); shift
WT=$(mktemp -d /tmp/asl_try.XXXXXX)
rmdir "$WT"
for attempt in 1 2 3 4 5 6; do git -C /repo worktree add -q --detach "$WT" HEAD 2>/dev/null && break; sleep 0.$((RANDOM % 9 + 1)); done
[ -d "$WT" ] || exit 3
trap 'git -C /repo worktree remove --force "$WT" >/dev/null 2>&1; rm -rf "$WT"' EXIT
if ! git -C "$WT" apply "$PATCH"; then echo "PATCH DOES NOT APPLY"; exit 3; fi
ASL_REPO="$WT" ASL_EVIDENCE_DIR="$WT/.evidence" "$@" 2>&1 | sed "s#$WT#/repo#g"
exit ${PIPESTATUS[0]}
