#!/usr/bin/env python3
"""Regenerates /verif/MANIFEST.json from the table below (claimed checks) and properties.jsonl."""
import json, os
V = os.path.dirname(os.path.dirname(os.path.abspath(__file__)))

CLAIMED = {
 'C05': dict(
  text='Static decision of the structural clauses of the JSON/XDL round trip: for every byte value the text the encoder emits (extracted case '
       'table and byte set of its control-character branch) is driven through the interpreted decoder transitions from the string-value and '
       'the quoted-key state and must give back exactly that byte; controls/quote/backslash always escaped; default number formats carry '
       '17/9 significant digits; reserve >= snprintf size >= widest text of every format used; non-finite guard; int path bounded to 9 digits; '
       'encoder type dispatch exhaustive; final flush, file sink, BOM probe outside the chunk loop. Bit-exact number recovery is not decided.',
  technique='extraction of the encoder escape table + byte sets, run through the abstractly interpreted decoder transition function for all 255 bytes; constant/width table evaluation; CFG must-pass (final flush); tag exhaustiveness; per-byte emission table of the escaper by guard/argument evaluation (emit.py); a corpus of JSON/XDL documents driven through the interpreted decoder machine (accepting run); chunk rule of the parser (C06.chunks) and raw-key-append rule of the encoder; SIMPLE-flag evaluation over all mode values, room for the chunk terminator; C05.exact who-may-call rule for number conversion, C05.realtext no-append-after-printf path rule',
  ref='DESIGN.md section 3 C05'),
 'C07': dict(
  text='Abstract interpretation of the Xml::decode loop over every reachable (state, last state, open-element stack) and byte class: no '
       'popget() with only the root placeholder open, no top() of an empty stack, look-behind within consumed input (reports carry a witness '
       'input, e.g. "</>" on the original tree); state-dispatch exhaustiveness; children attached only through the parent-linking operator; '
       'the encoder escapes every byte the decoder treats specially in text and double-quoted attribute values and the decoder\'s entity table '
       'inverts the names written; scratch buffer of character references holds the longest sequence. Tree equality after a round trip is not decided.',
  technique='abstract interpretation of the decoder transition function (worklist fixpoint), exhaustiveness and single-writer queries, escape/entity table agreement over the resolved AST; per-byte emission table of the escaper by guard/argument evaluation (emit.py); a corpus of XML documents through the interpreted decoder machine with an open/text/close event log; literal-read bound rule (R-LITREAD) with a self-test fixture; counting loops over followed texts executed concretely; longest output of the encoder from its interpreted body; no block read through the cursor; C07.selfclose truth table of the self-closing guards',
  ref='DESIGN.md section 3 C07'),
 'C06': dict(
  text='Abstract interpretation of the JSON/XDL parser loop over every reachable abstract configuration (state, previous state, comment flag, '
       'escape counter, context stack with per-object pending-name count) and every non-NUL byte (byte classes of the atomic guards): no pop of '
       'the ROOT context, no top() of an empty stack, values stored into objects only with a pending name, context/value-list pairing, every \\u '
       'escape completes, push-back terminates; plus state-dispatch exhaustiveness, the acceptance condition of value()/decode(), and the '
       'structural chunk-independence conditions (no look-ahead through the cursor, no per-call state). Reports carry a witness input. '
       'Agreement with an independent JSON parser is not decided.',
  technique='abstract interpretation of the parser transition function (worklist fixpoint over finite abstract configurations x byte classes), exhaustiveness and dominance queries on the resolved AST; guard evaluation of value() over all (state, context) pairs and of the integer-conversion sites over literal lengths; a corpus of 35 documents through the machine: accepting run and rejection of every proper prefix (depth <= K); parser freshness of the decode entry points (C06.fresh), value constructors by the C04 rules, cursor used by the byte loop only; all two-character escapes and a raw DEL in the corpus, C-library character classes evaluated by the machine',
  ref='DESIGN.md section 2 R-AUTOMATON, section 3 C06'),
 'C09': dict(
  text='Static decision of the structural clauses of HTTP request parsing: on every path through HttpRequest::read the path is percent-decoded '
       'and then stripped of ".." with nothing decoding or rewriting it afterwards (typestate over the CFG), no other writer of the path, file '
       'server uses only request.path(), every constant index into a split() result is dominated by a length test (evaluated for all shorter '
       'lengths), query cut only before the fragment, look-ahead guards of Url::decode/Url::Url, line cap and EOF exits of the readers, '
       'case-insensitive header keying and value extraction. Totality/promptness on all streams and body framing are not decided.',
  technique='CFG typestate dataflow (decode-then-sanitise ordering), single-writer query, dominating-guard implication checks evaluated over the finite index range, structural loop-exit queries; bounded guard evaluation of the look-ahead indices over (index, length) grids; writes-of-the-search-position rule for replace; interpretation of the line reader against scripted peers; query-string split model by interpretation (scansim); R-LITREAD; partial-transfer scripts of the blocking read (C09.partial), no second decode of the sanitised path, C08.casebytes for header values; R-PROGRESS zero-read walks of the transfer loops (C09.progress), C09.lookup const-subscript rule, folded-header typestate',
  ref='DESIGN.md section 3 C09'),
 'C11': dict(
  text='Static decision of the structural clauses of WebSocket framing: the 64-bit wire length reaches int only through a dominating range '
       'check, send/receive agree on the RFC 6455 header (length-form boundaries evaluated at 125/126/65535/65536, markers, widths, bit masks, '
       'network byte order), opcode coverage, message completion only on FIN data frames or close, per-frame payload buffer, 4 bytes of slack '
       'before word-wise unmasking, accept-key derivation with the RFC GUID, _clients under its mutex. '
       'Byte-identical in-order delivery for all sizes is not decided.',
  technique='dominating-guard (range check) queries, expression evaluation of header-form conditions at boundary values and over the opcode domain, constant/protocol table agreement over the resolved AST; header fields emitted for 13 lengths x both roles by guard/argument evaluation; opcode and (FIN, opcode) domains enumerated through the guards; unmask slack by evaluating grow/shrink/trip count per length; partial-transfer loops by a linear progress invariant; arrival-script interpretation of the liveness/receive path, send-state effect rule, payload index through pointers, frame-kept rule by fresh-query calls + dominators; per-iteration definite assignment of frame variables and reaching definitions at the length-form tests (C11.framevars)',
  ref='DESIGN.md section 3 C11'),
 'C14': dict(
  text='Static decision of the accept/serve/stop protocol shape: per accepted socket exactly one hand-over (inline serve or one handler thread) '
       'with the in-flight counter incremented before it on every path, handler and sequential branch run serve-close-decrement once in order '
       'with the decrement as last access to the server, _running cleared only under the observed stop request while leaving the loop, stop(true) '
       'waits on loop and counter, Thread objects deleted only after join, no self-delete in run() (recorded known finding for the handler thread), '
       'Socket_::close invalidates the handle. OS scheduling behaviour is not decided.',
  technique='CFG typestate dataflow (event-sequence per accepted socket, must-precede, join-before-delete), guard queries; positive-control fixture for the zero-expected rules; stop(): CFG typestate (no wait/accept after clearing the flag, every exit clears it) and branch evaluation of the wait loop for every (running, clients); accept receiver/guard must consult the list waitInput() filled; listener list rebuilt fresh per wait (C14.fresh); sibling-constructor initialisation agreement (R-CTORINIT), stop request not taken back, select() range evaluated for descriptor sequences (C14.nfds), receive loops stop at end of stream; stop request not cleared inside the threaded accept loop',
  ref='DESIGN.md section 3 C14'),
 'C13': dict(
  text='Static decision of the hand-over protocol shape behind run-exactly-once / join / finished(): trampolines order context copy, ready, '
       'user function and finished flag on every exit; creators wait for `ready` before the handed-over context dies and never store the '
       'finished flag after the OS thread exists (call-graph closure over copy/assign); parallel_for/parallel_invoke join everything they start; '
       'the worker count is evaluated over a grid (1 <= n <= min(threads, length)) and the partition fields/loop have the strided form; '
       'Semaphore/Condition are exact thin wrappers. Visibility under all schedules is not decided.',
  technique='CFG typestate dataflow for ordering/must-precede/join pairing with call-graph closure; expression evaluation of the worker-count formula over a finite grid; structural data-flow identities; counted-loop normal form + trip counts; 3-valued evaluation of wrapper return trees; early-return coverage over the (i0, length, threads) grid; ready-signal classification (plain store / atomic / unknown) with helper resolution (C13.handover), context owner rule, signal-must-wake rule, native-handle initialisation; every start() creates a thread (C13.start), timed-wait deadline interpreted on a (clock, timeout) grid (C13.deadline), hand-over record members by value, use() records the mutex on every path; timed waits report the native result; R-RETSELF, C13.named (no temporary function threads)',
  ref='DESIGN.md section 3 C13'),
 'C15': dict(
  text='Static decision of the structural clauses of the codec property: Base64 alphabet/inverse-table agreement on all 64 symbols and 6-bit '
       'index masking, hex nibble table, exact byte sets of Url::encode in both modes (% always escaped, & = + escaped in component mode, '
       'escape form inverted by the decoder), look-ahead of Url::decode dominated by its length guard, block-loop bounds of encodeBase64 / '
       'decodeHex / SHA1::update consuming exactly the full blocks, decodeBase64 bounded by the given length, padding counted across '
       'whitespace (byte-set of the scan condition), non-negative result length. SHA-1 = FIPS 180-4 on all messages is not decided.',
  technique='constant table evaluation, exact byte-set evaluation of guards (powerset-of-bytes domain), loop stride/bound agreement and dominating-guard queries over the resolved AST; bit provenance of Base64 group assembly; block-loop condition <=> offset+B<=length on a grid; SHA-1 block bookkeeping by interpretation of update()/end() with a recording transform() for every length; Url::encode emission table in both modes; SHA-1 padding for long message counts; query split model by interpretation; inverse mapping found as table or helper by evaluation, join() interpreted for the empty dictionary',
  ref='DESIGN.md section 3 C15'),
 'C08': dict(
  text='Static decision of the structural clauses of UTF conversion safety and standard form: NUL-guarded cursor advance in every converter '
       'and in count() (typestate over all CFG paths), the code-point enumerator never reports more bytes than it verified, bit-provenance '
       'evaluation of every encoder/decoder branch against the RFC 3629 layout (thresholds, lead patterns, position of every payload bit, '
       'surrogate constants), fixed output buffers hold the maximal output plus NUL, case tables cover every admitted index, keep ASCII in one '
       'byte, never grow, agree at the cut-over, and case-insensitive comparison does not shortcut on byte length. '
       'Exhaustive losslessness over all scalar values is not re-proved.',
  technique='typestate dataflow over CFGs (NUL-guarded scan), abstract interpretation in a bit-provenance domain (encoder/decoder layouts vs RFC 3629), constant table evaluation; R-SCAN by exhaustive interpretation over abstract strings of byte-class representatives (scansim); region-wise bit provenance (regions found by evaluating guards per representative code / lead byte); converter count-safety by interpretation + call-site termination rule; count()/case-insensitive compare/upper-lower conversion interpreted over abstract strings incl. result-length audit; heap destination capacity by evaluation; case mappings interpreted on ill-formed byte strings over the boundary alphabet (C08.casebytes)',
  ref='DESIGN.md section 3 C08'),
 'C03': dict(
  text='Static decision of the structural clauses behind String memory safety and integer conversion identity: no `const char*`/`const String&` '
       'argument (possibly the string itself or a piece of it) is used after the buffer was released or moved except through the offset re-basing '
       'idiom (with summaries through operator=, +=, <<), overlapping self-copies use memmove, every numeric constructor\'s capacity choice covers '
       'the widest text of the values admitted on each branch (interval arithmetic over the threshold constants, printf width table), the '
       'integer-to-text helpers exclude the minimum value before negating, vsnprintf retry loops treat n == size as truncated. '
       'Agreement with a byte-string model for search/replace/split is not decided.',
  technique='alias-after-invalidate typestate dataflow with call-graph summaries; constant/interval evaluation of capacity thresholds against a printf width table; dominating-guard checks; guard evaluation over the extreme values for signed negations; whole-body interpretation (scansim) of numeric constructors against a capacity table, number formatting/parse-back, split/split-to-Dic, trim over a small alphabet, va_list reuse rule, R-LITREAD; search members against find/rfind with stale bytes behind the terminator (C03.find); C03.inplace interpretation of replaceme, C03.assignlen must-store-length path rule, R-RETSELF',
  ref='DESIGN.md section 3 C03'),
 'C04': dict(
  text='Static decision of the structural clauses behind Var copy/assign/clone safety: tag dispatch of copy/free/operator=/clone covers exactly the '
       'heap-owning tags (read from isPod) with agreeing tag-to-union-member mapping, operator== covers every value-carrying tag, no `const Var&` '
       'argument (possibly an element/property of *this) is used after *this released or modified its containers (with summaries of the '
       'Array<Var>/Dic<Var> members it forwards to), clone() detaches before deep-cloning children, copies into the inline string buffer are '
       'length-guarded. Value fidelity of accessors and numeric equality are not decided.',
  technique='exhaustive tag-dispatch agreement over the resolved AST, alias-after-invalidate typestate dataflow with interprocedural summaries, dominating-guard bound check; guard evaluation over small grids with path-sensitive CFG confirmation (inline buffer), conversion-chain range check over a grid of stored doubles, handle-copy query for the string buffer; string-representation writers by (partial) interpretation of every writer of the tag/inline buffer/heap pointer (C04.strrep), container-handle rule (C04.handles), numeric equality model; range guards of removeAt on a grid (C04.range), toString() interpreted for numeric extremes (C04.tostring); key-search rule of the sorted map (C02.map) on the Dic<Var> instantiation; C04.neq truth table of operator!= against operator==, object-literal parameters in R-ALIAS',
  ref='DESIGN.md section 3 C04'),
 'C02': dict(
  text='Static decision of the structural clauses of the finite-map property on every instantiated member of HashMap/HashDic/Set/Map: chain '
       'unlink re-links the successor and decrements the count on all paths, equality is lookup-based (order independent), every table size is '
       '2^k+SKIP with binOf/rehash mask agreement, rehash re-links every node and restores the count, no bucket index or chain pointer survives a '
       'table replacement, HashMap handle refcount protocol, Map inserts at the decoded indexOf position, comparators do not subtract integers, Set is thin. '
       'Correctness of the hand-written binary search is not decided.',
  technique='CFG typestate dataflow (unlink/re-link, stale table-derived values), constant evaluation of table geometry, guard/dominance queries over instantiated templates; evaluation of the bucket-enumerator range against the array length; chain-removal and rehash models by interpretation of the instantiated members (int keys), R-ALIAS for Map; dup() as re-insertion or checked chain copy (C02.dup), size shortcuts of the set predicates on a size grid (C02.sizecut), copy-and-swap assignment modelled in R-RC; who may size the bucket array (C02.tablesize), String key order by interpretation (C02.order); R-EQRANGE for Map::operator==, C02.setpair size-grid evaluation of operand selections, R-RETSELF',
  ref='DESIGN.md section 3 C02'),
 'C01': dict(
  text='Static decision, on every instantiated member of Array/Stack/Queue for int, String, Var and nested-array elements, of the structural '
       'clauses behind memory safety and exactly-once element lifetime: no argument that may alias an element is used after the storage was '
       'released or moved (R-ALIAS, with interprocedural summaries), no re-read of an argument array\'s live length after a self-resize (R-SELFARG), '
       'no element reference held across element writes (R-ELEMREF), the reference-count protocol of the handle (R-RC a-f), construct/destroy '
       'pairing with every count change on all CFG paths, Stack/Queue thinness. Sequence-model equality over histories is not decided.',
  technique='typestate dataflow over CFGs of clang-instantiated template members (alias-after-invalidate, refcount protocol, element lifetime pairing) with call-graph fixpoint summaries; R-CAP allocation/capacity typestate with stable branch facts; linear forms with opaque atoms for tail moves; element-pointer arguments (append/copy of a pointer into the array itself), handle re-bind rule (C01.rebind); reallocation only when the element does not fit (C01.fits, guards on a grid); R-SELFARG through forwarded arguments, R-ALIAS on Stack/Queue, R-EQRANGE (equality executed for lengths 0..4), R-RETSELF',
  ref='DESIGN.md section 3 C01'),
 'C16': dict(
  text='Static decision of the structural clauses of the canonical-bytes property for every instantiated stream operator: '
       'byte counts of raw transfers carry the element size (R-UNITS), every scalar operator moves exactly sizeof(T) bytes and swaps '
       'iff the re-read byte-order member equals the non-native order, both branches of array writers emit length*sizeof(T), '
       'StreamBufferReader byte/shift tables, swapBytes reversal. Value identity per bit pattern is not decided.',
  technique='custom AST checker over clang-resolved template instantiations (units rule, sibling agreement, constant byte/shift table evaluation); byte-provenance interpretation of the reader (byteprov), cell-level interpretation of swapBytes and swap-free writers (cellsim), bit provenance with a mixed-bit marker for arithmetic swaps, per-byte-order guard evaluation of swap/array paths, linear progress invariant of the partial-transfer loops; read-n / file-read / raw-scalar transfer rules, array writers interpreted with token elements; byte-order members initialised by every constructor and refreshed by setEndian() (C16.order), R-ALIAS for StreamBuffer, sending independent of a stale receive error; no widening conversion on the way into a scalar writer (C16.width); C16.layer stdio/descriptor layering typestate for File',
  ref='DESIGN.md section 3 C16'),

 'C12': dict(
  text='Static decision of the reference-count and lock protocol on every constructor, destructor and assignment of the four handle '
       'families (Array, HashMap, Shared/SharedCore, SmartObject) and every member of Atomic<T>: atomic primitive, decrement-and-test on the '
       'returned value, one acquire/one release per path, acquire before release, fresh count 1, relocation only when unique, Lock scope '
       'encloses every access. These are the necessary conditions of the standard protocol argument for all interleavings; the interleavings '
       'themselves are not enumerated.',
  technique='typestate dataflow over per-function CFGs with same-family callee inlining (reference-count protocol), lock-scope enclosure check, LLVM-IR cross-check of the atomic primitive (thorough); release-before-acquire without the identity-guard excuse, copy-and-swap and exchange helpers modelled, AtomicCount operators interpreted against recorder primitives; the guarded mutex is a member constructed with the object',
  ref='DESIGN.md section 2 R-RC/R-LOCK, section 3 C12'),
}

NOT_APPLICABLE = {
 'C10': 'byte-exact client/server exchange for all body sizes, fragmentations and 1-64 concurrent clients depends on kernel socket behaviour and runtime lengths; no structural clause beyond those claimed under C09 is a necessary condition worth a static verdict (DESIGN.md section 5)',
 'C17': 'round trip of bytes/lines through the OS file layer for all sizes; the line-chunk and BOM logic is arithmetic over runtime lengths that no sound static argument in reach bounds (DESIGN.md section 5)',
 'C18': 'persistence of INI edit histories and CSV cells depends on data-dependent line/quote scanning, not on code shape (DESIGN.md section 5)',
 'C19': 'numeric bijection between epoch seconds and calendar fields over 3.6M days: deciding it means evaluating the arithmetic on values (enumeration or solver), a different technique (DESIGN.md section 5)',
 'C20': 'algebraic identities and floating-point residual bounds of matrix/rotation code: needs symbolic or numeric evaluation, outside static analysis (DESIGN.md section 5)',
}

PENDING = 'check under construction in this session (design in DESIGN.md section 3); not claimed until its command exists'


def main():
    props = [json.loads(l) for l in open(os.path.join(V, 'properties.jsonl'))]
    checks = []
    na = []
    for p in props:
        pid = p['id']
        if pid in CLAIMED and os.path.exists(os.path.join(V, 'bin', 'props', pid + '.py')):
            c = CLAIMED[pid]
            checks.append({
                'property_id': pid,
                'quick_cmd': 'python3 bin/aslverif.py check %s --tier quick' % pid,
                'thorough_cmd': 'python3 bin/aslverif.py check %s --tier thorough' % pid,
                'evidence_file': 'evidence/%s.json' % pid,
                'replay_cmd_template': 'python3 bin/aslverif.py explain {path}',
                'engine': 'aslsa+aslverif',
                'level_claimed': {'category': 'other', 'text': c['text'], 'design_ref': c['ref']},
                'level_note': 'Trusted: clang 14 front end, tool/aslsa.cpp extraction, the Python rule engine and its frozen rule tables. '
                              'Decides necessary structural conditions on every path/instantiation/byte value, not the behavioural property as a whole.',
                'technique': c['technique'],
            })
        else:
            na.append({'property_id': pid, 'reason': NOT_APPLICABLE.get(pid, PENDING)})
    m = {
        'version': 1,
        'setup_cmd': 'make -C tool',
        'hooks': {'guard': 'ASL_VERIF', 'enable': 'no hooks: the static analysis parses /repo sources unmodified with the real build flags',
                  'baseline_off_cmd': 'bash bin/baseline_off.sh', 'source_commits': [], 'add_only': True},
        'engines': [
            {'name': 'aslsa', 'path': 'tool/aslsa.cpp', 'serves_properties': [c['property_id'] for c in checks],
             'kind_free_text': 'libTooling extractor: clang-resolved AST (incl. forced template member instantiation) to JSON mini-IR'},
            {'name': 'aslverif', 'path': 'bin/aslverif.py', 'serves_properties': [c['property_id'] for c in checks],
             'kind_free_text': 'Python rule engine: CFG typestate dataflow, guard/dominance queries, byte-set and table evaluators, abstract automaton interpreter'},
        ],
        'checks': checks,
        'notes': 'Static analysis only (see DESIGN.md). Exit 0 = held / only KNOWN-FINDING lines; 1 = VIOLATION; 2 = analysis broken (anchor vanished, unit does not parse, rule below its instance floor).',
        'not_applicable': na,
    }
    json.dump(m, open(os.path.join(V, 'MANIFEST.json'), 'w'), indent=1)
    print('claimed:', [c['property_id'] for c in checks])


if __name__ == '__main__':
    main()
