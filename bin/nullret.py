"""R-NULLRET: the result of a C search function that returns a null pointer when nothing is found (strstr, strchr, strrchr,
strpbrk, memchr) is dereferenced, indexed or used in pointer arithmetic only where a test has excluded the null result.

Decided per call site: a result used directly as an operand of + - * [] is a violation; a result stored in a local is followed
to its uses, and at each dereferencing / arithmetic use the structural guards of the use are evaluated with the local bound to
the null pointer (bounded.admitted): if the null value is admitted there, a truncated or malformed input makes the function
compute with (char*)0 + k."""
import ir, q, bounded
from ir import strip, strip_lv, const_val, T, pe, walk_expr, fn_exprs
from core import fwhere

NULLRET = ('strstr', 'strchr', 'strrchr', 'strpbrk', 'memchr')


def _children(e):
    for k in ('x', 'y', 'e', 'b', 'i', 'c'):
        v = e.get(k)
        if isinstance(v, dict):
            yield k, v
    for a in e.get('a', []) or []:
        yield 'a', a


def _peel(e):
    while isinstance(e, dict) and e.get('k') in ('cast', 'paren', 'temp'):
        e = e['e']
    return e


def check(ctx, prog, rule_prefix, files, floor=0):
    n = 0
    for f in prog.functions:
        if not f.get('body') or not any((f.get('file') or '').endswith(x) for x in files):
            continue
        calls = [e for e in fn_exprs(f) if e.get('k') == 'call' and e.get('fn') in NULLRET and not e.get('clsp')]
        if not calls:
            continue
        G = q.Guarded(f)
        ctx.analysed(f)
        for c in calls:
            n += 1
            role = '%s:result of %s tested before use (line %s)' % (f['n'], c['fn'], c.get('l'))
            where = fwhere(f, c.get('l'))
            bad = None
            # direct use as an operand
            for e in fn_exprs(f):
                for kind, ch in _children(e):
                    if _peel(ch) is c:
                        if (e.get('k') == 'bin' and e.get('op') in ('+', '-', '+=', '-=') and kind in ('x', 'y') and not (e['op'] == '-' and kind == 'y' and False)) or \
                                (e.get('k') == 'un' and e.get('op') == '*') or (e.get('k') == 'idx' and kind == 'b'):
                            bad = 'the result of `%s` is used in `%s` without a test' % (pe(c)[:50], pe(e)[:70])
            # stored in a local: every dereferencing / arithmetic use must exclude the null value
            holders = []
            for s_ in ir.walk_stmts(f['body']):
                if s_.get('k') == 'decl':
                    for v in s_['vars']:
                        if v.get('init') is not None and _peel(v['init']) is c:
                            holders.append(v['id'])
            for e in fn_exprs(f):
                if e.get('k') == 'bin' and e.get('op') == '=' and _peel(e['y']) is c and strip_lv(e['x']).get('k') == 'var':
                    holders.append(strip_lv(e['x'])['id'])
            for vid in holders:
                if len(q._writes_to(f, vid)) > 1:
                    continue            # reassigned: not followed
                for e in fn_exprs(f):
                    uses = []
                    if e.get('k') == 'bin' and e.get('op') in ('+', '-', '+=', '-='):
                        uses = [x for x in (e['x'], e['y']) if _peel(strip(x)).get('k') == 'var' and _peel(strip(x)).get('id') == vid]
                    elif e.get('k') == 'un' and e.get('op') in ('*', 'post++', 'pre++', 'post--', 'pre--'):
                        uses = [e['e']] if _peel(strip_lv(e['e'])).get('id') == vid else []
                    elif e.get('k') == 'idx':
                        uses = [e['b']] if _peel(strip(e['b'])).get('id') == vid else []
                    if not uses:
                        continue
                    ev = bounded.Bound(prog, f, {vid: 0}, {})
                    ctx.evaluations += 1
                    if bounded.admitted(ev, G.of(e), G) and bad is None:
                        bad = '`%s` (line %s) computes with the result of `%s` on a path where it may be the null pointer' % (pe(e)[:70], e.get('l'), pe(c)[:50])
            ctx.check(bad is None, rule_prefix + '.nullret', f['pq'], role, where, 'every use is behind a test that excludes the null result',
                      '%s: %s: when the searched text is absent (a truncated or malformed input) the function dereferences or offsets a null pointer' % (f['q'], bad))
    if floor:
        ctx.floor(rule_prefix + '.nullret', n, floor)
    return n
