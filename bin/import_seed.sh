#!/bin/bash
# usage: bin/import_seed.sh <property> <seed dir from a sub-agent worktree> <name>
# Confirms the seed independently (bin/confirm_seed.sh) and, when confirmed, stores it as /verif/seeded/<property>-<name>/.
P=$1; SRC=$2; NAME=$3
DST=/verif/seeded/$P-$NAME
OUT=$(/verif/bin/confirm_seed.sh "$SRC" 2>&1); RC=$?
echo "$OUT" | grep "^SEED"
if [ $RC -eq 0 ]; then
  mkdir -p "$DST"; cp "$SRC/patch.diff" "$SRC/demo.cpp" "$DST/"
  python3 - "$SRC/meta.json" "$DST/meta.json" "$P" "$(echo "$OUT" | grep '^SEED')" <<'PY'
import json,sys
try: m=json.load(open(sys.argv[1]))
except Exception as e: m={'note':'agent meta unreadable: %s'%e}
m['property']=sys.argv[3]
m['confirmed_by_me']={'how':'bin/confirm_seed.sh in a scratch worktree of /repo HEAD: patched tree builds, ctest 28/28, demo fails; clean tree demo passes','result':sys.argv[4]}
json.dump(m,open(sys.argv[2],'w'),indent=1)
PY
  echo "imported $DST"
else
  echo "NOT CONFIRMED: $SRC (rc=$RC)"; echo "$OUT" | tail -5
fi
