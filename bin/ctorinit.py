"""R-CTORINIT - sibling agreement of constructors: a scalar member (integer, enum, bool, pointer) that one constructor of a
class initialises is initialised by every other non-copy constructor of that class - by a written member initialiser, an
assignment in the body (helpers of the class inlined), or through a delegated constructor.  A member left out of one
constructor holds whatever the allocator returned: an accepted socket that starts in an error state or with a foreign byte
order.  The rule compares the constructors with each other; no list of members is frozen here."""
import q
from ir import strip_lv, T, walk_expr
from core import fwhere


def scalar(rec, fl):
    t = T(rec, fl['t'])
    return not t.get('rec') and t.get('arr') is None and t.get('n') is None and not t.get('ref')


def initialised(prog, f, rec, _depth=0):
    done = set()
    for i_ in f.get('inits') or []:
        if i_.get('field') and i_.get('written'):
            done.add(i_['field'])
        if i_.get('delegating') and _depth < 3:
            e = i_.get('e') or {}
            # the delegated constructor: same class, resolved by the signature recorded on the construct expression
            for w in walk_expr(e):
                if w.get('k') == 'construct' and w.get('sig') is not None:
                    for g in prog.functions:
                        if g.get('cls') == f.get('cls') and g.get('kind') == 'ctor' and g.get('body') and g.get('sig') == w.get('sig'):
                            done |= initialised(prog, g, rec, _depth + 1)
    for e in q.fn_exprs_inlined(prog, f):
        if e.get('k') == 'bin' and e.get('op') == '=':
            lv = strip_lv(e['x'])
            if lv.get('k') == 'mem' and lv.get('f'):
                done.add(lv['f'])
        if e.get('k') == 'call' and e.get('op') == '=' and e.get('obj') is not None:
            lv = strip_lv(e['obj'])
            if lv.get('k') == 'mem' and lv.get('f'):
                done.add(lv['f'])
    return done


def check(ctx, prog, rule, classes, want=None, consequence=''):
    """classes: qualified record names; want(field, type) restricts the members looked at.  Returns the number of constructors compared."""
    n = 0
    for rq in classes:
        rec = prog.records.get(rq)
        if not rec:
            continue
        fields = [fl for fl in rec.get('fields', []) if scalar(rec, fl) and (want is None or want(fl, T(rec, fl['t'])))]
        if not fields:
            continue
        ctors = []
        for f in prog.functions:
            if f.get('cls') != rq or f.get('kind') != 'ctor' or not f.get('body') or f.get('implicit') or f.get('copyctor'):
                continue
            if len(f['params']) == 1 and T(f, T(f, f['params'][0]['t']).get('to') or f['params'][0]['t']).get('rec') == rq:
                continue
            ctors.append((f, initialised(prog, f, rec)))
        if len(ctors) < 2:
            continue
        for f, done in ctors:
            n += 1
            ctx.analysed(f)
            for fl in fields:
                others = [g for g, d in ctors if g is not f and fl['n'] in d]
                if not others:
                    continue
                role = '%s%s:member `%s` initialised like in its sibling constructors' % (f['n'], f.get('sig') or '', fl['n'])
                ctx.check(fl['n'] in done, rule, f['pq'], role, fwhere(f), 'initialised (member initialiser, assignment or delegation)',
                          '%s%s leaves `%s` uninitialised although %s%s sets it: an object built through this constructor starts with whatever the allocator left there%s' % (
                              f['n'], f.get('sig') or '', fl['n'], others[0]['n'], others[0].get('sig') or '', consequence))
    return n
