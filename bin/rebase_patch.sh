#!/bin/bash
# usage: bin/rebase_patch.sh <dir with patch.diff>
# Re-bases a stored seed / refactoring patch on /repo's HEAD after a fix: commit touched the same lines: three-way apply in a
# scratch worktree (outside /repo and /verif); on success the patch is rewritten (the old one is kept as patch.orig.diff).
set -u
D=$(readlink -f "$1")
WT=$(mktemp -d /tmp/asl_rb.XXXXXX); rmdir "$WT"
git -C /repo worktree add -q --detach "$WT" HEAD || exit 3
trap 'git -C /repo worktree remove --force "$WT" >/dev/null 2>&1; rm -rf "$WT"' EXIT
if git -C "$WT" apply --3way "$D/patch.diff" 2>"$WT/.err"; then
  if git -C "$WT" diff --name-only --diff-filter=U | grep -q .; then echo "$1: CONFLICT"; git -C "$WT" diff | head -60; exit 1; fi
  [ -f "$D/patch.orig.diff" ] || cp "$D/patch.diff" "$D/patch.orig.diff"
  git -C "$WT" diff HEAD > "$D/patch.diff"
  echo "$1: rebased ($(grep -c '^[+-][^+-]' "$D/patch.diff") changed lines)"
else
  echo "$1: 3-way apply failed"; cat "$WT/.err" | head -5; git -C "$WT" diff | grep -n "^[<>=+-]\{7\}\|^.[<>=]\{7\}" | head; exit 1
fi
