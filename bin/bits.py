"""Bit-provenance abstract domain: a value is a vector of 32 abstract bits, each '0', '1', (var id, bit index) or 'X' (unknown).

Used to decide, for every possible argument at once, which source bit ends up in which result bit of an expression built
from constants, variables, casts, >> << & | + - with constant operands (UTF-8/16 encoders and decoders, frame headers)."""
from ir import strip, strip_lv, const_val, T, pe

W = 32


def const_bits(v):
    return [('1' if (v >> i) & 1 else '0') for i in range(W)]


def var_bits(vid, width=W, known_zero_from=None, sign_extended=False):
    out = []
    for i in range(W):
        if known_zero_from is not None and i >= known_zero_from:
            out.append('0')
        elif i < width:
            out.append((vid, i))
        elif sign_extended:
            out.append((vid, width - 1))
        else:
            out.append('0')
    return out


def b_and(a, b):
    out = []
    for x, y in zip(a, b):
        if x == '0' or y == '0':
            out.append('0')
        elif x == '1':
            out.append(y)
        elif y == '1':
            out.append(x)
        elif x == y:
            out.append(x)
        elif x == 'X' or y == 'X':
            out.append('X')
        else:
            out.append('M')      # depends on two different input bits: definitely not a copy of one input bit
    return out


def b_or(a, b):
    out = []
    for x, y in zip(a, b):
        if x == '1' or y == '1':
            out.append('1')
        elif x == '0':
            out.append(y)
        elif y == '0':
            out.append(x)
        elif x == y:
            out.append(x)
        elif x == 'X' or y == 'X':
            out.append('X')
        else:
            out.append('M')
    return out


def b_join0(a, b):
    """either a or b, where a constant 0 bit on one side stands for "absent" (zero padding): the other side's bit is kept"""
    out = []
    for x, y in zip(a, b):
        if x == y:
            out.append(x)
        elif x == '0' and y not in ('1', 'X', 'M'):
            out.append(y)
        elif y == '0' and x not in ('1', 'X', 'M'):
            out.append(x)
        else:
            out.append('X')
    return out


def b_shl(a, n):
    return ['0'] * n + a[:W - n]


def b_shr(a, n, arithmetic=False):
    fill = a[W - 1] if arithmetic else '0'
    return a[n:] + [fill] * n


def b_add_const(a, c):
    """a + c where the constant only touches bits that are known zero in a (carry-free), else unknown above the lowest clash."""
    cb = const_bits(c & 0xffffffff)
    out = []
    clash = False
    for x, y in zip(a, cb):
        if clash:
            out.append('X')
        elif y == '0':
            out.append(x)
        elif x == '0':
            out.append('1')
        else:
            clash = True
            out.append('X')
    return out


class Env:
    """variable id -> abstract bit vector"""

    def __init__(self, f, leaf=None, through_locals=False, prog=None):
        self.f = f
        self.prog = prog                      # with a program: calls of one-expression scalar helpers are inlined
        self.vars = {}
        self.leaf = leaf                      # callable(expr) -> bit vector or None: symbolic sources (array elements, loads)
        self.through_locals = through_locals  # read single-assignment locals through their initialiser
        self.depth = 0

    def eval(self, e):
        if e is None:
            return ['X'] * W
        if self.leaf is not None:
            r = self.leaf(e)
            if r is not None:
                return r
        cv = const_val(e)
        if cv is not None and e.get('k') in ('int',) or (cv is not None and e.get('k') == 'cast' and const_val(e.get('e')) is not None):
            return const_bits(cv & 0xffffffff)
        k = e.get('k')
        if k == 'int':
            return const_bits(e['v'] & 0xffffffff)
        if k == 'cast':
            inner = self.eval(e['e'])
            ck = e.get('ck')
            if ck in ('LValueToRValue', 'NoOp'):
                return inner
            if ck == 'IntegralCast':
                t = T(self.f, e.get('t'))
                st = T(self.f, strip_lv(e['e']).get('t'))
                bits = t.get('bits', 32)
                sbits = st.get('bits', 32)
                if bits >= 32 and sbits < 32:
                    # widening: sign or zero extension of the source
                    fill = inner[sbits - 1] if st.get('sg') else '0'
                    return inner[:sbits] + [fill] * (W - sbits)
                if bits < 32:
                    fill = inner[bits - 1] if t.get('sg') else '0'
                    return inner[:bits] + [fill] * (W - bits)
                return inner
            return inner
        if k == 'var':
            if e.get('id') in self.vars:
                return list(self.vars[e['id']])
            if self.through_locals and e.get('vk') == 'local' and self.depth < 8:
                import q as _q
                d = _q.single_defs(self.f).get(e['id'])
                if d is not None:
                    self.depth += 1
                    try:
                        r = self.eval(d)
                    finally:
                        self.depth -= 1
                    # the declared type of the local truncates / extends like a cast
                    t = T(self.f, e.get('dt') or e.get('t'))
                    bits = t.get('bits', 32)
                    if bits < 32:
                        fill = r[bits - 1] if t.get('sg') else '0'
                        r = r[:bits] + [fill] * (W - bits)
                    return r
            return ['X'] * W
        if k == 'temp':
            return self.eval(e['e'])
        if k == 'call' and self.prog is not None and self.depth < 4 and e.get('fn') and not e.get('obj'):
            cands = [g for g in self.prog.fn(e['fn'], e.get('sig')) if g.get('body')]
            if cands:
                g = cands[0]
                body = g['body']['s'] if g['body'].get('k') == 'block' else [g['body']]
                if len(body) == 1 and body[0].get('k') == 'return' and body[0].get('e') is not None and len(g['params']) == len(e.get('a', [])) and \
                        all(T(g, p_['t']).get('int') and not T(g, p_['t']).get('ref') for p_ in g['params']):
                    sub = Env(g, self.leaf, self.through_locals, self.prog)
                    sub.depth = self.depth + 1
                    for p_, a in zip(g['params'], e['a']):
                        v = self.eval(a)
                        pt = T(g, p_['t'])
                        nb = pt.get('bits', 32)
                        if nb < 32:
                            fill = v[nb - 1] if pt.get('sg') else '0'
                            v = v[:nb] + [fill] * (W - nb)
                        sub.vars[p_['id']] = v
                    r = sub.eval(body[0]['e'])
                    rt = T(g, g.get('ret'))
                    nb = rt.get('bits', 32)
                    if nb < 32:
                        fill = r[nb - 1] if rt.get('sg') else '0'
                        r = r[:nb] + [fill] * (W - nb)
                    return r
            return ['X'] * W
        if k == 'cond':
            return b_join0(self.eval(e['x']), self.eval(e['y']))
        if k == 'bin':
            op = e['op']
            if op in ('&', '|'):
                a, b = self.eval(e['x']), self.eval(e['y'])
                return b_and(a, b) if op == '&' else b_or(a, b)
            if op in ('<<', '>>'):
                n = const_val(e['y'])
                a = self.eval(e['x'])
                if n is None:
                    # a shift amount that is a known constant in this context (an inlined helper's parameter)
                    nb = self.eval(e['y'])
                    if all(x in ('0', '1') for x in nb):
                        n = sum(1 << i for i, x in enumerate(nb) if x == '1')
                        if n >= W:
                            n = None
                if n is None:
                    return ['X'] * W
                if op == '<<':
                    return b_shl(a, n)
                t = T(self.f, strip_lv(e['x']).get('t'))
                return b_shr(a, n, arithmetic=bool(t.get('sg')))
            if op in ('+', '-'):
                c = const_val(e['y'])
                a = self.eval(e['x'])
                if c is None:
                    c2 = const_val(e['x'])
                    if c2 is not None and op == '+':
                        return b_add_const(self.eval(e['y']), c2)
                    return ['X'] * W
                if op == '+':
                    return b_add_const(a, c)
                return ['X'] * W
        return ['X'] * W


def low(bitsv, n=8):
    return bitsv[:n]


def show(bitsv, names=None, n=8):
    out = []
    for b in reversed(bitsv[:n]):
        if b in ('0', '1', 'X', 'M'):
            out.append(b)
        else:
            out.append('%s%d' % ((names or {}).get(b[0], 'v'), b[1]))
    return ' '.join(out)
