"""R-RETSELF - a mutating member that hands back the object it was called on (`return *this;` on every path) returns it by
reference.  Returned by value, the chain `g << a << b << c` applies every operation after the first to a temporary copy: with the
library's handle classes the copy shares the storage until an operation has to move it, and then the original is left pointing
at the freed block (ThreadGroup: members appended through the copy are never started or joined by the group).  Decided on the
declared return type of every non-const member of the given classes whose returns are all `*this`; conversions that build
another type from `*this` (`all()` returning an enumerator) are not concerned."""
from ir import strip, T, walk_stmts
from core import fwhere


def _is_self(e):
    e = strip(e)
    while e.get('k') in ('paren', 'cast', 'temp', 'construct'):
        if e.get('k') == 'construct':
            if len(e.get('a', [])) != 1:
                return False
            e = strip(e['a'][0])
        else:
            e = strip(e['e'])
    return e.get('k') == 'un' and e.get('op') == '*' and strip(e['e']).get('k') == 'this'


def check(ctx, prog, rule, classes):
    n = 0
    seen = set()
    for f in prog.functions:
        if not f.get('body') or f.get('implicit') or f.get('kind') in ('ctor', 'dtor') or f.get('const') or (f.get('clsp') or f.get('cls')) not in classes:
            continue
        key = (f.get('file'), f.get('line'))
        if key in seen:
            continue
        rets = [s for s in walk_stmts(f['body']) if s.get('k') == 'return' and s.get('e') is not None]
        if not rets or not all(_is_self(r['e']) for r in rets):
            continue
        rt = T(f, f.get('ret'))
        if not rt.get('ref') and rt.get('rec') != f.get('cls'):
            continue                       # builds an object of another type from *this
        seen.add(key)
        n += 1
        ctx.analysed(f)
        role = '%s%s:hands back the object itself, not a copy' % (f['n'], f.get('sig') or '')
        ctx.check(bool(rt.get('ref')), rule, f['pq'], role, fwhere(f), 'returns `*this` by reference',
                  '%s%s returns `*this` by value: in a chain (`x %s a %s b`) every operation after the first is applied to a temporary copy of the object; the copy shares the storage only until an operation moves it - what is added through it is lost to the original, which may be left with a freed block' % (
                      f['pq'], f.get('sig') or '', f['n'].replace('operator', '') if f['n'].startswith('operator') else '.' + f['n'] + '(..)', f['n'].replace('operator', '') if f['n'].startswith('operator') else '.' + f['n'] + '(..)'))
    return n
