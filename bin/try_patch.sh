#!/bin/bash
# usage: bin/try_patch.sh <patch.diff> <property ids...>
# Applies a patch to a scratch worktree of /repo (outside /repo and /verif), runs the named checks against it
# (ASL_REPO points the analysis at the scratch tree) and removes the worktree. Used to test the checker against seeded changes.
set -u
PATCH=$(readlink -f "$1"); shift
WT=$(mktemp -d /tmp/asl_try.XXXXXX)
rmdir "$WT"
for attempt in 1 2 3 4 5 6; do git -C /repo worktree add -q --detach "$WT" HEAD 2>/dev/null && break; sleep 0.$((RANDOM % 9 + 1)); done
[ -d "$WT" ] || exit 3
trap 'git -C /repo worktree remove --force "$WT" >/dev/null 2>&1; rm -rf "$WT"' EXIT
if ! git -C "$WT" apply "$PATCH"; then echo "PATCH DOES NOT APPLY"; exit 3; fi
rc=0
for p in "$@"; do
  ASL_REPO="$WT" ASL_EVIDENCE_DIR="$WT/.evidence" python3 "$(dirname "$0")/aslverif.py" check "$p" --tier "${TIER:-quick}" | sed "s#$WT#/repo#g"
  r=${PIPESTATUS[0]}; [ $r -gt $rc ] && rc=$r
done
exit $rc
