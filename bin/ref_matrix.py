#!/usr/bin/env python3
"""Runs each behaviour-preserving refactoring in /verif/refactored against the checks (each in its own scratch worktree, in
parallel) and records the verdict: exit 0 = silent (required), exit 1 = FALSE ALARM, exit 2 = analysis-incomplete.
  ref_matrix.py [prefix ...]        the check of the refactoring's own property
  ref_matrix.py --all [prefix ...]  every claimed check against every refactoring (cross effects)
Without prefixes the result is written to refactored/MATRIX.md (own-property mode) / refactored/MATRIX_ALL.md (--all)."""
import json, os, subprocess, sys, re
from concurrent.futures import ThreadPoolExecutor
V = os.path.dirname(os.path.dirname(os.path.abspath(__file__)))
args = sys.argv[1:]
ALL = '--all' in args
only = [a for a in args if not a.startswith('--')]
claimed = [c['property_id'] for c in json.load(open(os.path.join(V, 'MANIFEST.json')))['checks']]
if os.environ.get('ASL_CHECKS'):
    claimed = [c for c in claimed if c in os.environ['ASL_CHECKS'].split(',')]
VERD = {0: 'silent (exit 0)', 1: 'FALSE ALARM (exit 1)', 2: 'analysis-incomplete (exit 2)'}


def run_one(d):
    sd = os.path.join(V, 'refactored', d)
    try:
        sup = json.load(open(os.path.join(sd, 'meta.json'))).get('superseded_by')
    except Exception:
        sup = None
    if sup:
        return d, -1, 'SUPERSEDED ' + sup
    prop = d.split('-')[0]
    props = claimed if ALL else [prop]
    r = subprocess.run([os.path.join(V, 'bin', 'try_patch.sh'), os.path.join(sd, 'patch.diff')] + props, stdout=subprocess.PIPE, stderr=subprocess.STDOUT, universal_newlines=True)
    return d, r.returncode, r.stdout


dirs = []
for d in sorted(os.listdir(os.path.join(V, 'refactored'))):
    sd = os.path.join(V, 'refactored', d)
    if not os.path.isdir(sd) or not os.path.exists(os.path.join(sd, 'patch.diff')):
        continue
    if only and not any(d.startswith(o) for o in only):
        continue
    dirs.append(d)
rows = []
with ThreadPoolExecutor(max_workers=int(os.environ.get('ASL_WORKERS', 6 if ALL else 10))) as ex:
    for d, rc, out in ex.map(run_one, dirs):
        sd = os.path.join(V, 'refactored', d)
        meta = json.load(open(os.path.join(sd, 'meta.json')))
        if out.startswith('SUPERSEDED '):
            verdict, rules = 'no longer behaviour-preserving on HEAD: ' + out[11:].split(':')[0], []
        elif 'PATCH DOES NOT APPLY' in out or 'patch does not apply' in out:
            verdict, rules = 'patch does not apply to HEAD', []
        else:
            rules = sorted(set(re.findall(r'^  rule      (\S+)', out, re.M))) + sorted(set(re.findall(r'^UNDECIDED property=\S+ rule=(\S+)', out, re.M)))
            verdict = VERD.get(rc, 'exit %d' % rc)
        if ALL:
            alarms = sorted(set(re.findall(r'^VIOLATION property=(\S+)', out, re.M)))
            incomplete = sorted(set(re.findall(r'^UNDECIDED property=(\S+)', out, re.M)) | set(re.findall(r'^ANALYSIS-BROKEN property=(\w+)', out, re.M)))
            meta['all_checks_verdict'] = {'verdict': verdict, 'false_alarms_in': alarms, 'incomplete_in': incomplete}
            rows.append((d, verdict, ', '.join(alarms), ', '.join(incomplete)))
            print(d, verdict, 'alarms:', alarms, 'incomplete:', incomplete)
        else:
            meta['check_verdict'] = {'verdict': verdict, 'rules': rules}
            rows.append((d, str(meta.get('summary', ''))[:120].replace('|', '/').replace('\n', ' '), verdict, ', '.join(rules)))
            print(d, verdict, rules)
        json.dump(meta, open(os.path.join(sd, 'meta.json'), 'w'), indent=1)
        if rc > 0:
            print('\n'.join(l for l in out.split('\n') if 'detail' in l or 'UNDECIDED' in l or 'BROKEN' in l or l.startswith('VIOLATION'))[:1500])
if not only:
    if ALL:
        with open(os.path.join(V, 'refactored', 'MATRIX_ALL.md'), 'w') as f:
            f.write('# Behaviour-preserving refactorings vs. every claimed check (cross effects)\n\n| refactoring | worst verdict | false alarms in | incomplete in |\n|---|---|---|---|\n')
            for r_ in rows:
                f.write('| %s | %s | %s | %s |\n' % r_)
    else:
        with open(os.path.join(V, 'refactored', 'MATRIX.md'), 'w') as f:
            f.write('# Behaviour-preserving refactorings vs. checks (negative controls)\n\nEach row: a refactoring produced by an independent sub-agent (given only the property text) that compiles, keeps 28/28 tests green\nand preserves the property. The property\'s check must stay silent on it.\n\n| refactoring | change | verdict | rules involved |\n|---|---|---|---|\n')
            for r_ in rows:
                f.write('| %s | %s | %s | %s |\n' % r_)
