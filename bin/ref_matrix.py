#!/usr/bin/env python3
"""Runs each behaviour-preserving refactoring in /verif/refactored against the check of its own property (scratch worktree) and
records the verdict: exit 0 = silent (required), exit 1 = FALSE ALARM, exit 2 = analysis-incomplete. Writes refactored/MATRIX.md."""
import json, os, subprocess, sys, re
V = os.path.dirname(os.path.dirname(os.path.abspath(__file__)))
rows = []
only = sys.argv[1:]
for d in sorted(os.listdir(os.path.join(V, 'refactored'))):
    sd = os.path.join(V, 'refactored', d)
    if not os.path.isdir(sd) or not os.path.exists(os.path.join(sd, 'patch.diff')):
        continue
    if only and not any(d.startswith(o) for o in only):
        continue
    prop = d.split('-')[0]
    meta = json.load(open(os.path.join(sd, 'meta.json')))
    r = subprocess.run([os.path.join(V, 'bin', 'try_patch.sh'), os.path.join(sd, 'patch.diff'), prop], stdout=subprocess.PIPE, stderr=subprocess.STDOUT, universal_newlines=True)
    out = r.stdout
    if 'PATCH DOES NOT APPLY' in out or 'patch does not apply' in out:
        verdict, rules = 'patch does not apply to HEAD', []
    else:
        rules = sorted(set(re.findall(r'^  rule      (\S+)', out, re.M))) + sorted(set(re.findall(r'^UNDECIDED property=\S+ rule=(\S+)', out, re.M)))
        verdict = {0: 'silent (exit 0)', 1: 'FALSE ALARM (exit 1)', 2: 'analysis-incomplete (exit 2)'}.get(r.returncode, 'exit %d' % r.returncode)
    meta['check_verdict'] = {'verdict': verdict, 'rules': rules}
    json.dump(meta, open(os.path.join(sd, 'meta.json'), 'w'), indent=1)
    rows.append((d, str(meta.get('summary', ''))[:120].replace('|', '/').replace('\n', ' '), verdict, ', '.join(rules)))
    print(d, verdict, rules)
    if r.returncode != 0:
        print('\n'.join(l for l in out.split('\n') if 'detail' in l or 'UNDECIDED' in l or 'BROKEN' in l)[:1500])
if not only:
    with open(os.path.join(V, 'refactored', 'MATRIX.md'), 'w') as f:
        f.write('# Behaviour-preserving refactorings vs. checks (negative controls)\n\nEach row: a refactoring produced by an independent sub-agent (given only the property text) that compiles, keeps 28/28 tests green\nand preserves the property. The property\'s check must stay silent on it.\n\n| refactoring | change | verdict | rules involved |\n|---|---|---|---|\n')
        for r_ in rows:
            f.write('| %s | %s | %s | %s |\n' % r_)
