#!/usr/bin/env python3
"""aslverif - static checks of the asl properties.

  aslverif.py check Cxx [--tier quick|thorough]     decide one property on /repo's current tree
  aslverif.py explain <report.json>                  print a stored report and re-run its property
  aslverif.py all [--tier quick]                     every claimed property (summary)

Exit codes: 0 held / only known findings; 1 new violation (VIOLATION lines); 2 analysis broken."""
import sys, os, json, importlib, traceback, time

HERE = os.path.dirname(os.path.abspath(__file__))
sys.path.insert(0, HERE)
sys.path.insert(0, os.path.join(HERE, 'props'))

import core
from ir import AnalysisBroken, VERIF


def run_check(prop, tier):
    seed = int(os.environ.get('VERIF_SEED', '0') or 0)
    ctx = core.Context(prop, tier, seed)
    try:
        mod = importlib.import_module(prop)
    except ImportError as e:
        print('no check for property %s (%s)' % (prop, e))
        return 2
    try:
        explanation = mod.run(ctx)
        return core.finish(ctx, explanation, getattr(mod, 'TRUSTED', ()), getattr(mod, 'ASSUMPTIONS', ()))
    except AnalysisBroken as e:
        print('ANALYSIS-BROKEN property=%s: %s' % (prop, e))
        return 2
    except Exception:
        traceback.print_exc()
        print('ANALYSIS-BROKEN property=%s: internal error in the checker' % prop)
        return 2


def main(argv):
    if len(argv) < 2:
        print(__doc__)
        return 2
    cmd = argv[1]
    tier = os.environ.get('VERIF_TIER') or 'quick'
    if '--tier' in argv:
        tier = argv[argv.index('--tier') + 1]
    if tier not in ('quick', 'thorough'):
        tier = 'quick'
    if cmd == 'check':
        return run_check(argv[2], tier)
    if cmd == 'explain':
        rep = json.load(open(argv[2]))
        print(json.dumps(rep, indent=1))
        print('--- re-running %s on the current tree' % rep['property'])
        return run_check(rep['property'], rep.get('tier', 'quick'))
    if cmd == 'all':
        man = json.load(open(os.path.join(VERIF, 'MANIFEST.json')))
        worst = 0
        for c in man['checks']:
            rc = run_check(c['property_id'], tier)
            worst = max(worst, rc)
        return worst
    print(__doc__)
    return 2


if __name__ == '__main__':
    sys.exit(main(sys.argv))
