"""Loading, indexing and pretty-printing of the aslsa mini-IR (resolved AST as JSON).

Nothing here decides a property; it is the shared access layer of the rule modules."""
import json, os, subprocess, sys, hashlib, time, re
from concurrent.futures import ThreadPoolExecutor

VERIF = os.path.dirname(os.path.dirname(os.path.abspath(__file__)))
REPO = os.environ.get('ASL_REPO', '/repo')
ASLSA = os.path.join(VERIF, 'tool', 'aslsa')
FLAGS = ['-std=c++11', '-DASL_STATIC', '-I' + os.path.join(REPO, 'include'), '-UNDEBUG', '-w']
FORBIDDEN_DEFINES = ['ASL_THREAD_UNSAFE', 'ASL_NO_ATOMIC_OPS', 'ASL_ANSI', 'ASL_B64_NOWS', 'ASL_FAST_JSON']


class AnalysisBroken(Exception):
    """An anchor vanished, a unit failed to parse, or a rule matched fewer instances than its floor."""
    pass


def library_units():
    """The *.cpp entries of set(ASL_SRC ...) in /repo/src/CMakeLists.txt, read on every run."""
    path = os.path.join(REPO, 'src', 'CMakeLists.txt')
    try:
        txt = open(path).read()
    except OSError as e:
        raise AnalysisBroken('cannot read %s: %s' % (path, e))
    m = re.search(r'set\(\s*ASL_SRC(.*?)\)', txt, re.S)
    if not m:
        raise AnalysisBroken('ASL_SRC list not found in src/CMakeLists.txt')
    units = []
    for tok in m.group(1).split():
        if tok.endswith('.cpp'):
            units.append(os.path.normpath(os.path.join(REPO, 'src', tok)))
    if not units:
        raise AnalysisBroken('ASL_SRC lists no .cpp unit')
    return units


class Program:
    """Merged view of several translation units."""

    def __init__(self):
        self.units = []
        self.functions = []      # all function records (deduplicated by (q, sig, file, line))
        self.by_q = {}           # q -> [functions]
        self.by_pq = {}          # pattern name -> [functions]
        self.records = {}        # q -> record
        self.records_by_pq = {}
        self.enums = {}          # q -> enum
        self.globals = {}        # q -> global
        self.non_instantiable = []
        self.types = {}          # (unit index, tid) -> type object ; accessed through fn['_types']
        self.wall = 0.0
        self.cmds = []

    def fn(self, q, sig=None):
        c = self.by_q.get(q, [])
        if sig is not None:
            c = [f for f in c if f['sig'] == sig]
        return c

    def one(self, q, sig=None):
        c = self.fn(q, sig)
        if not c:
            raise AnalysisBroken('anchor function not found: %s%s' % (q, sig or ''))
        return c[0]

    def pattern(self, pq):
        return self.by_pq.get(pq, [])


def _run_aslsa(args):
    src, out, force = args
    cmd = [ASLSA]
    if force:
        cmd.append('--force-inst')
    cmd += ['--prefix', REPO, '--prefix', os.path.join(VERIF, 'drivers'), '--prefix', os.path.join(VERIF, 'fixtures'),
            '--out', out, src, '--'] + FLAGS + ['-I' + os.path.join(VERIF, 'drivers')]
    p = subprocess.run(cmd, stdout=subprocess.PIPE, stderr=subprocess.PIPE, universal_newlines=True)
    return src, out, p.returncode, p.stderr, ' '.join(cmd)


def load_units(sources, force_inst=(), workdir=None, allow_errors=False):
    """Run aslsa over the given sources (16-wide), one JSON file per unit, and merge."""
    if not os.path.exists(ASLSA):
        raise AnalysisBroken('aslsa binary missing: run `make -C tool` (MANIFEST.setup_cmd)')
    t0 = time.time()
    import tempfile, shutil
    tmp = tempfile.mkdtemp(prefix='aslsa_', dir=workdir or os.environ.get('TMPDIR', '/tmp'))
    prog = Program()
    try:
        jobs = []
        for i, s in enumerate(sources):
            if not os.path.exists(s):
                raise AnalysisBroken('unit missing: %s' % s)
            jobs.append((s, os.path.join(tmp, '%03d.json' % i), s in force_inst))
        with ThreadPoolExecutor(max_workers=16) as ex:
            results = list(ex.map(_run_aslsa, jobs))
        for src, out, rc, err, cmd in results:
            prog.cmds.append(cmd)
            if not os.path.exists(out):
                raise AnalysisBroken('aslsa produced no output for %s (rc=%d): %s' % (src, rc, err[-2000:]))
            data = json.load(open(out))
            if rc != 0 and not allow_errors and not (src in force_inst and data.get('parse_errors', 0) == 0):
                raise AnalysisBroken('unit does not parse: %s\n%s' % (src, err[-3000:]))
            _merge(prog, src, data)
    finally:
        shutil.rmtree(tmp, ignore_errors=True)
    prog.wall = time.time() - t0
    return prog


def _renumber(node, parent, off):
    """variable / parameter / function ids are assigned per translation unit: make them unique across the program, so that an
    analysis that follows a call into a function from another unit never confuses two variables (types keep their own ids)"""
    if isinstance(node, dict):
        if isinstance(node.get('id'), int) and (node.get('k') == 'var' or parent in ('params', 'vars', 'cv', 'fn', 'globals')):
            node['id'] += off
        for k, v in node.items():
            if k != '_types' and isinstance(v, (dict, list)):
                _renumber(v, k, off)
    elif isinstance(node, list):
        for x in node:
            _renumber(x, parent, off)


def _merge(prog, src, data):
    ui = len(prog.units)
    prog.units.append(src)
    if ui:
        off = ui * 10000000
        for f in data['functions']:
            _renumber(f, 'fn', off)
        for g in data['globals']:
            _renumber(g, 'globals', off)
    types = {t['id']: t for t in data['types']}
    seen = getattr(prog, '_seen', None)
    if seen is None:
        seen = prog._seen = set()
    for f in data['functions']:
        key = (f['q'], f['sig'], f['file'], f['line'])
        if key in seen:
            continue
        seen.add(key)
        f['_types'] = types
        f['_unit'] = src
        prog.functions.append(f)
        prog.by_q.setdefault(f['q'], []).append(f)
        prog.by_pq.setdefault(f['pq'], []).append(f)
    for r in data['records']:
        if r['q'] not in prog.records:
            r['_types'] = types
            prog.records[r['q']] = r
            prog.records_by_pq.setdefault(r['pq'], []).append(r)
    for e in data['enums']:
        prog.enums.setdefault(e['q'], e)
    for g in data['globals']:
        if g['q'] not in prog.globals or ('vals' in g or 'init' in g):
            g['_types'] = types
            prog.globals[g['q']] = g
    for n in data.get('non_instantiable', []):
        if n not in prog.non_instantiable:
            prog.non_instantiable.append(n)


# ------------------------------------------------------------------ generic tree helpers

EXPR_CHILD_KEYS = ('e', 'b', 'i', 'x', 'y', 'c', 'obj', 'ce', 'init', 'n', 'sizeofe')
EXPR_LIST_KEYS = ('a', 'items', 'caps', 'ch', 'placement')


def expr_children(e):
    if not isinstance(e, dict):
        return
    for k in EXPR_CHILD_KEYS:
        v = e.get(k)
        if isinstance(v, dict):
            yield v
    for k in EXPR_LIST_KEYS:
        v = e.get(k)
        if isinstance(v, list):
            for x in v:
                if isinstance(x, dict):
                    yield x
    if e.get('k') == 'stmtexpr' and isinstance(e.get('body'), dict):
        for x in stmt_exprs(e['body']):
            yield x


def walk_expr(e):
    """Pre-order walk of an expression tree (does not enter lambda bodies)."""
    if not isinstance(e, dict):
        return
    yield e
    for c in expr_children(e):
        for x in walk_expr(c):
            yield x


def stmt_children(s):
    if not isinstance(s, dict):
        return
    k = s.get('k')
    for key in ('init', 'then', 'else', 'body', 'sub'):
        v = s.get(key)
        if isinstance(v, dict) and 'k' in v and key != 'init' or (key == 'init' and isinstance(v, dict) and k in ('if', 'for', 'switch')):
            yield v
    for key in ('s', 'handlers'):
        v = s.get(key)
        if isinstance(v, list):
            for x in v:
                if isinstance(x, dict):
                    yield x
    if k == 'otherstmt':
        for x in s.get('ch', []):
            if isinstance(x, dict):
                yield x


def stmt_own_exprs(s):
    """Expressions directly owned by a statement (not those of sub-statements)."""
    k = s.get('k')
    if k == 'expr' or k == 'return':
        if s.get('e') is not None:
            yield s['e']
    elif k == 'decl':
        for v in s['vars']:
            if v.get('init') is not None:
                yield v['init']
    elif k in ('if', 'while', 'do', 'switch', 'for'):
        cv = s.get('cv')
        if cv and cv.get('init') is not None:
            yield cv['init']
        if s.get('c') is not None:
            yield s['c']
        if k == 'for' and s.get('inc') is not None:
            yield s['inc']
    elif k == 'case':
        pass


def walk_stmts(s):
    if not isinstance(s, dict):
        return
    yield s
    for c in stmt_children(s):
        for x in walk_stmts(c):
            yield x


def stmt_exprs(s):
    """All expression nodes (pre-order) in a statement tree."""
    for st in walk_stmts(s):
        for e in stmt_own_exprs(st):
            for x in walk_expr(e):
                yield x


def fn_exprs(f):
    for i in f.get('inits', []):
        for x in walk_expr(i.get('e')):
            yield x
    for x in stmt_exprs(f.get('body')):
        yield x


def strip(e):
    """Look through casts that do not change the designated object/value and temporaries."""
    while isinstance(e, dict):
        k = e.get('k')
        if k == 'cast' and e.get('ck') in ('LValueToRValue', 'NoOp', 'BitCast', 'IntegralCast', 'ArrayToPointerDecay',
                                           'DerivedToBase', 'UncheckedDerivedToBase', 'ToVoid', 'IntegralToBoolean',
                                           'PointerToBoolean', 'NullToPointer', 'BaseToDerived', 'Dependent'):
            e = e['e']
        elif k == 'temp':
            e = e['e']
        else:
            break
    return e


def strip_lv(e):
    """Strip only lvalue-to-rvalue loads, no-op casts and temporaries (value-preserving, type-preserving)."""
    while isinstance(e, dict):
        k = e.get('k')
        if k == 'cast' and e.get('ck') in ('LValueToRValue', 'NoOp'):
            e = e['e']
        elif k == 'temp':
            e = e['e']
        else:
            break
    return e


def const_val(e):
    """Integer value of a constant expression, if the front end could evaluate it."""
    if not isinstance(e, dict):
        return None
    if e.get('k') == 'int':
        return e.get('v')
    if 'cv' in e:
        return e['cv']
    if e.get('k') == 'cast' and e.get('ck') in ('LValueToRValue', 'NoOp', 'NullToPointer', 'NullToMemberPointer'):
        return const_val(e['e'])
    return None


def T(f, tid):
    return f['_types'].get(tid, {}) if tid else {}


def type_str(f, tid):
    return T(f, tid).get('s', '?')


# ------------------------------------------------------------------ pretty printer

def pe(e, depth=0):
    """Expression to compact source-like text (for reports and samples)."""
    if e is None:
        return ''
    if depth > 12:
        return '...'
    k = e.get('k')
    d = depth + 1
    if k == 'int':
        if e.get('enumc'):
            return e['en']
        if e.get('chr'):
            v = e['v']
            return repr(chr(v)) if 32 <= v < 127 else "'\\x%02x'" % (v & 255)
        if e.get('sizeof') is not None:
            return 'sizeof(..)=%d' % e['v']
        return str(e['v'])
    if k == 'float':
        return repr(e['v'])
    if k == 'str':
        try:
            return json.dumps(bytes(e['b']).decode('latin-1'))
        except Exception:
            return '"..."'
    if k == 'var':
        return e['n']
    if k == 'this':
        return 'this'
    if k == 'fn':
        return e['q']
    if k == 'mem':
        if 'b' not in e:
            return e['f']
        b = e['b']
        if b.get('k') == 'this' and e.get('impl'):
            return e['f']
        return pe(b, d) + ('->' if e.get('arrow') else '.') + e['f']
    if k == 'cast':
        if e.get('expl'):
            return '(%s)%s' % ('T%d' % e['t'], pe(e['e'], d))
        return pe(e['e'], d)
    if k == 'temp':
        return pe(e['e'], d)
    if k == 'call':
        args = ', '.join(pe(a, d) for a in e.get('a', []))
        name = (e.get('fn') or pe(e.get('ce'), d) or '?')
        short = name.split('::')[-1] if '::' in name and '<' not in name.split('::')[-1] else name.rsplit('::', 1)[-1]
        if e.get('ck') == 'op':
            op = e.get('op')
            if 'obj' in e:
                if op == '[]':
                    return '%s[%s]' % (pe(e['obj'], d), args)
                if op == '()':
                    return '%s(%s)' % (pe(e['obj'], d), args)
                if not e.get('a'):
                    return '%s%s' % (op, pe(e['obj'], d))
                return '(%s %s %s)' % (pe(e['obj'], d), op, args)
            a = e.get('a', [])
            if len(a) == 2:
                return '(%s %s %s)' % (pe(a[0], d), op, pe(a[1], d))
            return '%s(%s)' % (op, args)
        if 'obj' in e:
            o = e['obj']
            if o.get('k') == 'this' and e.get('impl'):
                return '%s(%s)' % (short, args)
            return '%s%s%s(%s)' % (pe(o, d), '->' if e.get('arrow') else '.', short, args)
        return '%s(%s)' % (short, args)
    if k == 'construct':
        name = e.get('cls') or e.get('fn') or '?'
        return '%s(%s)' % (name.split('::')[-1] if '<' not in name else name, ', '.join(pe(a, d) for a in e.get('a', [])))
    if k == 'new':
        return 'new %s%s' % ('[]' if e.get('array') else '', pe(e.get('init'), d))
    if k == 'delete':
        return 'delete%s %s' % ('[]' if e.get('array') else '', pe(e['e'], d))
    if k == 'un':
        op = e['op']
        if op.startswith('post'):
            return pe(e['e'], d) + op[4:]
        if op.startswith('pre'):
            return op[3:] + pe(e['e'], d)
        return op + pe(e['e'], d)
    if k == 'bin':
        return '(%s %s %s)' % (pe(e['x'], d), e['op'], pe(e['y'], d))
    if k == 'cond':
        return '(%s ? %s : %s)' % (pe(e['c'], d), pe(e['x'], d), pe(e['y'], d))
    if k == 'idx':
        return '%s[%s]' % (pe(e['b'], d), pe(e['i'], d))
    if k == 'initlist':
        return '{%s}' % ', '.join(pe(a, d) for a in e.get('items', []))
    if k == 'lambda':
        return '[lambda %s]' % e.get('q', '')
    if k == 'throw':
        return 'throw'
    return '<%s>' % (e.get('cls') or k)


def ps(s, ind=0, out=None):
    """Statement tree to indented text."""
    top = out is None
    if out is None:
        out = []
    pad = '  ' * ind
    if s is None:
        return out
    k = s.get('k')
    l = s.get('l', 0)
    def line(t):
        out.append('%5d %s%s' % (l, pad, t))
    if k == 'block':
        for x in s['s']:
            ps(x, ind, out)
    elif k == 'expr':
        line(pe(s['e']) + ';')
    elif k == 'decl':
        for v in s['vars']:
            line('%s %s%s;' % ('T%d' % v['t'], v['n'], (' = ' + pe(v['init'])) if v.get('init') else ''))
    elif k == 'if':
        line('if (%s)' % pe(s['c']))
        ps(s['then'], ind + 1, out)
        if s.get('else'):
            out.append('      %selse' % pad)
            ps(s['else'], ind + 1, out)
    elif k == 'while':
        cv = s.get('cv')
        line('while (%s%s)' % ((cv['n'] + ' = ' + pe(cv.get('init')) + ' ; ') if cv else '', pe(s['c'])))
        ps(s['body'], ind + 1, out)
    elif k == 'do':
        line('do')
        ps(s['body'], ind + 1, out)
        out.append('      %swhile (%s)' % (pad, pe(s['c'])))
    elif k == 'for':
        line('for (..; %s; %s)' % (pe(s.get('c')), pe(s.get('inc'))))
        if s.get('init'):
            ps(s['init'], ind + 2, out)
        ps(s['body'], ind + 1, out)
    elif k == 'switch':
        line('switch (%s)' % pe(s['c']))
        ps(s['body'], ind + 1, out)
    elif k == 'case':
        line('case %s:' % s.get('v'))
        ps(s['sub'], ind + 1, out)
    elif k == 'default':
        line('default:')
        ps(s['sub'], ind + 1, out)
    elif k == 'return':
        line('return %s;' % pe(s.get('e')))
    elif k == 'label':
        line('%s:' % s['n'])
        ps(s['sub'], ind, out)
    elif k == 'goto':
        line('goto %s;' % s['label'])
    elif k in ('break', 'continue', 'null'):
        line(k + ';')
    elif k == 'try':
        line('try')
        ps(s['body'], ind + 1, out)
    else:
        line('<%s>' % k)
    return '\n'.join(out) if top else out


if __name__ == '__main__':
    # debugging aid: python3 bin/ir.py <source> <function-substring> [--force]
    src = sys.argv[1]
    pat = sys.argv[2] if len(sys.argv) > 2 else ''
    force = '--force' in sys.argv
    p = load_units([src], force_inst=[src] if force else [])
    for f in p.functions:
        if pat in f['q']:
            print('==', f['q'], f['sig'], f['file'], f['line'], f.get('kind'))
            for i in f.get('inits', []):
                print('   init', i.get('field') or i.get('base'), '=', pe(i['e']))
            print(ps(f['body']))
    print('units', p.units, 'functions', len(p.functions), 'noninst', p.non_instantiable, 'wall %.2f' % p.wall)
