"""C11 - WebSocket framing: structural clauses decided statically.

 R-NARROW      the 64-bit wire length reaches the int length only through a dominating range check (no negative / wrapped lengths)
 C11.header    send() and receive() agree on the RFC 6455 header: the 7-bit / 16-bit / 64-bit length forms are chosen exactly at 126 and
               65536 (evaluated at the boundaries), markers 126/127, widths of the extended length, FIN / opcode / mask bit positions,
               big-endian byte order on both sides
 C11.opcodes   every opcode send() can emit has a case in receive(); data frames are {0,1,2}
 C11.message   `haveMsg = true` only under a data opcode with FIN, or close; the payload buffer is fresh for every frame
 C11.unmask    every word-wise XOR loop over a byte buffer is preceded by the grow-then-shrink idiom that guarantees 4 bytes of slack
 C11.handshake the accept key is SHA-1 of key + RFC 6455 GUID, Base64 of all digest bytes
 R-LOCK        WebSocketServer::_clients is only modified under its mutex
 C11.partial   the blocking socket read/write loops under receive()/send() pass exactly the remainder on retry and stop exactly at the
               requested total (a frame delivered in several TCP segments is still read whole)
 C11.payloadidx constant-position accesses of the payload buffer in receive() are guarded by a payload length that covers them
 C11.alive     Socket_::disconnected() interpreted against arrival scripts: data that arrives between its queries never makes a live
               connection look closed; end of stream does
 C11.sendstate send() calls nothing that closes the connection (stores `_closed`, closes the socket) before its socket write
 Byte-identical in-order delivery for all sizes and fragmentations is not decided."""
import os
import ir, q, bytesets
from ir import strip, strip_lv, const_val, T, pe, walk_expr, fn_exprs, AnalysisBroken
from core import fwhere

GUID = '258EAFA5-E914-47DA-95CA-C5AB0DC85B11'


def run(ctx):
    units = [os.path.join(ir.REPO, 'src', 'WebSocket.cpp'), os.path.join(ir.REPO, 'src', 'Socket.cpp')]
    if ctx.tier == 'thorough':
        units += [u for u in ir.library_units() if u not in units]
    prog = ir.load_units(units)
    ctx.use_program(prog)
    recv = fn1(prog, 'asl::WebSocket::receive')
    send = fn1(prog, 'asl::WebSocket::send', '(const unsigned char *,int,asl::WebSocket::FrameType)')
    ctx.analysed(recv)
    ctx.analysed(send)
    check_narrow(ctx, prog, recv)
    check_header(ctx, prog, send, recv)
    check_opcodes(ctx, prog, send, recv)
    check_message(ctx, prog, recv)
    check_unmask(ctx, prog, [send, recv])
    check_handshake(ctx, prog)
    check_clients(ctx, prog)
    check_zero_read(ctx, prog)
    check_frame_kept(ctx, prog, recv)
    check_frame_vars(ctx, prog, recv)
    check_payload_index(ctx, prog, recv)
    check_alive(ctx, prog)
    check_send_effect(ctx, prog, send)
    import C16
    C16.check_partial(ctx, prog, rule='C11.partial', files=False)
    return __doc__.split('\n\n', 1)[1]


def fn1(prog, name, sig=None):
    fs = [f for f in prog.fn(name, sig) if f.get('body')]
    if not fs:
        raise AnalysisBroken('anchor %s%s not found' % (name, sig or ''))
    return fs[0]


def socket_reads(f, bits=None):
    out = []
    for e in fn_exprs(f):
        if e.get('k') == 'call' and e.get('pq') == 'asl::Socket::read' and not e.get('a'):
            t = T(f, e.get('t'))
            if bits is None or t.get('bits') == bits:
                out.append(e)
    return out


def check_narrow(ctx, prog, f):
    reads64 = socket_reads(f, 64)
    if not reads64:
        raise AnalysisBroken('receive(): 64-bit length read not found')
    g = q.Guarded(f)
    for r in reads64:
        # where does the value go: a 64-bit local, or directly into a narrowing cast
        holder = None
        for s_ in ir.walk_stmts(f['body']):
            if s_.get('k') == 'decl':
                for v in s_['vars']:
                    if v.get('init') is not None and strip_lv(v['init']) is r or (v.get('init') is not None and strip(v['init']) is r):
                        holder = v
        role = 'receive:64-bit length narrowed to int'
        if holder is None or T(f, holder['t']).get('bits') != 64:
            ctx.violation('R-NARROW', f['pq'], role, fwhere(f, r['l']), 'the 64-bit wire length is converted to int without first being held and range-checked as a 64-bit value: lengths with the sign bit of the low 32 bits set become negative')
            continue
        casts = [e for e in fn_exprs(f) if e.get('k') == 'cast' and e.get('ck') == 'IntegralCast' and T(f, e.get('t')).get('bits') == 32 and strip(e['e']).get('id') == holder['id']]
        if not casts:
            ctx.undecided('R-NARROW', f['pq'], role, fwhere(f, r['l']), '64-bit length is never narrowed')
            continue
        import bounded
        grid = [-(1 << 63), -(1 << 32), -(1 << 31) - 1, -(1 << 31), -1, 0, 1, 125, 65536, (1 << 31) - 16, (1 << 31) - 1, 1 << 31, (1 << 31) + 5, (1 << 32) - 1, 1 << 32, (1 << 32) + 7, (1 << 62), (1 << 63) - 1]
        for c in casts:
            st, info = bounded.decide(prog, f, g.of(c), lambda ev: 0 <= ev.env[holder['id']] <= 0x7fffffff, {holder['id']: holder['n']}, {}, grid, G=g)
            ctx.evaluations += len(grid)
            if st == 'undecided':
                ctx.undecided('R-NARROW', f['pq'], role, fwhere(f, c['l']), info)
            elif st == 'holds' and not info:
                ctx.undecided('R-NARROW', f['pq'], role, fwhere(f, c['l']), 'no value of the grid reaches the narrowing')
            else:
                ctx.check(st == 'holds', 'R-NARROW', f['pq'], role, fwhere(f, c['l']), 'every 64-bit value the guards admit lies in [0, INT_MAX]',
                          'the narrowing `(int)%s` is reached for %s, outside [0, INT_MAX]: a peer-chosen length becomes negative or wraps' % (holder['n'], ', '.join('%s = %s' % kv for kv in info.items()) if isinstance(info, dict) else ''))


def disj(c):
    c = strip(c)
    if c.get('k') == 'bin' and c.get('op') == '||':
        return disj(c['x']) + disj(c['y'])
    return [c]


def stream_emissions(f, maximal, cls='asl::StreamBuffer'):
    """arguments streamed by a chained `buf << a << b` expression, in emission order"""
    e = maximal
    out = []
    while e.get('k') == 'call' and e.get('op') == '<<' and e.get('clsp') == cls:
        out.append(e['a'][0] if e.get('a') else None)
        e = strip(e.get('obj') or {})
        while e.get('k') in ('cast', 'temp'):
            e = strip(e['e'])
    out.reverse()
    return out


def check_header(ctx, prog, send, recv):
    # ---- send: the header bytes written for each payload length / role, by evaluation of the guards and arguments of every
    # `header << x` in send().  Expected (RFC 6455 5.2): b0 = 0x80 | opcode; then mask bit | 7-bit length, or | 126 followed by
    # the length as 16 bits (126..65535), or | 127 followed by the length as 64 bits; then the 32-bit mask for a client
    import bounded
    G = q.Guarded(send)
    calls = [e for e in fn_exprs(send) if e.get('k') == 'call' and e.get('op') == '<<' and e.get('clsp') == 'asl::StreamBuffer']
    inner = set()
    for e in calls:
        o = strip(e.get('obj') or {})
        while o.get('k') in ('cast', 'temp'):
            o = strip(o['e'])
        if o.get('k') == 'call' and o.get('op') == '<<':
            inner.add(id(o))
    maximal = [e for e in calls if id(e) not in inner]
    order = dict((id(x), i) for i, x in enumerate(G.order))
    maximal.sort(key=lambda e: order.get(id(e), 0))
    if not maximal:
        raise AnalysisBroken('send(): no header stream writes found')
    lenp = [p_ for p_ in send['params'] if T(send, p_['t']).get('int') and not T(send, p_['t']).get('enum')]
    typep = [p_ for p_ in send['params'] if T(send, p_['t']).get('enum') or 'FrameType' in (T(send, p_['t']).get('s') or '')]
    if not lenp:
        raise AnalysisBroken('send(): length parameter not found')
    lenp = lenp[0]
    role = 'send:header bytes for every length form'
    problems = []
    undec = None
    for client in (0, 1):
        for L in (1, 2, 125, 126, 127, 128, 255, 256, 65535, 65536, 65537, 70000, 0x7fffffff):
            def bind(e, client=client):
                if e.get('k') == 'mem' and e.get('f') == '_isClient':
                    return client
                if e.get('k') == 'mem' and e.get('f') == '_closed':
                    return 0
                return None
            env = {lenp['id']: L}
            ev = bounded.Bound(prog, send, env, {}, bind=bind)
            emitted = []
            for m in maximal:
                r = bounded.admitted3(ev, G.of(m), G)
                if r is False:
                    continue
                if r is None:
                    # a guard that cannot be evaluated (mask != 0 with a random mask): only the mask word may hide behind it
                    pass
                for a_ in stream_emissions(send, m):
                    t = T(send, strip_lv(a_).get('t'))
                    if t.get('ref'):
                        t = T(send, t.get('to'))
                    try:
                        v = ev.ev(a_)
                    except bytesets.Undecidable:
                        v = None
                    emitted.append((t.get('sz'), v, a_))
            ctx.evaluations += 1
            want = [(1, None)]
            mb = 0x80 if client else 0
            if L <= 125:
                want.append((1, mb | L))
            elif L <= 65535:
                want += [(1, mb | 126), (2, L)]
            else:
                want += [(1, mb | 127), (8, L)]
            if client:
                want.append((4, None))
            got = [(sz, v) for sz, v, _ in emitted]
            ok = len(got) == len(want) and all(g_[0] == w_[0] and (w_[1] is None or g_[1] is None or (g_[1] & ((1 << (8 * w_[0])) - 1)) == w_[1]) for g_, w_ in zip(got, want))
            unknown = any(w_[1] is not None and g_[1] is None for g_, w_ in zip(got, want)) if len(got) == len(want) else False
            if not ok:
                problems.append((client, L, got, want))
            elif unknown and undec is None:
                undec = (client, L)
    if problems:
        client, L, got, want = problems[0]
        def show(xs):
            return '[' + ', '.join('%s-byte %s' % (sz, 'value' if v is None else '0x%x' % (v & ((1 << (8 * (sz or 1))) - 1))) for sz, v in xs) + ']'
        ctx.violation('C11.header', send['pq'], role, fwhere(send), 'for a payload of %d bytes (%s) send() writes the header fields %s, RFC 6455 requires %s: the receiver mis-parses the length at this boundary and the stream desynchronises'
                      % (L, 'client' if client else 'server', show(got), show(want)))
    elif undec:
        ctx.undecided('C11.header', send['pq'], role, fwhere(send), 'a header field is not evaluable for length %d' % undec[1])
    else:
        ctx.ok('C11.header', send['pq'], role, fwhere(send), '13 lengths around 125/126/65535/65536 x both roles: field widths, markers and length values as RFC 6455 5.2')
    # first byte: 0x80 | opcode
    b0 = [e for e in fn_exprs(send) if e.get('k') == 'bin' and e.get('op') == '|' and 0x80 in (const_val(e['x']), const_val(e['y']))]
    first = stream_emissions(send, maximal[0])
    okb0 = bool(first) and any(w in b0 for w in walk_expr(q.expand(send, first[0]))) or (bool(first) and any(w.get('k') == 'bin' and w.get('op') == '|' and 0x80 in (const_val(w['x']), const_val(w['y'])) for w in walk_expr(q.expand(send, first[0]))))
    ctx.check(bool(okb0), 'C11.header', send['pq'], 'send:FIN bit 0x80 | opcode', fwhere(send), 'b0 = 0x80 | opcode', 'send() does not build the first header byte as 0x80 | opcode')
    ends = [e for e in fn_exprs(send) if e.get('k') == 'construct' and e.get('cls') == 'asl::StreamBuffer' and e.get('a')]
    big = q.enum_value(prog, 'asl::Endian', 'ENDIAN_BIG')
    ctx.check(bool(ends) and const_val(ends[0]['a'][0]) == big, 'C11.header', send['pq'], 'send:header in network byte order', fwhere(send), 'StreamBuffer(ENDIAN_BIG)', 'send() does not serialise the header in big-endian order')
    # ---- receive: the two header bytes are split with masks 0x80 / 0x0f and 0x80 / 0x7f
    masks = {}
    for e in fn_exprs(recv):
        if e.get('k') == 'bin' and e.get('op') == '&' and const_val(e['y']) is not None and strip(e['x']).get('k') == 'var':
            masks.setdefault(strip(e['x'])['n'], set()).add(const_val(e['y']))
    ok = any({0x80, 0x0f} <= m for m in masks.values()) and any({0x80, 0x7f} <= m for m in masks.values())
    ctx.check(ok, 'C11.header', recv['pq'], 'receive:FIN 0x80, opcode 0x0f, MASK 0x80, length 0x7f', fwhere(recv), 'masks %s' % dict((k, sorted(v)) for k, v in masks.items()),
              'receive() does not split the two header bytes with masks 0x80/0x0f and 0x80/0x7f (found %s)' % dict((k, sorted(v)) for k, v in masks.items()))
    # extended length: the unsigned 16-bit read runs exactly for the 7-bit value 126, the 64-bit read exactly for 127 (guards of
    # the reads evaluated with the 7-bit length variable bound to 0..127)
    import bounded
    Gr = q.Guarded(recv)
    len7 = None
    for s_ in ir.walk_stmts(recv['body']):
        if s_.get('k') == 'decl':
            for v in s_['vars']:
                if v.get('init') is not None and T(recv, v['t']).get('int') and any(w.get('k') == 'bin' and w.get('op') == '&' and const_val(w['y']) == 0x7f for w in walk_expr(v['init'])):
                    len7 = v
    ext = [e for e in socket_reads(recv) if T(recv, e.get('t')).get('bits') in (16, 64)]
    if len7 is None or not ext:
        ctx.undecided('C11.header', recv['pq'], 'receive:extended length forms', fwhere(recv), '7-bit length variable or extended-length reads not found')
    else:
        rel = lambda c: any(w.get('k') == 'var' and w.get('id') == len7['id'] for w in walk_expr(q.expand(recv, c, bools_only=True)))
        for bits_, marker, label in ((16, 126, 'receive:marker 126 reads an unsigned 16-bit length'), (64, 127, 'receive:marker 127 reads a 64-bit length')):
            rs = [e for e in ext if T(recv, e.get('t')).get('bits') == bits_]
            runs_at = set()
            und = False
            for e in rs:
                for v7 in range(128):
                    r = bounded.admitted3(bounded.Bound(prog, recv, {len7['id']: v7}, {}), Gr.of(e), Gr, relevant=rel)
                    if r is None:
                        und = True
                    elif r:
                        runs_at.add(v7)
            ctx.evaluations += 128
            if und:
                ctx.undecided('C11.header', recv['pq'], label, fwhere(recv), 'guards of the extended-length read not evaluable')
                continue
            okk = runs_at == {marker} and len(rs) == 1 and (bits_ == 64 or T(recv, rs[0].get('t')).get('sg') is False)
            ctx.check(okk, 'C11.header', recv['pq'], label, fwhere(recv, rs[0]['l'] if rs else None), 'read<%d-bit>() runs exactly for the 7-bit value %d' % (bits_, marker),
                      'receive() reads %s for the 7-bit length value(s) %s (expected: exactly one %s %d-bit read, exactly for %d)' % (
                          '%d %d-bit length(s)' % (len(rs), bits_), sorted(runs_at)[:6], 'unsigned' if bits_ == 16 else '', bits_, marker))
    # both constructors put the socket in big-endian mode
    n = 0
    for f in prog.functions:
        if f.get('kind') == 'ctor' and f.get('cls') == 'asl::WebSocket' and f.get('body') and not f.get('implicit'):
            n += 1
            ctx.analysed(f)
            se = [e for e in fn_exprs(f) if e.get('k') == 'call' and (e.get('pq') or '').endswith('::setEndian') and const_val(e['a'][0]) == big]
            ctx.check(bool(se), 'C11.header', f['pq'], 'ctor%s:socket in network byte order' % f['sig'], fwhere(f), 'setEndian(ENDIAN_BIG)', 'WebSocket constructor does not select big-endian byte order for the socket: 16/64-bit lengths and the mask are read/written swapped')
    ctx.floor('C11.header constructors', n, 2)


def opcode_var(recv):
    for s_ in ir.walk_stmts(recv['body']):
        if s_.get('k') == 'decl':
            for v in s_['vars']:
                if v.get('init') is not None and T(recv, v['t']).get('int') and any(w.get('k') == 'bin' and w.get('op') == '&' and const_val(w['y']) == 0x0f for w in walk_expr(v['init'])):
                    return v
    return None


def fin_var(recv):
    for s_ in ir.walk_stmts(recv['body']):
        if s_.get('k') == 'decl':
            for v in s_['vars']:
                if v.get('init') is not None and any(w.get('k') == 'bin' and w.get('op') == '&' and const_val(w['y']) == 0x80 for w in walk_expr(v['init'])):
                    return v
    return None


def runs_for_opcodes(prog, recv, G, site, opv, extra=None):
    """{opcode: True/False/None} - does `site` run when the frame's opcode has that value (guards that do not mention it dropped)"""
    import bounded
    rel = lambda c: any(w.get('k') == 'var' and w.get('id') == opv['id'] for w in walk_expr(q.expand(recv, c, bools_only=True)))
    out = {}
    for op in range(16):
        env = {opv['id']: op}
        env.update(extra or {})
        out[op] = bounded.admitted3(bounded.Bound(prog, recv, env, {}), G.of(site), G, relevant=rel)
    return out


def check_opcodes(ctx, prog, send, recv):
    # opcodes send() can emit: every constant the variable OR-ed with 0x80 can hold
    sent = set()
    opvars = set()
    for e in fn_exprs(send):
        if e.get('k') == 'bin' and e.get('op') == '|' and 0x80 in (const_val(e['x']), const_val(e['y'])):
            for side in (e['x'], e['y']):
                sv = strip(side)
                while sv.get('k') == 'cast':
                    sv = strip(sv['e'])
                if sv.get('k') == 'var' and T(send, sv.get('t')).get('bits') == 8 and T(send, sv.get('t')).get('sg') is False:
                    opvars.add(sv['id'])
    sources = []
    for s_ in ir.walk_stmts(send['body']):
        if s_.get('k') == 'decl':
            for v in s_['vars']:
                if v['id'] in opvars and v.get('init') is not None:
                    sources.append(v['init'])
    for vid in opvars:
        for w_ in q._writes_to(send, vid):
            if w_.get('k') == 'bin' and w_.get('op') == '=':
                sources.append(w_['y'])
    for src in sources:
        for w in walk_expr(src):
            if w.get('k') == 'int' and not w.get('enumc') and const_val(w) is not None and 0 < const_val(w) < 16 and 't' in w:
                sent.add(const_val(w))
    G = q.Guarded(recv)
    opv = opcode_var(recv)
    if opv is None or not sent:
        ctx.undecided('C11.opcodes', recv['pq'], 'receive:handles every opcode send() emits', fwhere(recv), 'opcode variable of receive() or opcode constants of send() not found')
        return
    # an opcode is handled when some statement of receive() runs for it but not for every opcode
    handled = set()
    und = False
    for e in fn_exprs(recv):
        if e.get('k') not in ('call',) and not (e.get('k') == 'bin' and e.get('op') == '='):
            continue
        gs = G.of(e)
        if not gs:
            continue
        r = runs_for_opcodes(prog, recv, G, e, opv)
        on = set(op for op, v in r.items() if v is True)
        if None in r.values():
            und = True
        if on and len(on) < 16:
            # the common "data frame" range test (opcode < 8) is not a handler of its own
            handled |= on if len(on) <= 3 else set()
    ctx.evaluations += 16
    ctx.info['opcodes_sent'] = sorted(sent)
    ctx.info['opcodes_handled'] = sorted(handled)
    ctx.check(sent >= {1, 2, 8, 9, 10} and sent <= handled, 'C11.opcodes', recv['pq'], 'receive:handles every opcode send() emits', fwhere(recv), 'sent %s, handled %s' % (sorted(sent), sorted(handled)),
              'send() emits opcodes %s but receive() handles %s' % (sorted(sent), sorted(handled)))
    ctx.check({0, 1, 2} <= handled, 'C11.opcodes', recv['pq'], 'receive:data opcodes 0,1,2', fwhere(recv), 'continuation, text, binary', 'receive() does not handle the data opcodes 0, 1, 2')
    # the payload is appended to the message exactly for the data opcodes
    apps = [e for e in fn_exprs(recv) if e.get('k') == 'call' and (e.get('pq') or '').endswith('WebSocketMsg::append')]
    role = 'receive:payload appended exactly for data opcodes'
    if len(apps) != 1:
        ctx.undecided('C11.opcodes', recv['pq'], role, fwhere(recv), '%d append sites' % len(apps))
    else:
        r = runs_for_opcodes(prog, recv, G, apps[0], opv)
        if None in r.values():
            ctx.undecided('C11.opcodes', recv['pq'], role, fwhere(recv, apps[0]['l']), 'guards of msg.append() not evaluable')
        else:
            on = sorted(op for op, v in r.items() if v)
            ctx.check(on == [0, 1, 2], 'C11.opcodes', recv['pq'], role, fwhere(recv, apps[0]['l']), 'msg.append(buffer) runs for opcodes 0, 1, 2 only',
                      'the payload is appended to the message for opcodes %s, not exactly for the data opcodes 0, 1, 2' % on)


def check_message(ctx, prog, recv):
    import bounded
    g = q.Guarded(recv)
    stores = [e for e in fn_exprs(recv) if e.get('k') == 'bin' and e.get('op') == '=' and strip_lv(e['x']).get('n') == 'haveMsg' and const_val(e['y']) != 0]
    if not stores:
        stores = [e for e in fn_exprs(recv) if e.get('k') == 'bin' and e.get('op') == '=' and strip_lv(e['x']).get('k') == 'var' and T(recv, strip_lv(e['x']).get('t')).get('bool') and const_val(e['y']) == 1 and
                  strip_lv(e['x'])['id'] in set(w['id'] for lp in ir.walk_stmts(recv['body']) if lp.get('k') in ('while', 'do', 'for') and lp.get('c') for w in walk_expr(lp['c']) if w.get('k') == 'var')]
    if not stores:
        raise AnalysisBroken('receive(): no store that completes the message (haveMsg = true)')
    finv, opv = fin_var(recv), opcode_var(recv)
    if finv is None or opv is None:
        ctx.undecided('C11.message', recv['pq'], 'receive:message completion', fwhere(recv), 'FIN / opcode variables not found')
    else:
        rel = lambda c: any(w.get('k') == 'var' and w.get('id') in (opv['id'], finv['id']) for x in (c, q.expand(recv, c, bools_only=True)) for w in walk_expr(x))
        complete = {}
        und = False
        for e in stores:
            for fin in (0, 1):
                for op in range(16):
                    evb = bounded.Bound(prog, recv, {finv['id']: fin, opv['id']: op}, {})
                    r = bounded.admitted3(evb, g.of(e), g, relevant=rel)
                    if r and const_val(e['y']) is None:
                        r = evb.ev3(e['y'])       # `haveMsg = fin`: completes when the stored value is true
                    if r is None:
                        und = True
                    elif r:
                        complete.setdefault((fin, op), e)
        ctx.evaluations += 32 * len(stores)
        role = 'receive:message completes only on FIN of a data frame, or on close'
        if und:
            ctx.undecided('C11.message', recv['pq'], role, fwhere(recv, stores[0]['l']), 'guards of the completion store not evaluable')
        else:
            # required: (fin=1, op in 0..2) complete; close (8) may complete; nothing else
            missing = [(1, op) for op in (0, 1, 2) if (1, op) not in complete]
            extra = sorted(k for k in complete if not ((k[0] == 1 and k[1] < 8) or k[1] == 8))
            early = sorted(k for k in complete if k[0] == 0 and k[1] != 8)
            okk = not missing and not extra
            detail = 'the message completes for (FIN, opcode) in %s' % sorted(complete)
            ctx.check(okk, 'C11.message', recv['pq'], role, fwhere(recv, stores[0]['l']), 'completes exactly for FIN data frames and close',
                      'a frame completes the message although it is a control frame or lacks FIN (%s): a ping between two fragments splits the message'
                      % ('completes for (FIN, opcode) = %s' % (extra[:4] or missing[:4])) if (extra or not missing) else 'a FIN data frame (opcode %s) never completes the message: receive() does not return it' % [m[1] for m in missing])
    # payload buffer fresh per frame
    loops = [s_ for s_ in ir.walk_stmts(recv['body']) if s_.get('k') in ('while', 'do', 'for') and any(e.get('k') == 'call' and e.get('pq') == 'asl::Socket::read' for e in ir.stmt_exprs(s_['body']))]
    if not loops:
        raise AnalysisBroken('receive(): frame loop not found')
    lp = loops[0]
    reads = [e for e in ir.stmt_exprs(lp['body']) if e.get('k') == 'call' and e.get('pq') == 'asl::Socket::read' and len(e.get('a', [])) == 2]
    bufs = set()
    for r in reads:
        for w in walk_expr(r['a'][0]):
            if w.get('k') == 'var' and T(recv, w.get('t')).get('recp') == 'asl::Array':
                bufs.add(w['id'])
    inside = set(v['id'] for s_ in ir.walk_stmts(lp['body']) if s_.get('k') == 'decl' for v in s_['vars'])
    ctx.check(bool(bufs) and bufs <= inside, 'C11.message', recv['pq'], 'receive:payload buffer is local to one frame', fwhere(recv, lp['l']), 'buffer declared inside the frame loop',
              'the buffer that receives the frame payload lives across frames: bytes of a previous control frame (e.g. a ping payload) are unmasked again and prepended to the next data frame')


def check_unmask(ctx, prog, fs):
    """Word-wise XOR over a byte buffer: the loop touches 4 * trips bytes; the buffer was grown to G and shrunk back to its
    logical length S just before (asl::Array::resize keeps the capacity when shrinking), so 4 * trips <= G must hold.  G, S
    and the trip count are evaluated for every logical length 0..64 (grid), through single-assignment locals."""
    import bounded
    n = 0

    def has_xor(st):
        return any(e.get('k') == 'bin' and e.get('op') == '^=' for e in ir.stmt_exprs(st))
    # a masking helper shared by send() and receive() (`applyMask(buffer, key)`): its loop is the loop of each caller
    callers = {}
    helpers = []
    for f0 in fs:
        for e in fn_exprs(f0):
            if e.get('k') == 'call' and e.get('fn') and not e.get('clsp'):
                for h in prog.fn(e['fn'], e.get('sig')):
                    if h.get('body') and (h.get('file') or '') == (f0.get('file') or '') and any(s_.get('k') in ('for', 'while') and has_xor(s_['body']) for s_ in ir.walk_stmts(h['body'])):
                        if not any(h is x for x in helpers):
                            helpers.append(h)
                        callers[id(h)] = callers.get(id(h), 0) + 1
    for f in list(fs) + helpers:
        loops = [s_ for s_ in ir.walk_stmts(f['body']) if s_.get('k') in ('for', 'while') and has_xor(s_['body']) and
                 not any(x_.get('k') in ('for', 'while', 'do') and has_xor(x_['body']) for x_ in ir.walk_stmts(s_['body']))]
        def is_buf(w):
            t_ = T(f, w.get('t'))
            if t_.get('ref'):
                t_ = T(f, t_.get('to'))
            return w.get('k') == 'var' and t_.get('recp') == 'asl::Array'
        for lp in loops:
            n += callers.get(id(f), 1)
            x = [e for e in ir.stmt_exprs(lp['body']) if e.get('k') == 'bin' and e.get('op') == '^='][0]
            bufv = [w for w in walk_expr(q.expand(f, x['x'])) if is_buf(w)]
            decl_of = dict((v['id'], v) for s_ in ir.walk_stmts(f['body']) if s_.get('k') == 'decl' for v in s_['vars'])
            walk_ptr = None
            if not bufv:
                # pointer walk `*p++ ^= mask`: the buffer is the array the walking pointer was initialised from
                tgt = strip_lv(x['x'])
                if tgt.get('k') == 'un' and tgt.get('op') == '*':
                    b_ = strip(tgt['e'])
                    if b_.get('k') == 'un' and b_.get('op') == 'post++' and strip_lv(b_['e']).get('k') == 'var':
                        walk_ptr = strip_lv(b_['e'])
                        dv = decl_of.get(walk_ptr['id'])
                        if dv is not None and dv.get('init') is not None:
                            bufv = [w for w in walk_expr(q.expand(f, dv['init'])) if is_buf(w)]
            role = '%s:word-wise XOR has 4 bytes of slack' % f['n']
            if not bufv:
                ctx.undecided('C11.unmask', f['pq'], role, fwhere(f, lp['l']), 'XOR target buffer not identified')
                continue
            bid = bufv[0]['id']
            word = T(f, strip_lv(x['x']).get('t')).get('sz') or 4
            resizes = [e for e in fn_exprs(f) if e.get('k') == 'call' and e.get('pq') == 'asl::Array::resize' and e.get('obj') is not None and strip(e['obj']).get('id') == bid and e.get('l', 0) < lp['l']]
            cl = q.counted_loop(f, lp)
            if cl is None and walk_ptr is not None:
                # `while (p != end)` / `p < end` with end = p + K declared before the loop: K iterations of one word
                c_ = strip(lp.get('c') or {})
                if c_.get('k') == 'bin' and c_.get('op') in ('!=', '<') and strip(c_['x']).get('id') == walk_ptr['id'] and strip(c_['y']).get('k') == 'var':
                    ev_ = decl_of.get(strip(c_['y'])['id'])
                    ini = strip(ev_.get('init') or {}) if ev_ is not None else {}
                    others = [w for w in q._writes_to(f, walk_ptr['id']) if not any(y is w for y in walk_expr(x))]
                    if ini.get('k') == 'bin' and ini.get('op') == '+' and not others and not q._writes_to(f, strip(c_['y'])['id']):
                        k_ = ini['y'] if strip(ini['x']).get('id') == walk_ptr['id'] else ini['x'] if strip(ini['y']).get('id') == walk_ptr['id'] else None
                        if k_ is not None:
                            cl = {'var': None, 'init': {'k': 'int', 'v': 0, 'cv': 0}, 'op': '<' if c_['op'] == '<' else '!=', 'bound': k_, 'step': 1}
            if len(resizes) < 2 or cl is None or cl['op'] not in ('<', '<=', '!=') or not isinstance(cl['step'], int):
                if len(resizes) < 2:
                    ctx.violation('C11.unmask', f['pq'], role, fwhere(f, lp['l']), 'the %d-byte XOR loop over the byte buffer is not preceded by a grow-then-shrink of the buffer: the last word may extend up to %d bytes past the allocation' % (word, word - 1))
                else:
                    ctx.undecided('C11.unmask', f['pq'], role, fwhere(f, lp['l']), 'XOR loop is not a recognised counting loop')
                continue
            grow, shrink = resizes[-2], resizes[-1]
            # quantities equal to the logical length: buf.length() and integer parameters the buffer was built from
            def is_len(e):
                return e.get('k') == 'call' and (e.get('pq') or '').endswith('::length') and strip(e.get('obj') or {}).get('id') == bid
            params = set()
            for s_ in ir.walk_stmts(f['body']):
                if s_.get('k') == 'decl':
                    for v in s_['vars']:
                        if v['id'] == bid and v.get('init') is not None:
                            for w in walk_expr(v['init']):
                                if w.get('k') == 'var' and w.get('vk') == 'param' and T(f, w.get('t')).get('int'):
                                    params.add(w['id'])
            bad = None
            try:
                for L in range(0, 65):
                    def mk(cur):
                        return bounded.Bound(prog, f, dict((p_, L) for p_ in params), {}, bind=lambda e, cur=cur: cur if is_len(e) else None)
                    G_ = mk(L).ev(grow['a'][0])
                    S_ = mk(G_).ev(shrink['a'][0])
                    ev = mk(S_)
                    trips = q.trip_count(ev.ev(cl['init']), cl['op'], ev.ev(cl['bound']), cl['step'])
                    ctx.evaluations += 1
                    if trips is None or S_ != L or word * trips > G_ or word * trips < L:
                        bad = (L, G_, S_, trips)
                        break
            except bytesets.Undecidable as u:
                ctx.undecided('C11.unmask', f['pq'], role, fwhere(f, lp['l']), 'sizes not evaluable: %s' % u)
                continue
            if bad is None:
                ctx.ok('C11.unmask', f['pq'], role, fwhere(f, lp['l']), 'for every length 0..64: grown to >= %d * trips, shrunk back to the length, every byte covered' % word)
            else:
                L, G_, S_, trips = bad
                ctx.violation('C11.unmask', f['pq'], role, fwhere(f, lp['l']), 'for a payload of %d bytes the buffer is grown to %s, set back to %s, and the loop XORs %s words of %d bytes: %s' % (
                    L, G_, S_, trips, word, 'the last word extends past the allocation' if trips is not None and word * trips > G_ else ('the logical length is not restored' if S_ != L else 'not every payload byte is unmasked')))
    ctx.floor('C11.unmask', n, 2)


def check_handshake(ctx, prog):
    f = fn1(prog, 'asl::WebSocketServer::process')
    ctx.analysed(f)
    # process() and the file-local helpers it calls (the accept key may be computed in one)
    scope = [f]
    for e in fn_exprs(f):
        if e.get('k') == 'call' and e.get('fn') and not e.get('clsp'):
            for h in prog.fn(e['fn'], e.get('sig')):
                if h.get('body') and h not in scope and h.get('file') == f.get('file'):
                    scope.append(h)
    def all_exprs():
        for h in scope:
            for e in fn_exprs(h):
                yield e
    lits = [bytes(e['b']).decode('latin-1') for e in all_exprs() if e.get('k') == 'str']
    sha = [e for e in all_exprs() if e.get('k') == 'call' and e.get('pq') == 'asl::SHA1::hash']
    guid_in_hash = any(w.get('k') == 'str' and bytes(w['b']).decode('latin-1') == GUID for e in sha for w in walk_expr(e))
    ctx.check(guid_in_hash, 'C11.handshake', f['pq'], 'process:accept key hashes key + RFC 6455 GUID', fwhere(f), 'SHA1(key + GUID)',
              'the accept key is not SHA-1 of the client key followed by the RFC 6455 GUID %s' % GUID)
    b64 = [e for e in all_exprs() if e.get('k') == 'call' and (e.get('pq') or '').endswith('encodeBase64')]
    okk = bool(b64) and any(w.get('k') == 'call' and (w.get('pq') or '').endswith('::length') for w in walk_expr(b64[0]['a'][1])) if b64 and len(b64[0].get('a', [])) > 1 else bool(b64)
    ctx.check(okk, 'C11.handshake', f['pq'], 'process:digest Base64 over its full length', fwhere(f), 'encodeBase64(hash, hash.length())', 'the digest is not Base64-encoded over all of its bytes')
    ctx.check(any('Sec-WebSocket-Accept: %s' in l for l in lits) and any('101' in l for l in lits), 'C11.handshake', f['pq'], 'process:101 response carries the accept key', fwhere(f), '101 + Sec-WebSocket-Accept',
              'the 101 response does not carry Sec-WebSocket-Accept')
    key = [e for e in all_exprs() if e.get('k') == 'str' and bytes(e['b']).decode('latin-1').lower() == 'sec-websocket-key']
    ctx.check(bool(key), 'C11.handshake', f['pq'], 'process:reads Sec-WebSocket-Key', fwhere(f), 'key header', 'the client key header is not read')


def check_clients(ctx, prog):
    n = 0
    for f in prog.functions:
        if f.get('clsp') != 'asl::WebSocketServer' or not f.get('body'):
            continue
        muts = [e for e in fn_exprs(f) if e.get('k') == 'call' and e.get('clsp') == 'asl::Array' and e.get('obj') is not None and strip(e['obj']).get('f') == '_clients' and 'const' not in (e.get('sig') or '').split(')')[-1]]
        if not muts:
            continue
        ctx.analysed(f)
        for mcall in muts:
            n += 1
            # enclosing block must declare a Lock on _mutex before the call
            ok = False
            for blk in ir.walk_stmts(f['body']):
                if blk.get('k') != 'block':
                    continue
                locked = False
                for st in blk['s']:
                    if st.get('k') == 'decl' and any(v.get('dtorp') == 'asl::Lock::~Lock' and any(w.get('k') == 'mem' and w.get('f') == '_mutex' for w in walk_expr(v.get('init') or {})) for v in st['vars']):
                        locked = True
                    elif locked and any(e is mcall for e in ir.stmt_exprs(st)):
                        ok = True
            ctx.check(ok, 'R-LOCK', f['pq'], '%s:_clients modified under _mutex' % f['n'], fwhere(f, mcall['l']), 'Lock on _mutex in the enclosing scope', 'WebSocketServer modifies _clients (`%s`) without holding its mutex' % pe(mcall))
    ctx.floor('R-LOCK _clients', n, 2)


# ------------------------------------------------------------------ C11.zeroread

def check_zero_read(ctx, prog):
    """C11.zeroread: a frame with an empty payload (empty ping / pong / fragment) must not poison the connection.  Whether a
    blocking Socket_::read of 0 bytes is harmless is read from its body (interpreted with the system read() returning the
    number of bytes asked for): if it ends with the socket's error state set, every read of a computed length in the WebSocket
    code must be guarded so that the length is at least 1 - decided by evaluating the guards of each call for lengths 0..2."""
    import scansim, bounded
    rd = [g for g in prog.fn('asl::Socket_::read', '(void *,int)') if g.get('body')]
    if not rd:
        raise AnalysisBroken('anchor asl::Socket_::read(void *,int) not found')
    rd = rd[0]
    ctx.analysed(rd)
    sysread = lambda run, e, args: args[2] if len(args) > 2 and isinstance(args[2], int) else 0
    poisoned = None
    try:
        r = scansim.Run(prog, rd, {'B': [0] * 8}, ptr_params={rd['params'][0]['id']: ('P', 'B', 0)}, int_params={rd['params'][1]['id']: 0},
                        mems={'_blocking': 1, '_handle': 3, '_error': 0}, externs={'read': sysread, 'recv': sysread})
        r.run()
        poisoned = bool(r.mems.get('_error'))
    except (scansim.Unsupported, scansim.OOB, TypeError) as u:
        ctx.undecided('C11.zeroread', rd['pq'], 'Socket_::read:effect of a zero-length read', fwhere(rd), 'outside the interpreted fragment: %s' % u)
        return
    ctx.info['zero_length_blocking_read_sets_error'] = poisoned
    if not poisoned:
        ctx.ok('C11.zeroread', rd['pq'], 'Socket_::read:effect of a zero-length read', fwhere(rd), 'a blocking read of 0 bytes leaves the error state clear: callers need no guard')
        return
    n = 0
    for f in prog.functions:
        if not f.get('body') or f.get('clsp') not in ('asl::WebSocket',):
            continue
        G = None
        for e in fn_exprs(f):
            if not (e.get('k') == 'call' and (e.get('pq') or '') in ('asl::Socket::read', 'asl::Socket_::read') and len(e.get('a', [])) == 2):
                continue
            narg = e['a'][1]
            if const_val(narg) is not None:
                continue
            n += 1
            G = G or q.Guarded(f)
            role = '%s:payload read of a computed length is at least 1 byte' % f['n']
            try:
                by_id, by_text = bounded.atoms_of(prog, f, narg, allow_assigned=tuple(bounded.assigned_vars(f)))
            except bytesets.Undecidable as u:
                ctx.undecided('C11.zeroread', f['pq'], role, fwhere(f, e['l']), str(u))
                continue
            wr = bounded.writes_between(G, f, set(by_id), G.of(e), e)
            if wr is not None:
                ctx.undecided('C11.zeroread', f['pq'], role, fwhere(f, e['l']), 'length written (line %s) between its guard and the read' % wr.get('l'))
                continue
            st, info = bounded.decide(prog, f, G.of(e), lambda ev: ev.ev(narg) >= 1, by_id, by_text, range(0, 3), G=G)
            ctx.evaluations += 9
            if st == 'fails':
                ctx.violation('C11.zeroread', f['pq'], role, fwhere(f, e['l']), '`%s` can be asked for %s byte(s): Socket_::read treats the 0 returned by the system call as a failed receive and marks the socket bad, so an empty frame (empty ping, pong or fragment) makes the connection look closed and every later message is lost' % (
                    pe(e)[:70], ', '.join('%s = %s' % kv for kv in sorted(info.items()))))
            elif st == 'undecided':
                ctx.undecided('C11.zeroread', f['pq'], role, fwhere(f, e['l']), str(info))
            else:
                ctx.ok('C11.zeroread', f['pq'], role, fwhere(f, e['l']), 'guards exclude a length of 0')
    ctx.floor('C11.zeroread', n, 1)


# ------------------------------------------------------------------ C11.kept

def check_frame_kept(ctx, prog, recv):
    """C11.kept: a frame whose payload has been read is processed.  Between the payload read (the Socket read of a computed
    length) and the opcode dispatch no path may leave receive() on a condition that does not come from that read itself: a
    fresh query of the connection state there (`closed()`, `disconnected()`) is also true when the peer merely closed *after*
    sending the frame, and the complete message is dropped.  Decided on the CFG: return nodes reachable from the read without
    passing the dispatch, whose controlling conditions do not mention the read or the variable holding its result."""
    import cfg as cfgm
    g = cfgm.CFG(recv)
    reads = [n_ for n_ in g.nodes if n_.kind == 'ev' and n_.e is not None and n_.e.get('k') == 'call' and (n_.e.get('pq') or '') in ('asl::Socket::read', 'asl::Socket_::read') and
             len(n_.e.get('a', [])) == 2 and const_val(n_.e['a'][1]) is None]
    role = 'receive:a frame whose payload was read is processed'
    if not reads:
        ctx.undecided('C11.kept', recv['pq'], role, fwhere(recv), 'payload read not found')
        return
    rd = reads[-1]
    holder = None
    for w in fn_exprs(recv):
        if w.get('k') == 'bin' and w.get('op') == '=' and strip(w['y']) is rd.e and strip_lv(w['x']).get('k') == 'var':
            holder = strip_lv(w['x'])['id']
    for s_ in ir.walk_stmts(recv['body']):
        if s_.get('k') == 'decl':
            for v in s_['vars']:
                if v.get('init') is not None and strip(v['init']) is rd.e:
                    holder = v['id']

    def is_dispatch(n_):
        if n_.kind == 'sw':
            return True
        e = n_.e or {}
        return n_.kind == 'ev' and e.get('k') == 'call' and (e.get('pq') or '').split('::')[-1] == 'append' and e.get('obj') is not None and strip_lv(e['obj']).get('k') == 'var'
    # nodes that dominate the read (every path from the entry to the read passes them) lie before it in the frame loop: the
    # search does not walk round the back edge into the next frame
    def reach_without(d):
        seen_, stack = set(), [g.entry]
        while stack:
            n_ = stack.pop()
            if n_.id in seen_ or n_ is d:
                continue
            seen_.add(n_.id)
            stack.extend(m_ for m_, _ in n_.succ)
        return seen_
    pre = set(n_.id for n_ in g.nodes if n_ is not rd and rd.id not in reach_without(n_))

    def fresh_query(c):
        """the condition asks the connection for its state again: a call other than the read, with no argument derived from it"""
        return any(w.get('k') == 'call' and w is not rd.e and not any(x is rd.e or (x.get('k') == 'var' and x.get('id') == holder) for x in walk_expr(w)) for w in walk_expr(c))
    # forward search from the read, stopping at the dispatch; remember the branch conditions taken on the way
    bad = None
    seen = set()
    work = [(m_, ()) for m_, _ in rd.succ]
    while work and bad is None:
        n_, conds = work.pop()
        if n_.id in seen or n_.id in pre or is_dispatch(n_):
            continue
        seen.add(n_.id)
        if n_.kind == 'ret':
            q_ = [c for c in conds if fresh_query(c)]
            if q_:
                bad = (n_.line, q_[-1])
            continue
        for m_, lab in n_.succ:
            work.append((m_, conds + ((n_.e,) if n_.kind == 'br' and n_.e is not None and lab in (True, False) else ())))
    ctx.evaluations += len(seen)
    ctx.check(bad is None, 'C11.kept', recv['pq'], role, fwhere(recv, bad[0] if bad else None), 'no exit between the payload read and the opcode dispatch other than on the result of the read',
              'receive() can return at line %s, after the payload was read, on `%s`: this is also true when the peer closed right after sending the frame, so a message that arrived completely is dropped (or a fragmented message loses its last fragment)' % (
                  bad[0] if bad else '', pe(bad[1])[:60] if bad else ''))


def check_alive(ctx, prog):
    """C11.alive: `Socket_::disconnected()` - the liveness test behind WebSocket::closed() - never reports a live connection as
    closed, whenever data arrives relative to its queries, and reports a connection at end-of-stream as closed.  The function
    is interpreted (scansim) with `available()` and `waitInput()` answered from a script of the socket's state at each query:
    nothing pending until the k-th query and 1 or 5000 bytes from then on (k = 0..4, the peer still connected), and end of
    stream (readable, nothing available) from the k-th query on."""
    import scansim
    f = fn1(prog, 'asl::Socket_::disconnected')
    ctx.analysed(f)
    role = 'disconnected():a live connection is never reported closed'
    bad = und = None
    runs = 0
    for kind in ('data', 'eof'):
        for k in range(0, 5):
            for amount in ((1, 5000) if kind == 'data' else (0,)):
                clock = [0]

                def state():
                    t = clock[0]
                    clock[0] += 1
                    return t >= k

                def available(run, e, args):
                    on = state()
                    return amount if (on and kind == 'data') else 0

                def wait_input(run, e, args):
                    return 1 if state() else 0
                r = scansim.Run(prog, f, {}, mems={'_handle': 3, '_error': 0, '_blocking': 1}, methods={'available': available, 'waitInput': wait_input, '*': 'interp'}, objects=True)
                runs += 1
                try:
                    got = r.run()
                except (scansim.Unsupported, scansim.OOB, TypeError, KeyError) as u:
                    und = str(u)
                    break
                if kind == 'data' and got:
                    bad = 'with nothing pending at its first %d quer%s and %d byte(s) arriving before the next one, disconnected() returns true for a connection the peer never closed: WebSocket::closed() closes the socket, the message being received is truncated and every later one lost' % (
                        k, 'y' if k == 1 else 'ies', amount)
                    break
                if kind == 'eof' and k == 0 and not got:
                    bad = 'at end of stream (readable, nothing available) disconnected() returns false: receive() never notices the close'
                    break
            if bad or und:
                break
        if bad or und:
            break
    ctx.evaluations += runs
    if und:
        ctx.undecided('C11.alive', f['pq'], role, fwhere(f), 'outside the interpreted fragment: %s' % und)
    else:
        ctx.check(bad is None, 'C11.alive', f['pq'], role, fwhere(f), 'interpreted for %d arrival scripts (data or end of stream appearing at the k-th query)' % runs, bad or '')


def check_send_effect(ctx, prog, send):
    """C11.sendstate: send() does not change the state of the connection before it writes.  Whether a frame goes out depends on
    the state the application left (`_closed`), not on a fresh probe of the receiving direction: a peer that has finished
    sending (half-close) still reads, and a probe that finds end-of-stream there and closes the socket drops the reply.  Effect
    rule over the call graph: no function called by send() before its socket write (followed through members with bodies)
    stores to `_closed` or closes the socket."""
    order = list(fn_exprs(send))
    writes = [i for i, e in enumerate(order) if e.get('k') == 'call' and (e.get('op') == '<<' or (e.get('pq') or '').split('::')[-1] == 'write') and any(w.get('k') == 'mem' and w.get('f') == '_socket' for w in walk_expr(e.get('obj') or {}))]
    role = 'send():no state change before the write'
    if not writes:
        ctx.undecided('C11.sendstate', send['pq'], role, fwhere(send), 'socket write of send() not found')
        return
    first_write_line = min(order[i].get('l', 0) for i in writes)

    def effects(g, depth, seen):
        out = []
        for e in fn_exprs(g):
            if e.get('k') == 'bin' and e.get('op') == '=' and strip_lv(e['x']).get('k') == 'mem' and strip_lv(e['x']).get('f') == '_closed' and const_val(e['y']) != 0:
                out.append('%s stores `_closed = true`' % g['n'])
            if e.get('k') == 'call':
                nm = (e.get('pq') or '').split('::')[-1]
                if nm == 'close' and e.get('obj') is not None:
                    out.append('%s calls `%s`' % (g['n'], pe(e)[:40]))
                elif depth > 0 and e.get('fn'):
                    for h in prog.fn(e['fn'], e.get('sig')):
                        if h.get('body') and h.get('id') not in seen and (h.get('cls') or '').startswith(('asl::WebSocket', 'asl::Socket')):
                            out += ['%s -> %s' % (g['n'], x) for x in effects(h, depth - 1, seen | set([h['id']]))]
                            break
        return out
    found = []
    n_calls = 0
    for e in order:
        if e.get('k') != 'call' or e.get('l', 0) >= first_write_line or not e.get('fn'):
            continue
        for h in prog.fn(e['fn'], e.get('sig')):
            if h.get('body') and (h.get('cls') or '').startswith(('asl::WebSocket', 'asl::Socket')):
                n_calls += 1
                found += ['line %d: %s' % (e.get('l', 0), x) for x in effects(h, 3, set([h['id'], send['id']]))]
                break
    ctx.evaluations += n_calls + 1
    ctx.check(not found, 'C11.sendstate', send['pq'], role, fwhere(send), '%d member call(s) before the write, none of which closes the connection' % n_calls,
              'send() changes the connection state before writing (%s): once the peer has half-closed its sending side the probe sees end-of-stream, closes the socket and the message is silently dropped although the peer still reads' % (found[0] if found else ''))


def check_payload_index(ctx, prog, recv):
    """C11.payloadidx: receive() looks into the payload of a control frame (the status code of a Close frame) only as far as the
    payload goes.  The payload buffer is fresh per frame and resized by the frame length, so its length is that length; for
    every access with a constant position - `buffer[K]`, `buffer.slice(K)`, `buffer.remove(0, K)` - the guards that dominate
    it are evaluated with the payload length (the buffer's length() and the frame-length variable it was resized by) bound to
    0..K+1: a length that does not cover the position must not be admitted (a 1-byte Close payload is a frame a peer can send)."""
    import bounded
    g = q.Guarded(recv)
    bufs = {}
    for s_ in ir.walk_stmts(recv['body']):
        if s_.get('k') == 'decl':
            for v in s_['vars']:
                if (T(recv, v['t']).get('rec') or '').replace(' ', '') in ('asl::Array<unsignedchar>', 'asl::Array<byte>') or T(recv, v['t']).get('recp') == 'asl::Array' and 'char' in (T(recv, v['t']).get('rec') or ''):
                    bufs[v['id']] = v
    lenvars = {}
    for e in fn_exprs(recv):
        if e.get('k') == 'call' and (e.get('pq') or '').endswith('Array::resize') and e.get('obj') is not None and strip(e['obj']).get('id') in bufs and e.get('a'):
            a0 = strip(e['a'][0])
            if a0.get('k') == 'bin' and a0.get('op') == '+':
                for side in (a0['x'], a0['y']):
                    sv = strip(side)
                    if sv.get('k') == 'var' and sv.get('vk') == 'local':
                        lenvars.setdefault(strip(e['obj'])['id'], sv['id'])
    # pointers to the start of the payload (`const byte* p = buffer.data()`): p[K] and p + K are positions in the payload too
    ptrs = {}
    for s_ in ir.walk_stmts(recv['body']):
        if s_.get('k') == 'decl':
            for v in s_['vars']:
                ini = strip(v.get('init') or {})
                while ini.get('k') in ('cast', 'paren'):
                    ini = strip(ini['e'])
                if T(recv, v['t']).get('ptr') and ini.get('k') == 'call' and ini.get('obj') is not None and strip(ini['obj']).get('id') in bufs and (ini.get('pq') or '').split('::')[-1] in ('data', 'ptr'):
                    ptrs[v['id']] = strip(ini['obj'])['id']
    n = 0
    for e in fn_exprs(recv):
        vid = need = None
        if e.get('k') == 'call' and e.get('obj') is not None and strip(e['obj']).get('id') in bufs:
            vid = strip(e['obj'])['id']
            nm = (e.get('pq') or '').split('::')[-1]
            if e.get('op') == '[]' and e.get('a') and const_val(e['a'][0]) is not None:
                need = const_val(e['a'][0]) + 1
            elif nm == 'slice' and e.get('a') and const_val(e['a'][0]) is not None:
                need = const_val(e['a'][0])
            elif nm == 'remove' and len(e.get('a', [])) == 2 and const_val(e['a'][0]) is not None and const_val(e['a'][1]) is not None:
                need = const_val(e['a'][0]) + const_val(e['a'][1])
        elif e.get('k') == 'idx' and strip(e['b']).get('k') == 'var' and strip(e['b']).get('id') in ptrs and const_val(e['i']) is not None:
            vid, need = ptrs[strip(e['b'])['id']], const_val(e['i']) + 1
        elif e.get('k') == 'bin' and e.get('op') == '+' and strip(e['x']).get('k') == 'var' and strip(e['x']).get('id') in ptrs and const_val(e['y']) is not None:
            vid, need = ptrs[strip(e['x'])['id']], const_val(e['y'])
        if vid is None or not need or need <= 0:
            continue
        n += 1
        role = 'receive:`%s` stays inside the payload' % pe(e)[:40]
        ltxt = set(pe(w) for c, pol, kind in g.of(e) if isinstance(c, dict) for w in walk_expr(q.expand(recv, c))
                   if w.get('k') == 'call' and (w.get('pq') or '').endswith('::length') and w.get('obj') is not None and strip(w['obj']).get('id') == vid)
        worst = und = None
        for L in range(0, need):
            env = {lenvars[vid]: L} if vid in lenvars else {}
            r = bounded.admitted3(bounded.Bound(prog, recv, env, dict((t_, L) for t_ in ltxt)), g.of(e), g,
                                  relevant=lambda c_: any((w.get('k') == 'var' and w.get('id') == lenvars.get(vid)) or (w.get('k') == 'call' and pe(w) in ltxt) for w in walk_expr(q.expand(recv, c_))))
            ctx.evaluations += 1
            if r is True:
                worst = L
                break
            if r is None:
                und = L
        if worst is not None:
            ctx.violation('C11.payloadidx', recv['pq'], role, fwhere(recv, e.get('l')), 'a control frame with a %d-byte payload reaches `%s`, which needs %d byte(s): the read leaves the payload and a negative-length / garbage message is delivered (a 1-byte Close payload is enough)' % (worst, pe(e)[:50], need))
        elif und is not None:
            ctx.undecided('C11.payloadidx', recv['pq'], role, fwhere(recv, e.get('l')), 'guards not evaluable for a %d-byte payload' % und)
        else:
            ctx.ok('C11.payloadidx', recv['pq'], role, fwhere(recv, e.get('l')), 'only reached for payloads of at least %d byte(s)' % need)
    if not n:
        ctx.ok('C11.payloadidx', recv['pq'], 'receive:constant positions in the payload', fwhere(recv), 'receive() reads no constant position of the payload buffer', nontrivial=False)



def check_frame_vars(ctx, prog, recv):
    """C11.framevars: what receive() knows about a frame comes from that frame.
    (a) per-iteration definite assignment: a scalar local that is filled from the socket inside the frame loop - or computed
        from such a local - is, on every path of one iteration, assigned in that iteration before it is read (a declaration
        with an initialiser inside the loop counts).  A masking key or flag that survives from the previous frame is applied to
        a frame it does not belong to.
    (b) the tests that select the length form (comparison of a local with 126 and 127, or a switch with those cases) see only
        the 7-bit field of the second header byte: no definition that reads an extended length from the socket reaches them
        (an extended length of 127 is a length, not a marker)."""
    import cfg as cfgm
    loops = [s_ for s_ in ir.walk_stmts(recv['body']) if s_.get('k') in ('while', 'for', 'do')]

    def sock_call(e):
        if e.get('k') != 'call':
            return False
        if (e.get('pq') or '').startswith(('asl::Socket::', 'asl::Socket_::')):
            return True
        return e.get('obj') is not None and any(w.get('k') == 'mem' and w.get('f') == '_socket' for w in walk_expr(e['obj']))

    def out_args(e):
        """locals a socket call writes: operands of operator>> (chained) and `&x` arguments"""
        out = []
        if e.get('k') == 'call' and sock_call(e):
            for a in e.get('a') or []:
                a_ = strip_lv(a)
                if (e.get('pq') or e.get('fn') or '').endswith('operator>>') and a_.get('k') == 'var':
                    out.append(a_)
                a2 = strip(a)
                while a2.get('k') in ('cast', 'paren'):
                    a2 = strip(a2['e'])
                if a2.get('k') == 'un' and a2.get('op') == '&' and strip_lv(a2['e']).get('k') == 'var':
                    out.append(strip_lv(a2['e']))
        return out
    frame = [lp for lp in loops if any(sock_call(e) for e in ir.stmt_exprs(lp['body']))]
    role = 'receive:frame variables are assigned in the iteration that reads them'
    if not frame:
        ctx.undecided('C11.framevars', recv['pq'], role, fwhere(recv), 'frame loop (a loop reading from the socket) not found')
        return
    lp = frame[0]

    def scalar(v):
        t = T(recv, v.get('dt') or v.get('t'))
        if t.get('ref'):
            t = T(recv, t.get('to'))
        return bool(t.get('int') or t.get('flt')) and not t.get('rec')
    body_exprs = list(ir.stmt_exprs(lp['body']))
    tracked = {}
    for e in body_exprs:
        for a_ in out_args(e):
            if scalar(a_):
                tracked[a_['id']] = a_.get('n')
    changed = True
    while changed:
        changed = False
        for e in body_exprs:
            if e.get('k') == 'bin' and e.get('op') == '=' and strip_lv(e['x']).get('k') == 'var' and scalar(strip_lv(e['x'])) and strip_lv(e['x'])['id'] not in tracked:
                if any((w.get('k') == 'var' and w.get('id') in tracked) or sock_call(w) for w in walk_expr(e['y'])):
                    tracked[strip_lv(e['x'])['id']] = strip_lv(e['x']).get('n')
                    changed = True
        for s_ in ir.walk_stmts(lp['body']):
            if s_.get('k') == 'decl':
                for v in s_['vars']:
                    if v['id'] not in tracked and v.get('init') is not None and scalar(v) and any((w.get('k') == 'var' and w.get('id') in tracked) or sock_call(w) for w in walk_expr(v['init'])):
                        tracked[v['id']] = v['n']
                        changed = True
    g = cfgm.CFG(dict(recv, body=lp['body'], inits=[]))
    problems = []

    def step(nd, st):
        if nd.kind == 'decl':
            v = nd.info
            if v.get('init') is not None:
                for w in walk_expr(v['init']):
                    if w.get('k') == 'var' and w.get('id') in tracked and w['id'] not in st:
                        problems.append((nd.line, tracked[w['id']]))
            if v['id'] in tracked:
                return st | frozenset([v['id']]) if v.get('init') is not None else st - frozenset([v['id']])
            return st
        if nd.kind not in ('ev', 'br', 'ret', 'sw') or nd.e is None:
            return st
        e = nd.e
        if nd.kind == 'ev' and strip_lv(e).get('k') == 'var':
            return st               # operand evaluation of a larger expression: the read or write happens at the parent node
        defs = set()
        writes = set()
        for w in walk_expr(e):
            if w.get('k') == 'bin' and w.get('op') == '=' and strip_lv(w['x']).get('k') == 'var':
                defs.add(strip_lv(w['x'])['id'])
                writes.add(id(strip_lv(w['x'])))
            for a_ in out_args(w):
                defs.add(a_['id'])
                writes.add(id(a_))
        for w in walk_expr(e):
            if w.get('k') == 'var' and w.get('id') in tracked and id(w) not in writes and w['id'] not in st:
                problems.append((nd.line, tracked[w['id']]))
        return st | frozenset(d for d in defs if d in tracked)
    reached, _ = cfgm.dataflow(g, frozenset(), step)
    ctx.evaluations += sum(len(v) for v in reached.values())
    ctx.info['frame_variables'] = sorted(set(tracked.values()))
    if len(tracked) < 2:
        ctx.undecided('C11.framevars', recv['pq'], role, fwhere(recv, lp.get('l')), 'fewer than two header variables filled from the socket were found in the frame loop')
    else:
        pr = sorted(set(problems))
        ctx.check(not pr, 'C11.framevars', recv['pq'], role, fwhere(recv, pr[0][0] if pr else lp.get('l')), '%d frame variables (%s): each read is preceded by an assignment in the same iteration on every path' % (len(tracked), ', '.join(sorted(set(tracked.values())))),
                  '`%s` is read at line %s on a path of the frame loop that has not assigned it in this iteration: it still holds what an earlier frame left (a masking key or flag of a masked frame applied to a later unmasked one corrupts its payload)' % (pr[0][1] if pr else '', pr[0][0] if pr else ''))
    # (b) reaching definitions at the length-form tests
    role = 'receive:length-form markers tested on the 7-bit field only'
    g2 = cfgm.CFG(recv)
    marks = {}
    for e in fn_exprs(recv):
        if e.get('k') == 'bin' and e.get('op') in ('==', '!=') and const_val(e['y']) in (126, 127) and strip_lv(e['x']).get('k') == 'var':
            marks.setdefault(strip_lv(e['x'])['id'], set()).add(const_val(e['y']))
        if e.get('k') == 'bin' and e.get('op') in ('==', '!=') and const_val(e['x']) in (126, 127) and strip_lv(e['y']).get('k') == 'var':
            marks.setdefault(strip_lv(e['y'])['id'], set()).add(const_val(e['x']))
    lens = [vid for vid, cs in marks.items() if cs == set((126, 127))]
    if len(lens) != 1:
        ctx.info['length_form_tests'] = 'no single local compared with both 126 and 127 (switch or table form): rule (b) not applicable'
        return
    lv = lens[0]

    def seven_bit(rhs):
        r = strip(q.expand(recv, rhs))
        while r.get('k') in ('cast', 'paren'):
            r = strip(r['e'])
        return r.get('k') == 'bin' and r.get('op') == '&' and any(const_val(r[k_]) is not None and 0 <= const_val(r[k_]) <= 127 for k_ in ('x', 'y'))
    bad = []

    def step2(nd, st):
        if nd.kind == 'decl' and nd.info['id'] == lv:
            return ('7' if nd.info.get('init') is not None and seven_bit(nd.info['init']) else 'other', nd.line)
        if nd.e is None:
            return st
        if nd.kind == 'br':
            for w in walk_expr(nd.e):
                if w.get('k') == 'bin' and w.get('op') in ('==', '!=') and (const_val(w['y']) in (126, 127) or const_val(w['x']) in (126, 127)) and \
                        any(x.get('k') == 'var' and x.get('id') == lv for x in walk_expr(w)) and st[0] != '7':
                    bad.append((nd.line, st[1]))
        for w in walk_expr(nd.e):
            if w.get('k') == 'bin' and w.get('op') == '=' and strip_lv(w['x']).get('k') == 'var' and strip_lv(w['x'])['id'] == lv:
                st = ('7' if seven_bit(w['y']) else 'other', nd.line)
            elif w.get('k') == 'bin' and w.get('op', '').endswith('=') and w['op'] not in ('==', '!=', '<=', '>=') and strip_lv(w['x']).get('k') == 'var' and strip_lv(w['x'])['id'] == lv:
                st = ('other', nd.line)
        return st
    cfgm.dataflow(g2, ('none', 0), step2)
    bd = sorted(set(bad))
    ctx.check(not bd, 'C11.framevars', recv['pq'], role, fwhere(recv, bd[0][0] if bd else None), 'every comparison with 126 / 127 is reached only by the `& 0x7f` definition',
              'the comparison with the form marker at line %s is reached by the definition at line %s, which is not the 7-bit field: an extended length of 126 or 127 is taken for a marker, further header bytes are read from the payload and the connection is lost' % (bd[0][0] if bd else '', bd[0][1] if bd else ''))
