"""C11 - WebSocket framing: structural clauses decided statically.

 R-NARROW      the 64-bit wire length reaches the int length only through a dominating range check (no negative / wrapped lengths)
 C11.header    send() and receive() agree on the RFC 6455 header: the 7-bit / 16-bit / 64-bit length forms are chosen exactly at 126 and
               65536 (evaluated at the boundaries), markers 126/127, widths of the extended length, FIN / opcode / mask bit positions,
               big-endian byte order on both sides
 C11.opcodes   every opcode send() can emit has a case in receive(); data frames are {0,1,2}
 C11.message   `haveMsg = true` only under a data opcode with FIN, or close; the payload buffer is fresh for every frame
 C11.unmask    every word-wise XOR loop over a byte buffer is preceded by the grow-then-shrink idiom that guarantees 4 bytes of slack
 C11.handshake the accept key is SHA-1 of key + RFC 6455 GUID, Base64 of all digest bytes
 R-LOCK        WebSocketServer::_clients is only modified under its mutex
 C11.partial   the blocking socket read/write loops under receive()/send() pass exactly the remainder on retry and stop exactly at the
               requested total (a frame delivered in several TCP segments is still read whole)
 Byte-identical in-order delivery for all sizes and fragmentations is not decided."""
import os
import ir, q, bytesets
from ir import strip, strip_lv, const_val, T, pe, walk_expr, fn_exprs, AnalysisBroken
from core import fwhere

GUID = '258EAFA5-E914-47DA-95CA-C5AB0DC85B11'


def run(ctx):
    units = [os.path.join(ir.REPO, 'src', 'WebSocket.cpp'), os.path.join(ir.REPO, 'src', 'Socket.cpp')]
    if ctx.tier == 'thorough':
        units += [u for u in ir.library_units() if u not in units]
    prog = ir.load_units(units)
    ctx.use_program(prog)
    recv = fn1(prog, 'asl::WebSocket::receive')
    send = fn1(prog, 'asl::WebSocket::send', '(const unsigned char *,int,asl::WebSocket::FrameType)')
    ctx.analysed(recv)
    ctx.analysed(send)
    check_narrow(ctx, prog, recv)
    check_header(ctx, prog, send, recv)
    check_opcodes(ctx, prog, send, recv)
    check_message(ctx, prog, recv)
    check_unmask(ctx, prog, [send, recv])
    check_handshake(ctx, prog)
    check_clients(ctx, prog)
    import C16
    C16.check_partial(ctx, prog, rule='C11.partial', files=False)
    return __doc__.split('\n\n', 1)[1]


def fn1(prog, name, sig=None):
    fs = [f for f in prog.fn(name, sig) if f.get('body')]
    if not fs:
        raise AnalysisBroken('anchor %s%s not found' % (name, sig or ''))
    return fs[0]


def socket_reads(f, bits=None):
    out = []
    for e in fn_exprs(f):
        if e.get('k') == 'call' and e.get('pq') == 'asl::Socket::read' and not e.get('a'):
            t = T(f, e.get('t'))
            if bits is None or t.get('bits') == bits:
                out.append(e)
    return out


def check_narrow(ctx, prog, f):
    reads64 = socket_reads(f, 64)
    if not reads64:
        raise AnalysisBroken('receive(): 64-bit length read not found')
    g = q.Guarded(f)
    for r in reads64:
        # where does the value go: a 64-bit local, or directly into a narrowing cast
        holder = None
        for s_ in ir.walk_stmts(f['body']):
            if s_.get('k') == 'decl':
                for v in s_['vars']:
                    if v.get('init') is not None and strip_lv(v['init']) is r or (v.get('init') is not None and strip(v['init']) is r):
                        holder = v
        role = 'receive:64-bit length narrowed to int'
        if holder is None or T(f, holder['t']).get('bits') != 64:
            ctx.violation('R-NARROW', f['pq'], role, fwhere(f, r['l']), 'the 64-bit wire length is converted to int without first being held and range-checked as a 64-bit value: lengths with the sign bit of the low 32 bits set become negative')
            continue
        casts = [e for e in fn_exprs(f) if e.get('k') == 'cast' and e.get('ck') == 'IntegralCast' and T(f, e.get('t')).get('bits') == 32 and strip(e['e']).get('id') == holder['id']]
        if not casts:
            ctx.undecided('R-NARROW', f['pq'], role, fwhere(f, r['l']), '64-bit length is never narrowed')
            continue
        for c in casts:
            lo = hi = None
            for cond, pol, kind in g.of(c):
                if kind != 'after' or pol is not False:
                    continue
                for part in disj(cond):
                    part = strip(part)
                    if part.get('k') == 'bin' and strip(part['x']).get('id') == holder['id'] and const_val(part['y']) is not None:
                        cst = const_val(part['y'])
                        if part['op'] == '<':
                            lo = cst
                        elif part['op'] == '<=':
                            lo = cst + 1
                        elif part['op'] == '>':
                            hi = cst
                        elif part['op'] == '>=':
                            hi = cst - 1
            ctx.evaluations += 1
            ok = lo is not None and lo >= 0 and hi is not None and hi <= 0x7fffffff
            ctx.check(ok, 'R-NARROW', f['pq'], role, fwhere(f, c['l']), 'dominated by %s <= len <= %s' % (lo, hi),
                      'the narrowing `(int)%s` is not dominated by a check that the value lies in [0, INT_MAX] (lower bound %s, upper bound %s): a peer-chosen length becomes negative or wraps' % (holder['n'], lo, hi))


def disj(c):
    c = strip(c)
    if c.get('k') == 'bin' and c.get('op') == '||':
        return disj(c['x']) + disj(c['y'])
    return [c]


def check_header(ctx, prog, send, recv):
    # ---- send: if (len < 126) 7-bit ; else if (len < 65536) 126 + u16 ; else 127 + i64
    chain = None
    for s_ in ir.walk_stmts(send['body']):
        if s_.get('k') == 'if' and s_.get('else') is not None and s_['else'].get('k') == 'if':
            chain = s_
            break
    if chain is None:
        raise AnalysisBroken('send(): length-form decision chain not found')
    lenvar = None
    for w in walk_expr(chain['c']):
        if w.get('k') == 'var' and T(send, w.get('t')).get('int'):
            lenvar = w
    conds = [chain['c'], chain['else']['c']]
    bodies = [chain['then'], chain['else']['then'], chain['else'].get('else')]

    def holds(c, v):
        return bool(bytesets.Evaluator(prog, send, {lenvar['id']: v}).ev(c))
    try:
        b1 = holds(conds[0], 125) and not holds(conds[0], 126)
        b2 = holds(conds[1], 65535) and not holds(conds[1], 65536) and holds(conds[1], 126)
        ctx.evaluations += 5
    except bytesets.Undecidable as ex:
        ctx.undecided('C11.header', send['pq'], 'send:length form boundaries', fwhere(send, chain['l']), 'boundary conditions not evaluable: %s' % ex)
        b1 = b2 = None
    if b1 is not None:
        ctx.check(b1, 'C11.header', send['pq'], 'send:7-bit form up to 125', fwhere(send, chain['l']), 'condition true at 125, false at 126',
                  'send() uses the 7-bit length form for a payload of 126 bytes (126 and 127 are the markers of the extended forms) or not for 125: `%s`' % pe(conds[0]))
        ctx.check(b2, 'C11.header', send['pq'], 'send:16-bit form up to 65535', fwhere(send, chain['else']['l']), 'condition true at 126 and 65535, false at 65536',
                  'send() announces a payload of 65536 bytes with the 16-bit length form (it truncates to 0 and desynchronises the stream), or not 65535: `%s`' % pe(conds[1]))
    def consts_in(body):
        return sorted(set(const_val(w) for e in ir.stmt_exprs(body) for w in walk_expr(e) if w.get('k') == 'int' and not w.get('boollit') and const_val(w) in (126, 127)))
    def widths(body):
        ws = []
        for e in ir.stmt_exprs(body):
            if e.get('k') == 'call' and e.get('pq') == 'asl::StreamBuffer::operator<<' and e.get('a'):
                t = T(send, strip_lv(e['a'][0]).get('t'))
                if t.get('ref'):
                    t = T(send, t.get('to'))
                ws.append(t.get('sz'))
        return ws
    ctx.check(consts_in(bodies[1]) == [126] and 2 in widths(bodies[1]), 'C11.header', send['pq'], 'send:marker 126 + 2-byte length', fwhere(send, bodies[1]['l']), 'marker 126 then 16-bit length',
              'the 16-bit form does not write marker 126 followed by a 2-byte length (markers %s, widths %s)' % (consts_in(bodies[1]), widths(bodies[1])))
    ctx.check(bodies[2] is not None and consts_in(bodies[2]) == [127] and 8 in widths(bodies[2]), 'C11.header', send['pq'], 'send:marker 127 + 8-byte length', fwhere(send, (bodies[2] or chain)['l']), 'marker 127 then 64-bit length',
              'the 64-bit form does not write marker 127 followed by an 8-byte length')
    # first byte: 0x80 | opcode ; mask bit 0x80
    b0 = [e for e in fn_exprs(send) if e.get('k') == 'bin' and e.get('op') == '|' and const_val(e['x']) == 0x80]
    ctx.check(bool(b0), 'C11.header', send['pq'], 'send:FIN bit 0x80 | opcode', fwhere(send), 'b0 = 0x80 | opcode', 'send() does not build the first byte as 0x80 | opcode')
    ends = [e for e in fn_exprs(send) if e.get('k') == 'construct' and e.get('cls') == 'asl::StreamBuffer' and e.get('a')]
    big = q.enum_value(prog, 'asl::Endian', 'ENDIAN_BIG')
    ctx.check(bool(ends) and const_val(ends[0]['a'][0]) == big, 'C11.header', send['pq'], 'send:header in network byte order', fwhere(send), 'StreamBuffer(ENDIAN_BIG)', 'send() does not serialise the header in big-endian order')
    # ---- receive
    masks = {}
    for e in fn_exprs(recv):
        if e.get('k') == 'bin' and e.get('op') == '&' and const_val(e['y']) is not None and strip(e['x']).get('k') == 'var':
            masks.setdefault(strip(e['x'])['n'], set()).add(const_val(e['y']))
    ok = any({0x80, 0x0f} <= m for m in masks.values()) and any({0x80, 0x7f} <= m for m in masks.values())
    ctx.check(ok, 'C11.header', recv['pq'], 'receive:FIN 0x80, opcode 0x0f, MASK 0x80, length 0x7f', fwhere(recv), 'masks %s' % dict((k, sorted(v)) for k, v in masks.items()),
              'receive() does not split the two header bytes with masks 0x80/0x0f and 0x80/0x7f (found %s)' % dict((k, sorted(v)) for k, v in masks.items()))
    eqs = {}
    for s_ in ir.walk_stmts(recv['body']):
        if s_.get('k') == 'if':
            c = strip(s_['c'])
            if c.get('k') == 'bin' and c.get('op') == '==' and const_val(c['y']) in (126, 127):
                rd = [T(recv, e.get('t')) for e in ir.stmt_exprs(s_['then']) if e.get('k') == 'call' and e.get('pq') == 'asl::Socket::read' and not e.get('a')]
                eqs[const_val(c['y'])] = rd
    ok126 = 126 in eqs and len(eqs[126]) == 1 and eqs[126][0].get('bits') == 16 and eqs[126][0].get('sg') is False
    ok127 = 127 in eqs and len(eqs[127]) == 1 and eqs[127][0].get('bits') == 64
    ctx.check(ok126, 'C11.header', recv['pq'], 'receive:marker 126 reads an unsigned 16-bit length', fwhere(recv), 'read<unsigned short>()', 'receive() does not read an unsigned 16-bit length after marker 126')
    ctx.check(ok127, 'C11.header', recv['pq'], 'receive:marker 127 reads a 64-bit length', fwhere(recv), 'read<Long>()', 'receive() does not read a 64-bit length after marker 127')
    # both constructors put the socket in big-endian mode
    n = 0
    for f in prog.functions:
        if f.get('kind') == 'ctor' and f.get('cls') == 'asl::WebSocket' and f.get('body') and not f.get('implicit'):
            n += 1
            ctx.analysed(f)
            se = [e for e in fn_exprs(f) if e.get('k') == 'call' and (e.get('pq') or '').endswith('::setEndian') and const_val(e['a'][0]) == big]
            ctx.check(bool(se), 'C11.header', f['pq'], 'ctor%s:socket in network byte order' % f['sig'], fwhere(f), 'setEndian(ENDIAN_BIG)', 'WebSocket constructor does not select big-endian byte order for the socket: 16/64-bit lengths and the mask are read/written swapped')
    ctx.floor('C11.header constructors', n, 2)


def check_opcodes(ctx, prog, send, recv):
    sent = set()
    for s_ in ir.walk_stmts(send['body']):
        if s_.get('k') == 'decl':
            for v in s_['vars']:
                if v['n'] == 'opcode' or (v.get('init') is not None and strip(v['init']).get('k') == 'cond' and T(send, v['t']).get('bits') == 8):
                    for w in walk_expr(v['init']):
                        if w.get('k') == 'int' and not w.get('enumc') and const_val(w) is not None and 0 < const_val(w) < 16 and 't' in w:
                            sent.add(const_val(w))
    cases = set()
    for s_ in ir.walk_stmts(recv['body']):
        if s_.get('k') == 'case' and s_.get('v') is not None:
            cases.add(s_['v'])
    ctx.info['opcodes_sent'] = sorted(sent)
    ctx.info['opcodes_handled'] = sorted(cases)
    ctx.check(sent >= {1, 2, 8, 9, 10} and sent <= cases, 'C11.opcodes', recv['pq'], 'receive:handles every opcode send() emits', fwhere(recv), 'sent %s, handled %s' % (sorted(sent), sorted(cases)),
              'send() emits opcodes %s but receive() handles %s' % (sorted(sent), sorted(cases)))
    ctx.check({0, 1, 2} <= cases, 'C11.opcodes', recv['pq'], 'receive:data opcodes 0,1,2', fwhere(recv), 'continuation, text, binary', 'receive() does not handle the data opcodes 0, 1, 2')
    # data cases append the payload
    sw = [s_ for s_ in ir.walk_stmts(recv['body']) if s_.get('k') == 'switch']
    if sw:
        g = q.Guarded(recv)
        apps = [e for e in fn_exprs(recv) if e.get('k') == 'call' and (e.get('pq') or '').endswith('WebSocketMsg::append')]
        okk = False
        for a in apps:
            for c, labs, kind in g.of(a):
                if kind == 'case':
                    vals = set(x[0] for x in labs if x and x[0] != 'default')
                    if vals == {0, 1, 2}:
                        okk = True
        ctx.check(okk, 'C11.opcodes', recv['pq'], 'receive:payload appended exactly for data opcodes', fwhere(recv), 'msg.append(buffer) under case 0/1/2', 'the payload is not appended to the message exactly under the data opcodes 0, 1, 2')


def check_message(ctx, prog, recv):
    g = q.Guarded(recv)
    stores = [e for e in fn_exprs(recv) if e.get('k') == 'bin' and e.get('op') == '=' and strip_lv(e['x']).get('n') == 'haveMsg' and const_val(e['y']) == 1]
    if not stores:
        raise AnalysisBroken('receive(): no store haveMsg = true')
    finv = opv = None
    for s_ in ir.walk_stmts(recv['body']):
        if s_.get('k') == 'decl':
            for v in s_['vars']:
                if v['n'] == 'fin':
                    finv = v
                if v['n'] == 'opcode':
                    opv = v
    for e in stores:
        gs = g.of(e)
        in_close = any(kind == 'case' and any(x and x[0] == 8 for x in labs) for c, labs, kind in gs)
        role = 'receive:haveMsg set at line-independent site %s' % ('close case' if in_close else 'end of frame')
        if in_close:
            ctx.ok('C11.message', recv['pq'], role, fwhere(recv, e['l']), 'close frame ends the reception')
            continue
        conds = [c for c, pol, kind in gs if kind == 'if' and pol is True]
        okk = False
        detail = 'not guarded by FIN and a data opcode'
        if conds and finv is not None and opv is not None:
            try:
                true_ops = set()
                for op in range(16):
                    ev = bytesets.Evaluator(prog, recv, {finv['id']: 1, opv['id']: op})
                    if all(ev.ev(c) for c in conds):
                        true_ops.add(op)
                nofin = any(all(bytesets.Evaluator(prog, recv, {finv['id']: 0, opv['id']: op}).ev(c) for c in conds) for op in range(16))
                ctx.evaluations += 32
                okk = {0, 1, 2} <= true_ops and not (true_ops & {8, 9, 10, 11, 12, 13, 14, 15}) and not nofin
                detail = 'with FIN set the message completes for opcodes %s%s' % (sorted(true_ops), ' and also without FIN' if nofin else '')
            except bytesets.Undecidable as ex:
                ctx.undecided('C11.message', recv['pq'], role, fwhere(recv, e['l']), 'guard not evaluable: %s' % ex)
                continue
        ctx.check(okk, 'C11.message', recv['pq'], role, fwhere(recv, e['l']), detail,
                  'a frame completes the message although it is a control frame or lacks FIN (%s): a ping between two fragments splits the message' % detail)
    # payload buffer fresh per frame
    loops = [s_ for s_ in ir.walk_stmts(recv['body']) if s_.get('k') == 'while']
    if not loops:
        raise AnalysisBroken('receive(): frame loop not found')
    lp = loops[0]
    reads = [e for e in ir.stmt_exprs(lp['body']) if e.get('k') == 'call' and e.get('pq') == 'asl::Socket::read' and len(e.get('a', [])) == 2]
    bufs = set()
    for r in reads:
        for w in walk_expr(r['a'][0]):
            if w.get('k') == 'var' and T(recv, w.get('t')).get('recp') == 'asl::Array':
                bufs.add(w['id'])
    inside = set(v['id'] for s_ in ir.walk_stmts(lp['body']) if s_.get('k') == 'decl' for v in s_['vars'])
    ctx.check(bool(bufs) and bufs <= inside, 'C11.message', recv['pq'], 'receive:payload buffer is local to one frame', fwhere(recv, lp['l']), 'buffer declared inside the frame loop',
              'the buffer that receives the frame payload lives across frames: bytes of a previous control frame (e.g. a ping payload) are unmasked again and prepended to the next data frame')


def check_unmask(ctx, prog, fs):
    n = 0
    for f in fs:
        loops = [s_ for s_ in ir.walk_stmts(f['body']) if s_.get('k') == 'for' and any(e.get('k') == 'bin' and e.get('op') == '^=' for e in ir.stmt_exprs(s_['body']))]
        for lp in loops:
            n += 1
            x = [e for e in ir.stmt_exprs(lp['body']) if e.get('k') == 'bin' and e.get('op') == '^='][0]
            bufv = [w for w in walk_expr(x['x']) if w.get('k') == 'var' and T(f, w.get('t')).get('recp') == 'asl::Array']
            role = '%s:word-wise XOR has 4 bytes of slack' % f['n']
            if not bufv:
                ctx.undecided('C11.unmask', f['pq'], role, fwhere(f, lp['l']), 'XOR target buffer not identified')
                continue
            bid = bufv[0]['id']
            # preceding statements in the same block: resize(length()+4) then resize(length()-4)
            seq = []
            for e in fn_exprs(f):
                if e.get('k') == 'call' and e.get('pq') == 'asl::Array::resize' and e.get('obj') is not None and strip(e['obj']).get('id') == bid and e.get('l', 0) < lp['l']:
                    a = strip(e['a'][0])
                    if a.get('k') == 'bin' and a.get('op') in ('+', '-') and const_val(a['y']) is not None:
                        seq.append((a['op'], const_val(a['y'])))
            grow = [v for op, v in seq if op == '+']
            okk = bool(grow) and max(grow) >= 4 and seq[-2:] == [('+', max(grow)), ('-', max(grow))]
            c = strip(lp['c'])
            bound_ok = c.get('op') == '<'
            ctx.evaluations += 1
            ctx.check(okk and bound_ok, 'C11.unmask', f['pq'], role, fwhere(f, lp['l']), 'grow by %s then shrink before the loop' % (max(grow) if grow else None),
                      'the 32-bit XOR loop over the byte buffer is not preceded by resize(length+4); resize(length-4): the last word may extend up to 3 bytes past the allocation')
    ctx.floor('C11.unmask', n, 2)


def check_handshake(ctx, prog):
    f = fn1(prog, 'asl::WebSocketServer::process')
    ctx.analysed(f)
    lits = [bytes(e['b']).decode('latin-1') for e in fn_exprs(f) if e.get('k') == 'str']
    sha = [e for e in fn_exprs(f) if e.get('k') == 'call' and e.get('pq') == 'asl::SHA1::hash']
    guid_in_hash = any(w.get('k') == 'str' and bytes(w['b']).decode('latin-1') == GUID for e in sha for w in walk_expr(e))
    ctx.check(guid_in_hash, 'C11.handshake', f['pq'], 'process:accept key hashes key + RFC 6455 GUID', fwhere(f), 'SHA1(key + GUID)',
              'the accept key is not SHA-1 of the client key followed by the RFC 6455 GUID %s' % GUID)
    b64 = [e for e in fn_exprs(f) if e.get('k') == 'call' and (e.get('pq') or '').endswith('encodeBase64')]
    okk = bool(b64) and any(w.get('k') == 'call' and (w.get('pq') or '').endswith('::length') for w in walk_expr(b64[0]['a'][1])) if b64 and len(b64[0].get('a', [])) > 1 else bool(b64)
    ctx.check(okk, 'C11.handshake', f['pq'], 'process:digest Base64 over its full length', fwhere(f), 'encodeBase64(hash, hash.length())', 'the digest is not Base64-encoded over all of its bytes')
    ctx.check(any('Sec-WebSocket-Accept: %s' in l for l in lits) and any('101' in l for l in lits), 'C11.handshake', f['pq'], 'process:101 response carries the accept key', fwhere(f), '101 + Sec-WebSocket-Accept',
              'the 101 response does not carry Sec-WebSocket-Accept')
    key = [e for e in fn_exprs(f) if e.get('k') == 'str' and bytes(e['b']).decode('latin-1').lower() == 'sec-websocket-key']
    ctx.check(bool(key), 'C11.handshake', f['pq'], 'process:reads Sec-WebSocket-Key', fwhere(f), 'key header', 'the client key header is not read')


def check_clients(ctx, prog):
    n = 0
    for f in prog.functions:
        if f.get('clsp') != 'asl::WebSocketServer' or not f.get('body'):
            continue
        muts = [e for e in fn_exprs(f) if e.get('k') == 'call' and e.get('clsp') == 'asl::Array' and e.get('obj') is not None and strip(e['obj']).get('f') == '_clients' and 'const' not in (e.get('sig') or '').split(')')[-1]]
        if not muts:
            continue
        ctx.analysed(f)
        for mcall in muts:
            n += 1
            # enclosing block must declare a Lock on _mutex before the call
            ok = False
            for blk in ir.walk_stmts(f['body']):
                if blk.get('k') != 'block':
                    continue
                locked = False
                for st in blk['s']:
                    if st.get('k') == 'decl' and any(v.get('dtorp') == 'asl::Lock::~Lock' and any(w.get('k') == 'mem' and w.get('f') == '_mutex' for w in walk_expr(v.get('init') or {})) for v in st['vars']):
                        locked = True
                    elif locked and any(e is mcall for e in ir.stmt_exprs(st)):
                        ok = True
            ctx.check(ok, 'R-LOCK', f['pq'], '%s:_clients modified under _mutex' % f['n'], fwhere(f, mcall['l']), 'Lock on _mutex in the enclosing scope', 'WebSocketServer modifies _clients (`%s`) without holding its mutex' % pe(mcall))
    ctx.floor('R-LOCK _clients', n, 2)
