"""C05 - JSON/XDL encode -> decode: structural clauses decided statically.

 C05.escape   for every byte 1..255 the sequence XdlEncoder::new_string emits for it (case table + byte set of the control-character
              branch) is run through the decoder's interpreted transition function from the STRING state and from the quoted-key state:
              it must append exactly that byte (or, for \\u00XX, complete the escape) and return to the starting state without entering
              ERR or a comment; every byte < 0x20, '"' and '\\' is emitted escaped (strict JSON)
 C05.numbers  default number formats carry >= 17 / >= 9 significant digits; the space reserved before each snprintf covers its size
              argument, which covers the widest text of the format; non-finite values never reach snprintf; integers reserve 11 bytes; the
              decoder converts through int only up to 9 characters
 R-TAG        the encoder's type dispatch handles every Var::Type; FLOAT goes through the float overload
 C05.sink     every exit of encode() is preceded by a final flush; the file sink writes and clears; the file reader probes the BOM once,
              before its chunk loop, and terminates each chunk before parsing it
 Bit-exact recovery of numbers (strtod/printf semantics) and structure fidelity of nested containers are not decided."""
import os
import ir, q, automaton, bytesets, cfg as cfgm
from ir import strip, strip_lv, const_val, T, pe, walk_expr, fn_exprs, AnalysisBroken
from core import fwhere
import C06, C03


def run(ctx):
    units = [os.path.join(ir.REPO, 'src', 'Xdl.cpp')]
    if ctx.tier == 'thorough':
        units += [u for u in ir.library_units() if u not in units]
    prog = ir.load_units(units)
    ctx.use_program(prog)
    check_escape(ctx, prog)
    check_numbers(ctx, prog)
    check_tags(ctx, prog)
    check_sink(ctx, prog)
    check_exact_reals(ctx, prog)
    ctx.floor('C05.realtext', check_real_text(ctx, prog), 2)
    # the decoder side of the number round trip: integer / double conversion sites of the parser are range-guarded
    C06.check_numbers(ctx, prog)
    # ... and of the documents the encoders write: numbers in every form directly followed by a separator, XDL items separated by
    # new lines only (pretty / nice layout), nested containers - each has an accepting run through the parser machine
    import automaton
    try:
        m = C06.build_machine(ctx, prog, explore=False)
        C06.check_corpus(ctx, prog, m)
        # file round trip: Xdl::read feeds the parser in chunks, so the value decoded from a file equals the one decoded from
        # memory only if no transition looks at a neighbouring byte of the chunk (a number's sign at the end of a chunk)
        C06.check_chunks(ctx, prog, m)
    except automaton.Stuck as ex:
        ctx.undecided('C06.docs', 'asl::XdlParser::parse', 'parse:every document of the corpus has an accepting run', '/repo/src/Xdl.cpp:0', 'the decoder loop uses a construct the abstract interpreter cannot represent: %s' % ex)
    return __doc__.split('\n\n', 1)[1]


APPENDERS = ('operator<<', 'operator+=', 'append', 'insert', 'concat', 'operator=')


def check_real_text(ctx, prog):
    """C05.realtext: the text of a finite real is the one printf produced with the 17 / 9 significant digits format - the only byte
    the encoder may change afterwards is a decimal comma.  `%.17g` yields "3", "0.5", "1e+22", "1.5e-07": any text appended
    behind it on the strength of one of these shapes (".0" because there is no '.') corrupts the others ("1e+22.0" is not a
    number; the whole document is rejected).  In new_number(double) and new_number(float), after the snprintf into the output
    no call appends to the output string - neither there nor in a helper of the unit that is handed the string."""
    n = 0
    for f in prog.fn('asl::XdlEncoder::new_number'):
        if not f.get('body') or not f['params'] or not T(f, f['params'][0]['t']).get('flt'):
            continue
        cfg = cfgm.CFG(f)
        bad = []

        def appends_to(g, pid, depth=0):
            for w in fn_exprs(g):
                if w.get('k') == 'call' and w.get('clsp') == 'asl::String' and (w.get('pq') or '').split('::')[-1] in APPENDERS and w.get('obj') is not None and \
                        strip_lv(w['obj']).get('k') == 'var' and strip_lv(w['obj']).get('id') == pid:
                    return w
            return None

        def step(nd, st):
            if nd.kind != 'ev' or nd.e is None or nd.e.get('k') != 'call':
                return st
            e = nd.e
            nm = (e.get('pq') or e.get('fn') or '').lstrip(':')
            if nm.split('::')[-1] in ('snprintf', 'sprintf', '_snprintf', 'sprintf_s'):
                return True
            if not st:
                return st
            if e.get('clsp') == 'asl::String' and nm.split('::')[-1] in APPENDERS and e.get('obj') is not None and strip_lv(e['obj']).get('f') == '_out':
                bad.append((e.get('l'), pe(e)))
            elif not e.get('clsp') or e.get('clsp') == 'asl::XdlEncoder':
                for k_, a_ in enumerate(e.get('a') or []):
                    if strip_lv(a_).get('f') == '_out':
                        for h in prog.fn(e.get('fn'), e.get('sig')):
                            if h.get('body') and k_ < len(h['params']):
                                w = appends_to(h, h['params'][k_]['id'])
                                if w is not None:
                                    bad.append((e.get('l'), '%s -> %s' % (pe(e)[:40], pe(w))))
            return st
        reached, _ = cfgm.dataflow(cfg, False, step)
        if not any(True in v for v in reached.values()):
            continue
        n += 1
        ctx.analysed(f)
        role = 'new_number%s:the printed text is left as printf wrote it' % (f.get('sig') or '')
        ctx.check(not bad, 'C05.realtext', f['pq'], role, fwhere(f, bad[0][0] if bad else None), 'no append to the output after the snprintf (a decimal comma is replaced in place)',
                  'new_number%s appends to the number text after printf wrote it (`%s`): "%%.17g" also yields exponent forms without a point ("1e+22"), and text appended behind those ("1e+22.0") is not a number - Json::decode / Xdl::decode reject the whole document' % (f.get('sig') or '', bad[0][1] if bad else ''))
    return n


def check_exact_reals(ctx, prog):
    """C05.exact: "every non-zero double is recovered bit for bit" needs a correctly rounded text-to-double conversion.  The C
    library's atof / strtod is one; the library's own myatof (integer mantissa times pow(10, exponent)) is up to an ulp off
    and is meant for the ASL_FAST_JSON configuration only.  In the configuration that is built, every conversion of a number
    text reachable from XdlParser::parse (through the helpers of its unit) is a call of atof / strtod, none of myatof."""
    f = fn1(prog, 'asl::XdlParser::parse')
    exact, inexact = [], []
    seen = set()

    def visit(g, depth):
        if id(g) in seen or depth > 3:
            return
        seen.add(id(g))
        for w in fn_exprs(g):
            if w.get('k') != 'call':
                continue
            nm = (w.get('pq') or w.get('fn') or '').lstrip(':')
            if nm in ('atof', 'strtod', 'std::atof', 'std::strtod'):
                exact.append((g, w))
            elif nm in ('asl::myatof', 'myatof'):
                inexact.append((g, w))
            elif not w.get('clsp') or w.get('clsp') == 'asl::XdlParser':
                for h in prog.fn(w.get('fn'), w.get('sig')):
                    if h.get('body') and (h.get('file') or '') == (f.get('file') or ''):
                        visit(h, depth + 1)
    visit(f, 0)
    ctx.analysed(f)
    role = 'parse:number texts are converted by a correctly rounded routine'
    if inexact:
        g, w = inexact[0]
        ctx.violation('C05.exact', f['pq'], role, fwhere(g, w.get('l')), '%s converts a number text with `%s`: myatof multiplies an integer mantissa by pow(10, exponent), which is one ulp off for about 6%% of the short decimal texts (0.09375 -> 0.093750000000000014); such a double is not recovered bit for bit' % (g['pq'], pe(w)))
    elif exact:
        ctx.ok('C05.exact', f['pq'], role, fwhere(f), '%d conversion site(s), all atof / strtod' % len(exact))
    ctx.floor('C05.exact conversion sites', len(exact) + len(inexact), 1)


def fn1(prog, name, sig=None):
    fs = [f for f in prog.fn(name, sig) if f.get('body')]
    if not fs:
        raise AnalysisBroken('anchor %s%s not found' % (name, sig or ''))
    return fs[0]


def encoder_table(ctx, prog):
    """byte -> emitted byte sequence of XdlEncoder::new_string (None = \\u00XX form)"""
    f = fn1(prog, 'asl::XdlEncoder::new_string', '(const char *)')
    ctx.analysed(f)
    import emit
    emitted = None
    try:
        emitted, framing, issues = emit.interp_table(prog, f, '_out')
        ctx.evaluations += 255 + 14 * 14 + 512
        ctx.check(framing == ([34], [34]), 'C05.escape', f['pq'], 'new_string:text between two double quotes', fwhere(f), 'every string is written as "..."',
                  'new_string frames the text with %r and %r instead of a pair of double quotes' % (bytes(framing[0]), bytes(framing[1])))
        ctx.check(not issues, 'C05.escape', f['pq'], 'new_string:what is written for a byte does not depend on its neighbours', fwhere(f), 'strings of 2 and 3 bytes over the special bytes are escaped byte by byte',
                  'new_string writes %r for the text %r, byte by byte it would be %r: whether a character is escaped depends on the rest of the string' % (
                      (bytes(issues[0][1] or []), bytes(issues[0][0]), bytes(issues[0][2])) if issues else (b'', b'', b'')))
    except emit.Unresolved:
        emitted = None
    if emitted is None:
        try:
            emitted, _ = emit.emit_table(prog, f, '_out')
        except emit.Unresolved as u:
            raise AnalysisBroken('new_string: %s' % u)
        ctx.evaluations += 255
    fmts = [bytes(w['b']).decode('latin-1') for e in fn_exprs(f) if e.get('k') == 'call' and e.get('fn') in ('snprintf', 'sprintf') for w in walk_expr(e) if w.get('k') == 'str']
    fmt = fmts[0] if fmts else None
    out = dict((b, list(v)) for b, v in emitted.items())
    return f, out, fmt


def check_escape(ctx, prog):
    f, table, fmt = encoder_table(ctx, prog)
    appended = []

    def on_append(m, env, e, c):
        o = strip_lv(e.get('obj') or {})
        if o.get('k') == 'mem' and o.get('f') == '_buffer' and e.get('a'):
            v = m.ev(e['a'][0], env, c)
            env.events.append(('append', v))
        return [env]
    m = C06.build_machine(ctx, prog, explore=False, extra_intrinsics={'operator<<': on_append})
    S = m.S
    strict_bad = [b for b in list(range(1, 32)) + [34, 92] if table[b] is None or table[b][0] != 92]
    ctx.check(not strict_bad, 'C05.escape', f['pq'], 'new_string:control characters, quote and backslash are escaped', fwhere(f), 'bytes 0x01-0x1f, 0x22, 0x5c start with a backslash',
              'the encoder writes byte(s) %s raw inside a string: not valid JSON (an independent strict parser rejects the output)' % ['0x%02x' % b for b in strict_bad[:8]])
    for start_name, stack in (('STRING', ('ARRAY', 'ROOT')), ('QPROPERTY', ('OBJECT:0', 'ROOT'))):
        bad = []
        unknown_fork = False
        for b in range(1, 256):
            seq = table[b]
            if seq is None:
                bad.append((b, 'emitted in an unrecognised form'))
                continue
            envs = [automaton.Env({'_state': S[start_name], '_prevState': S[start_name], '_inComment': 0, '_unicodeCount': 0}, {'_context': stack})]
            apps = {}
            for e in envs:
                apps[id(e)] = []
            trace = [(envs[0], [])]
            dead = None
            for ch in seq:
                c = ch - 256 if ch > 127 else ch
                nxt = []
                for env, acc in trace:
                    pend = [(env, acc)]
                    while pend:
                        cur, acc0 = pend.pop()
                        succ = list(m.step(cur, c))
                        died = []
                        alive = 0
                        for e2, ctl in succ:
                            ctx.evaluations += 1
                            acc2 = acc0 + [ev[1] for ev in e2.events if ev[0] == 'append']
                            if e2.viol:
                                died.append('unsafe stack operation')
                                continue
                            if ctl == 'return' or e2.vars['_state'] == S['ERR']:
                                died.append('the decoder enters the error state')
                                continue
                            alive += 1
                            if e2.pushback:
                                pend.append((e2.copy(), acc2))
                                continue
                            nxt.append((e2, acc2))
                        if died and alive and len(succ) > 1:
                            unknown_fork = True       # the interpreter forked on a value it cannot determine (table look-up by pointer ...)
                        elif died:
                            dead = died[0]
                trace = nxt
            if dead or not trace:
                bad.append((b, dead or 'no successor'))
                continue
            for env, acc in trace:
                cb = b - 256 if b > 127 else b
                if env.vars['_state'] != S[start_name] or env.vars['_inComment'] or env.stacks['_context'] != stack:
                    bad.append((b, 'the decoder is left in state %s%s instead of back in %s' % ([k for k, v in S.items() if v == env.vars['_state']], ' inside a comment' if env.vars['_inComment'] or env.stacks['_context'] != stack else '', start_name)))
                    break
                if len(seq) == 6 and seq[1] == ord('u'):
                    # the branch that treats the code as a first surrogate is infeasible for \\u00XX: one completed trace suffices
                    if not any(e3.vars['_unicodeCount'] == 0 for e3, _ in trace):
                        bad.append((b, 'the \\u escape is not completed'))
                        break
                    continue
                known = [a for a in acc if a is not automaton.U]
                if len(known) != len(acc):
                    unknown_fork = True
                    continue
                if acc != [cb] and [a & 255 for a in known] != [b] or len(acc) != 1:
                    bad.append((b, 'the decoder appends %s instead of the single byte 0x%02x' % ([('?' if a is automaton.U else '0x%02x' % (a & 255)) for a in acc], b)))
                    break
        role = 'new_string <-> decoder from %s' % start_name
        if bad and unknown_fork and all(x[1] in ('the decoder enters the error state', 'no successor') or 'appends' in x[1] or 'left in state' in x[1] for x in bad):
            ctx.undecided('C05.escape', f['pq'], role, fwhere(f), 'the decoder transition for an escape letter depends on a value the interpreter cannot determine (e.g. a table look-up through memchr): %d byte value(s) not decided' % len(bad))
        elif bad:
            ex = bad[0]
            ctx.violation('C05.escape', f['pq'], role, fwhere(f), 'for %d byte value(s) the text the encoder emits is not decoded back to that byte when read in the %s state, e.g. byte 0x%02x (%s): %s' % (
                len(bad), 'string-value' if start_name == 'STRING' else 'quoted-key', ex[0], repr(chr(ex[0])) if 32 <= ex[0] < 127 else 'control/non-ASCII', ex[1]))
        elif unknown_fork:
            ctx.undecided('C05.escape', f['pq'], role, fwhere(f), 'the decoder transition depends on a value the interpreter cannot determine')
        else:
            ctx.ok('C05.escape', f['pq'], role, fwhere(f), 'all 255 byte values round-trip through the interpreted decoder transitions')
    # \\uXXXX decoding: 4 hex digits through strtoul base 16, then UTF-16 -> UTF-8
    p = fn1(prog, 'asl::XdlParser::parse')
    st = [e for e in fn_exprs(p) if e.get('k') == 'call' and e.get('fn') == 'strtoul']
    ok = len(st) == 1 and const_val(st[0]['a'][2]) == 16 and any(e.get('k') == 'call' and (e.get('fn') or '').endswith('utf16toUtf8') for e in fn_exprs(p))
    ctx.check(ok, 'C05.escape', p['pq'], 'parse:\\uXXXX is four hex digits converted base 16 and re-encoded as UTF-8', fwhere(p), 'strtoul(.., 16) + utf16toUtf8', 'the decoder does not convert \\uXXXX escapes with base-16 digits and UTF-16 to UTF-8 re-encoding')
    # keys are written with the same escaping
    np_ = fn1(prog, 'asl::XdlEncoder::new_property')
    ctx.analysed(np_)
    ok = any(e.get('k') == 'call' and (e.get('pq') or '') == 'asl::XdlEncoder::new_string' for e in fn_exprs(np_))
    ctx.check(ok, 'C05.escape', np_['pq'], 'new_property:JSON keys escaped like strings', fwhere(np_), 'new_string(name)', 'JSON object keys are not written through the string escaper')
    # ... on every JSON path: the name reaches the output unescaped only where the mode is not JSON (XDL identifiers)
    g_ = q.Guarded(np_)
    pid_ = np_['params'][0]['id']
    raw = []
    for e in fn_exprs(np_):
        if e.get('k') == 'call' and (e.get('op') in ('<<', '+=') or (e.get('pq') or '').split('::')[-1] in ('append', 'operator<<', 'operator+=')) and \
                any(strip_lv(a).get('k') == 'var' and strip_lv(a).get('id') == pid_ for a in e.get('a') or []):
            not_json = any(isinstance(c_, dict) and ((pol is False and strip_lv(c_).get('k') == 'mem' and strip_lv(c_).get('f') == '_json') or
                                                     (pol is True and strip(c_).get('k') == 'un' and strip(c_).get('op') == '!' and strip_lv(strip(c_)['e']).get('f') == '_json'))
                           for c_, pol, kind in g_.of(e))
            if not not_json:
                raw.append(e)
    ctx.check(not raw, 'C05.escape', np_['pq'], 'new_property:no JSON path writes the key unescaped', fwhere(np_, raw[0]['l'] if raw else None), 'the raw append of the name is confined to the non-JSON branch',
              'new_property() appends the key as it is (`%s`) on a path that is not excluded for JSON output: a key with a control character is written raw, which no strict JSON parser accepts' % (pe(raw[0])[:60] if raw else ''))


def check_numbers(ctx, prog):
    enc = fn1(prog, 'asl::XdlEncoder::encode')
    ctor = [f for f in prog.functions if f.get('kind') == 'ctor' and f.get('cls') == 'asl::XdlEncoder' and f.get('body') and not f.get('implicit')]
    if not ctor:
        raise AnalysisBroken('XdlEncoder constructor not found')
    ctx.analysed(enc)
    ctx.analysed(ctor[0])

    def prec(s_):
        s_ = s_.rstrip('\x00')
        return int(s_[2:-1]) if s_.startswith('%.') and s_.endswith('g') else None
    fmts = {'_fmtD': [], '_fmtF': []}
    defaults = {}
    for f in (ctor[0], enc):
        for e in fn_exprs(f):
            name = rhs = None
            if e.get('k') == 'bin' and e.get('op') == '=' and strip_lv(e['x']).get('f') in fmts:
                name, rhs = strip_lv(e['x'])['f'], e['y']
            elif e.get('k') == 'call' and e.get('pq') == 'asl::String::operator=' and e.get('obj') is not None and strip_lv(e['obj']).get('f') in fmts:
                name, rhs = strip_lv(e['obj'])['f'], e['a'][0]
            if name is None:
                continue
            lits = [bytes(w['b']).decode('latin-1') for w in walk_expr(rhs) if w.get('k') == 'str']
            fmts[name] += lits
            a = strip(rhs)
            while a.get('k') in ('construct', 'temp'):
                a = strip(a['a'][0]) if a.get('k') == 'construct' and a.get('a') else strip(a.get('e') or {})
            # default = the literal used when the SIMPLE flag is off: last operand of `_simple ? A : B`, else the constructor's literal
            if a.get('k') == 'cond':
                d = [bytes(w['b']).decode('latin-1') for w in walk_expr(a['y']) if w.get('k') == 'str']
                if d:
                    defaults[name] = d[0]
            elif a.get('k') == 'str' and name not in defaults:
                defaults[name] = bytes(a['b']).decode('latin-1')
            # _fmtD = _fmtF  (SHORTF): doubles formatted with the float format
            if name == '_fmtD' and any(w.get('k') == 'mem' and w.get('f') == '_fmtF' for w in walk_expr(rhs)):
                fmts['_fmtD'] += fmts['_fmtF']
    ctx.info['number_formats'] = fmts
    ctx.info['default_formats'] = defaults
    # the shorter formats are selected by the SIMPLE bit of the mode and by nothing else: the flag the selection tests is
    # evaluated for every mode value 0..63 (a mask that also matches PRETTY makes every pretty-printed or written file lossy)
    sel = None
    for e in fn_exprs(enc):
        rhs_ = None
        if e.get('k') == 'bin' and e.get('op') == '=' and strip_lv(e['x']).get('f') in fmts:
            rhs_ = strip(e['y'])
        elif e.get('k') == 'call' and e.get('pq') == 'asl::String::operator=' and e.get('obj') is not None and strip_lv(e['obj']).get('f') in fmts:
            rhs_ = strip(e['a'][0])
        while rhs_ is not None and rhs_.get('k') in ('construct', 'temp'):
            rhs_ = strip(rhs_['a'][0]) if rhs_.get('k') == 'construct' and rhs_.get('a') else strip(rhs_.get('e') or {})
        if rhs_ is not None and rhs_.get('k') == 'cond' and strip_lv(rhs_['c']).get('k') == 'mem':
            sel = strip_lv(rhs_['c'])['f']
    simple_bit = q.enum_value(prog, 'asl::Json::Mode', 'SIMPLE')
    modes = [p_ for p_ in enc['params'] if T(enc, p_['t']).get('enum') or T(enc, p_['t']).get('int')]
    if sel and simple_bit and modes:
        asg = [e for e in fn_exprs(enc) if e.get('k') == 'bin' and e.get('op') == '=' and strip_lv(e['x']).get('k') == 'mem' and strip_lv(e['x']).get('f') == sel]
        if len(asg) == 1:
            wrong = None
            try:
                for m_ in range(0, 64):
                    got = bool(bytesets.Evaluator(prog, enc, {modes[-1]['id']: m_}).ev(asg[0]['y']))
                    ctx.evaluations += 1
                    if got != bool(m_ & simple_bit) and wrong is None:
                        wrong = (m_, got)
                ctx.check(wrong is None, 'C05.numbers', enc['pq'], 'reduced precision only with the SIMPLE flag', fwhere(enc, asg[0]['l']), '`%s` is set exactly for modes with bit %d' % (sel, simple_bit),
                          'for mode %s the flag `%s` that selects the 15 / 7 digit formats is %s although the SIMPLE bit (%d) is %s: numbers written in that mode are not recovered exactly' % (
                              wrong[0] if wrong else '', sel, wrong[1] if wrong else '', simple_bit, 'clear' if wrong and wrong[1] else 'set'))
            except bytesets.Undecidable as u:
                ctx.info['simple_flag'] = 'not evaluable: %s' % u
    pd, pf = prec(defaults.get('_fmtD', '')), prec(defaults.get('_fmtF', ''))
    ctx.check(pd is not None and pd >= 17, 'C05.numbers', enc['pq'], 'default double format has >= 17 significant digits', fwhere(enc), 'default %s' % defaults.get('_fmtD'),
              'the default double format `%s` prints fewer than 17 significant digits: distinct doubles collapse to the same text and are not recovered bit for bit' % defaults.get('_fmtD'))
    ctx.check(pf is not None and pf >= 9, 'C05.numbers', enc['pq'], 'default float format has >= 9 significant digits', fwhere(enc), 'default %s' % defaults.get('_fmtF'),
              'the default float format `%s` prints fewer than 9 significant digits: floats are not recovered exactly' % defaults.get('_fmtF'))
    for sig, fld, flt in (('(double)', '_fmtD', 'double'), ('(float)', '_fmtF', 'float')):
        f = fn1(prog, 'asl::XdlEncoder::new_number', sig)
        ctx.analysed(f)
        sn = [e for e in fn_exprs(f) if e.get('k') == 'call' and e.get('fn') == 'snprintf']
        rs = [e for e in fn_exprs(f) if e.get('k') == 'call' and e.get('pq') == 'asl::String::resize']
        role = 'new_number%s' % sig
        if len(sn) != 1 or len(rs) != 1:
            ctx.undecided('C05.numbers', f['pq'], role + ':reserve and format', fwhere(f), 'expected one resize and one snprintf')
            continue
        size = const_val(sn[0]['a'][1])
        a = strip(rs[0]['a'][0])
        extra = const_val(a['y']) if a.get('k') == 'bin' and a.get('op') == '+' else None
        widths = [C03.printf_width(x, 64, flt) for x in set(fmts[fld])]
        wmax = max([w for w in widths if w is not None] or [0])
        ctx.evaluations += 3
        ok = size is not None and extra is not None and size <= extra + 1 and wmax + 1 <= size and None not in widths
        ctx.check(ok, 'C05.numbers', f['pq'], role + ':reserve >= snprintf size >= widest text + NUL', fwhere(f, sn[0]['l']),
                  'reserve %s+1 >= size %s >= width %d+1 of %s' % (extra, size, wmax, sorted(set(fmts[fld]))),
                  'the buffer reserved before formatting (%s+1 bytes), the snprintf size (%s) and the widest text of %s (%d characters + NUL) do not nest: the number is truncated (an embedded NUL ends the text) or written past the reserve'
                  % (extra, size, sorted(set(fmts[fld])), wmax))
        # non-finite guard dominates snprintf
        # non-finite values never reach snprintf: the guards of the call evaluated with the argument bound to inf, -inf, NaN
        g = q.Guarded(f)
        import bounded as _b
        verdicts = []
        for v in (float('inf'), float('-inf'), float('nan')):
            ev = _b.Bound(prog, f, {f['params'][0]['id']: v}, {})
            verdicts.append(_b.admitted3(ev, g.of(sn[0]), g, relevant=lambda c_: any(w.get('k') == 'var' and w.get('id') == f['params'][0]['id'] for w in walk_expr(q.expand(f, c_)))))
            ctx.evaluations += 1
        if any(v is True for v in verdicts):
            ctx.violation('C05.numbers', f['pq'], role + ':non-finite values never formatted', fwhere(f, sn[0]['l']), 'snprintf is reachable for infinite/NaN values: the output "inf"/"nan" is not valid JSON and does not decode')
        elif any(v is None for v in verdicts):
            ctx.undecided('C05.numbers', f['pq'], role + ':non-finite values never formatted', fwhere(f, sn[0]['l']), 'a guard of the snprintf call that mentions the argument is not evaluable for inf / NaN')
        else:
            ctx.ok('C05.numbers', f['pq'], role + ':non-finite values never formatted', fwhere(f, sn[0]['l']), 'the guards of snprintf exclude inf, -inf and NaN')
        # ... and every finite value does: the same guards evaluated for zero, one, the smallest and the largest finite magnitudes
        import struct
        big = 1.7976931348623157e308 if flt == 'double' else struct.unpack('<f', struct.pack('<I', 0x7f7fffff))[0]
        tiny = 5e-324 if flt == 'double' else struct.unpack('<f', struct.pack('<I', 1))[0]
        fin = []
        for v in (0.0, -0.0, 1.0, -1.0, tiny, -tiny, big, -big):
            ev = _b.Bound(prog, f, {f['params'][0]['id']: v}, {})
            fin.append((v, _b.admitted3(ev, g.of(sn[0]), g, relevant=lambda c_: any(w.get('k') == 'var' and w.get('id') == f['params'][0]['id'] for w in walk_expr(q.expand(f, c_))))))
            ctx.evaluations += 1
        lost = [v for v, r_ in fin if r_ is False]
        if lost:
            ctx.violation('C05.numbers', f['pq'], role + ':every finite value is formatted', fwhere(f, sn[0]['l']), 'the guards of snprintf exclude the finite value %r: it is written as a non-finite marker and decodes as infinity / NaN' % lost[0])
        elif any(r_ is None for v, r_ in fin):
            ctx.undecided('C05.numbers', f['pq'], role + ':every finite value is formatted', fwhere(f, sn[0]['l']), 'a guard of the snprintf call is not evaluable for a finite argument')
        else:
            ctx.ok('C05.numbers', f['pq'], role + ':every finite value is formatted', fwhere(f, sn[0]['l']), 'the guards of snprintf admit 0, +-1, the smallest subnormal and the largest finite %s' % flt)
    f = fn1(prog, 'asl::XdlEncoder::new_number', '(int)')
    ctx.analysed(f)
    rs = [e for e in fn_exprs(f) if e.get('k') == 'call' and e.get('pq') == 'asl::String::resize']
    extra = None
    if rs:
        a = strip(rs[0]['a'][0])
        extra = const_val(a['y']) if a.get('k') == 'bin' and a.get('op') == '+' else None
    # the text may also be formatted into a fixed local buffer first: it then needs 12 bytes (11 characters + NUL)
    local_cap = None
    for e in fn_exprs(f):
        is_itoa = e.get('k') == 'call' and (e.get('pq') or e.get('fn') or '').split('::')[-1] in ('myitoa', 'myltoa') and len(e.get('a', [])) == 2
        if (e.get('k') == 'call' and e.get('fn') in ('snprintf', 'sprintf') and e.get('a')) or is_itoa:
            d = strip(q.expand(f, e['a'][1 if is_itoa else 0]))
            while d.get('k') in ('cast', 'paren'):
                d = strip(d['e'])
            dt = T(f, d.get('dt') or d.get('t'))
            if d.get('k') == 'var' and d.get('vk') == 'local' and dt.get('n'):
                sz = const_val(e['a'][1]) if e.get('fn') == 'snprintf' else None
                local_cap = dt['n'] if sz is None else min(dt['n'], sz) if sz <= dt['n'] else -1
    if extra is None and local_cap is None:
        ctx.undecided('C05.numbers', f['pq'], 'new_number(int):reserve 11', fwhere(f), 'neither a reserve of the output nor a fixed local buffer found for the text of an int')
    else:
        okr = (extra is not None and extra >= 11) or (local_cap is not None and local_cap >= 12)
        ctx.check(okr, 'C05.numbers', f['pq'], 'new_number(int):reserve 11', fwhere(f), 'reserve %s' % (extra if extra is not None else '%d-byte local buffer' % local_cap), 'fewer than 11 bytes (+ NUL) reserved for the text of an int (INT_MIN has 11 characters)')
    # decoder: int conversion only for short digit strings
    p = fn1(prog, 'asl::XdlParser::parse')
    g = q.Guarded(p)
    ints = [e for e in fn_exprs(p) if e.get('k') == 'call' and (e.get('fn') or '').endswith('myatoiz')]
    # decided by evaluation: the guards of the int conversion, with the length of the collected digit string bound to 1..14,
    # must exclude every length above 9 (10 digits can exceed INT_MAX)
    import bounded as _b
    ok = bool(ints)
    und = None
    worst = None
    for e in ints:
        lens = set(pe(w) for c, pol, kind in g.of(e) if isinstance(c, dict) for w in walk_expr(q.expand(p, c)) if w.get('k') == 'call' and (w.get('pq') or '').endswith('::length'))
        if len(lens) != 1:
            und = 'the guards of `%s` do not consult exactly one length()' % pe(e)[:40]
            continue
        lt = list(lens)[0]
        for L in range(1, 15):
            ev = _b.Bound(prog, p, {}, {lt: L})
            r3 = _b.admitted3(ev, g.of(e), g, relevant=lambda c_, lt=lt: any(w.get('k') == 'call' and pe(w) == lt for w in walk_expr(q.expand(p, c_))))
            ctx.evaluations += 1
            if L > 9 and r3 is True:
                worst = L
            if L > 9 and r3 is None:
                und = 'a guard of the int conversion that mentions the length is not evaluable'
    if worst is not None or not ok:
        ctx.violation('C05.numbers', p['pq'], 'parse:int conversion only up to 9 characters', fwhere(p), 'digit strings of %s characters are converted through int: values beyond INT_MAX wrap' % (worst if worst else 'any number of'))
    elif und:
        ctx.undecided('C05.numbers', p['pq'], 'parse:int conversion only up to 9 characters', fwhere(p), und)
    else:
        ctx.ok('C05.numbers', p['pq'], 'parse:int conversion only up to 9 characters', fwhere(p), 'the guards of the int conversion exclude digit strings longer than 9 characters (lengths 1..14 evaluated)')


def check_tags(ctx, prog):
    f = fn1(prog, 'asl::XdlEncoder::_encode')
    ctx.analysed(f)
    en = prog.enums.get('asl::Var::Type')
    if not en:
        raise AnalysisBroken('enum asl::Var::Type not found')
    sw = [s_ for s_ in ir.walk_stmts(f['body']) if s_.get('k') == 'switch' and any(w.get('k') == 'mem' and w.get('f') == '_type' for w in walk_expr(s_['c']))]
    if not sw:
        raise AnalysisBroken('_encode: type switch not found')
    have = {}
    for st in sw[0]['body']['s']:
        x = st
        labs = []
        while x.get('k') in ('case', 'default'):
            if x['k'] == 'case':
                labs.append(x.get('v'))
            x = x['sub']
        if labs:
            cur = labs
            for l in labs:
                have.setdefault(l, [])
        for l in cur if labs or True else []:
            have.setdefault(l, []).append(x)
    need = dict((c['v'], c['n']) for c in en['consts'])
    miss = [need[v] for v in need if v not in have]
    ctx.evaluations += len(need)
    ctx.check(not miss, 'R-TAG', f['pq'], '_encode:every Var type has a case', fwhere(f, sw[0]['l']), '%d tags' % len(need), 'the encoder has no case for Var type(s) %s: such values are silently dropped from the output' % miss)
    fl = [c['v'] for c in en['consts'] if c['n'] == 'FLOAT']
    okf = False
    if fl and fl[0] in have:
        for st in have[fl[0]]:
            for e in ir.stmt_exprs(st):
                if e.get('k') == 'call' and e.get('pq') == 'asl::XdlEncoder::new_number' and e.get('sig') == '(float)':
                    okf = True
    ctx.check(okf, 'R-TAG', f['pq'], '_encode:FLOAT uses the float overload', fwhere(f), 'new_number(float)', 'FLOAT values are not written through the 9-digit float formatter (they would print 17 digits of a widened value or lose digits)')


def check_sink(ctx, prog):
    enc = fn1(prog, 'asl::XdlEncoder::encode')
    cfg = cfgm.CFG(enc)

    def step(nd, st):
        if nd.kind == 'ev' and nd.e is not None:
            e = nd.e
            if e.get('k') == 'call' and (e.get('pq') or '').endswith('XdlSink::write'):
                return 'flushed'
            if e.get('k') == 'call' and e.get('pq') in ('asl::XdlEncoder::_encode',) or (e.get('k') == 'call' and e.get('obj') is not None and strip_lv(e['obj']).get('f') == '_out' and 'const' not in (e.get('sig') or '').split(')')[-1]):
                return 'dirty'
        return st
    reached, _ = cfgm.dataflow(cfg, 'clean', step)
    exits = reached.get(cfg.exit.id, set())
    ctx.check('dirty' not in exits and 'flushed' in exits, 'C05.sink', enc['pq'], 'encode:final flush on every exit', fwhere(enc), '_sink->write(_out) after the last output', 'encode() can return with buffered output that was never handed to the sink: the tail of a written file is missing')
    w = [f for f in prog.functions if f.get('n') == 'write' and 'XdlSinkFile' in (f.get('cls') or '') and f.get('body')]
    if not w:
        raise AnalysisBroken('XdlSinkFile::write not found')
    ctx.analysed(w[0])
    # the buffer handed in is given to the file (operator<< / write / append of the file member with the buffer as argument), then
    # emptied (`s = ""`, `s.clear()`, `s.resize(0)`), in that order
    sp = w[0]['params'][0]['id'] if w[0].get('params') else None
    order = list(fn_exprs(w[0]))

    def names_buf(x):
        return any(y.get('k') == 'var' and y.get('id') == sp for y in walk_expr(x))
    wr = [i for i, e in enumerate(order) if e.get('k') == 'call' and ((e.get('pq') or '').split('::')[-1] in ('operator<<', 'write', 'append')) and e.get('obj') is not None and
          not names_buf(e['obj']) and any(names_buf(a) for a in e.get('a') or [])]
    cl = [i for i, e in enumerate(order) if e.get('k') == 'call' and e.get('obj') is not None and names_buf(e['obj']) and (
        (e.get('pq') == 'asl::String::operator=' and any(x.get('k') == 'str' and x.get('b') == [] for x in walk_expr(e))) or
        ((e.get('pq') or '').split('::')[-1] == 'clear' and not e.get('a')) or
        ((e.get('pq') or '').split('::')[-1] == 'resize' and e.get('a') and const_val(e['a'][0]) == 0))]
    ctx.check(bool(wr) and bool(cl) and min(wr) < max(cl), 'C05.sink', w[0]['pq'], 'XdlSinkFile::write:writes then clears', fwhere(w[0]), 'the buffer is written to the file, then emptied', 'the file sink does not both write the buffer and clear it: output is lost or duplicated')
    rd = fn1(prog, 'asl::Xdl::read')
    ctx.analysed(rd)
    loops = [s_ for s_ in ir.walk_stmts(rd['body']) if s_.get('k') in ('while', 'for', 'do')]
    chunk = [lp for lp in loops if any(e.get('k') == 'call' and e.get('pq') == 'asl::XdlParser::parse' for e in ir.stmt_exprs(lp['body']))]
    if not chunk:
        raise AnalysisBroken('Xdl::read: chunk loop not found')
    lp = chunk[0]
    bom_in_loop = [e for e in ir.stmt_exprs(lp['body']) if e.get('k') == 'int' and const_val(e) in (0xef, 0xbb, 0xbf)]
    bom_before = [e for e in fn_exprs(rd) if e.get('k') == 'int' and const_val(e) in (0xef, 0xbb, 0xbf) and e.get('l', 0) < lp['l']]
    ctx.check(not bom_in_loop and len(bom_before) >= 3, 'C05.sink', rd['pq'], 'read:BOM probed once, before the chunk loop', fwhere(rd, bom_in_loop[0]['l'] if bom_in_loop else None), 'EF BB BF tested before the loop only',
              'the byte-order-mark test runs inside the chunk loop: a U+FEFF character that starts exactly at a chunk boundary inside a string is dropped')
    # the chunk is handed to the parser as a C string: the terminator stored behind the bytes read lies inside the buffer, i.e. each
    # read asks for at most length() - 1 bytes (evaluated for buffer lengths 1..6; a file that fills the buffer is otherwise
    # terminated one byte past it)
    import bounded
    rdcalls = [e for e in ir.stmt_exprs(lp['body']) if e.get('k') == 'call' and (e.get('pq') or '').split('::')[-1] == 'read' and len(e.get('a') or []) == 2]
    zstores = [e for e in ir.stmt_exprs(lp['body']) if e.get('k') == 'bin' and e.get('op') == '=' and const_val(e['y']) == 0 and
               ((strip_lv(e['x']).get('k') == 'call' and strip_lv(e['x']).get('op') == '[]') or strip_lv(e['x']).get('k') == 'idx')]
    if len(rdcalls) == 1 and len(zstores) == 1:
        cnt = rdcalls[0]['a'][1]
        over = None
        try:
            by_id, by_text = bounded.atoms_of(prog, rd, cnt)
            lens = [t for t in by_text if 'length' in t]
            if not by_id and len(by_text) == 1 and lens:
                for L in range(1, 7):
                    got = bounded.Bound(prog, rd, {}, {lens[0]: L}).ev(cnt)
                    ctx.evaluations += 1
                    if got > L - 1 and over is None:
                        over = (L, got)
                ctx.check(over is None, 'C05.sink', rd['pq'], 'read:room for the terminator behind every chunk', fwhere(rd, rdcalls[0]['l']), '`%s` <= length() - 1' % pe(cnt),
                          'with a buffer of %s bytes a chunk of up to %s bytes is read and the terminator is stored behind it, at index %s: a file of at least that size is terminated outside the buffer' % (
                              over[0] if over else '', over[1] if over else '', over[1] if over else ''))
            else:
                ctx.info['chunk_terminator'] = 'read count `%s` is not a function of the buffer length alone' % pe(cnt)
        except bytesets.Undecidable as u:
            ctx.info['chunk_terminator'] = 'not evaluable: %s' % u
    # the probe rewinds exactly when it did not find a complete BOM: the guard of seek(0) is evaluated for every probe result
    probe_if = [s_ for s_ in ir.walk_stmts(rd['body']) if s_.get('k') == 'if' and s_.get('l', 0) < lp['l'] and any(e.get('k') == 'call' and (e.get('pq') or '').endswith('::seek') and const_val(e['a'][0]) == 0 for e in ir.stmt_exprs(s_['then']))]
    role = 'read:probe rewinds unless a complete BOM was read'
    if len(probe_if) != 1:
        ctx.undecided('C05.sink', rd['pq'], role, fwhere(rd), 'no single `if (...) seek(0)` before the chunk loop')
    else:
        cond = probe_if[0]['c']

        class Ev(bytesets.Evaluator):
            def __init__(self, r, bom):
                bytesets.Evaluator.__init__(self, prog, rd)
                self.r, self.bom = r, bom

            def ev(self, e):
                if e is not None and e.get('k') == 'call' and (e.get('pq') or '').endswith('::read') and len(e.get('a', [])) == 2:
                    return self.r
                if e is not None and e.get('k') == 'idx' and const_val(e['i']) is not None and strip(e['b']).get('k') == 'var':
                    return self.bom[const_val(e['i'])]
                return bytesets.Evaluator.ev(self, e)
        bad = []
        try:
            for r in range(0, 4):
                for bom in ((0xef, 0xbb, 0xbf), (0xef, 0xbb, 0x00), (0x7b, 0x22, 0x61), (0x37, 0x00, 0x00)):
                    rewinds = bool(Ev(r, bom).ev(cond))
                    want = not (r == 3 and bom == (0xef, 0xbb, 0xbf))
                    ctx.evaluations += 1
                    if rewinds != want:
                        bad.append((r, bom, rewinds))
            ctx.check(not bad, 'C05.sink', rd['pq'], role, fwhere(rd, probe_if[0]['l']), 'seek(0) iff not (3 bytes read and they are EF BB BF)',
                      'after probing for a BOM the reader %s when the probe read %d byte(s) %s: %s' % ('rewinds' if bad and bad[0][2] else 'does not rewind', bad[0][0] if bad else 0, ' '.join('%02x' % b for b in (bad[0][1] if bad else ())),
                                                                                               'the start of the document is skipped' if bad and not bad[0][2] else 'the BOM is parsed as text'))
        except bytesets.Undecidable as ex:
            ctx.undecided('C05.sink', rd['pq'], role, fwhere(rd, probe_if[0]['l']), 'probe condition not evaluable: %s' % ex)
    term = [e for e in ir.stmt_exprs(lp['body']) if e.get('k') == 'bin' and e.get('op') == '=' and const_val(e['y']) == 0 and strip_lv(e['x']).get('k') in ('call', 'idx')]
    seq = [e for e in ir.stmt_exprs(lp['body']) if e in term or (e.get('k') == 'call' and e.get('pq') == 'asl::XdlParser::parse')]
    ctx.check(bool(term) and seq and seq[0] in term, 'C05.sink', rd['pq'], 'read:each chunk NUL-terminated before parsing', fwhere(rd), 'buffer[n] = 0 precedes parse()', 'a chunk is parsed without first being terminated at the number of bytes read')
    flush = [e for e in fn_exprs(rd) if e.get('k') == 'call' and e.get('pq') == 'asl::XdlParser::parse' and e.get('l', 0) > lp['l'] and any(w_.get('k') == 'str' and w_.get('b') == [32] for w_ in walk_expr(e))]
    ctx.check(bool(flush), 'C05.sink', rd['pq'], 'read:final blank flush after the last chunk', fwhere(rd), 'parse(" ")', 'the file reader does not flush the parser with a blank after the last chunk: a trailing number is lost')
