"""C09 - HTTP request parsing: structural clauses decided statically.

 C09.dotdot   in HttpRequest::read the request path is percent-decoded first and stripped of ".." afterwards on every path; nothing
              decodes or rewrites it after the strip; the path parts are split from the stripped path; no other function writes the path;
              the file server builds the local file name only from request.path(); String::replace restarts its search after each
              replaced occurrence (a single left-to-right pass over runs of dots cannot leave "..")
 R-SPLITIDX   every constant index into an Array<String> produced by split() is dominated by a length test that implies it is in range
 C09.query    the query string is only cut out when the '?' lies before the fragment (no negative-length substring)
 C09.lookahead  percent-decoding look-ahead is dominated by its length guard; Url::Url reads url[hostend+1] only after hostend >= 0
 C09.lines    the socket line reader bounds the line length inside its read loop and ends on error/EOF; the header reader stops on a line
              without ':' and on the empty line; the body reader leaves its loop when the peer has closed
 C09.headers  setHeader / header / hasHeader all key through the same canonicalisation (case-insensitive lookup); a header's value is
              everything after the colon
 C09.lookup   accessors of the message classes return `dictionary[key]` through the const subscript (no insertion of absent keys)
 C09.progress the loops that copy from a file or the socket (`n = x.read(...)` ... `count += n`) leave when the read yields 0: assuming 0,
              no walk through evaluated / unchanged branches returns to the same read
 Termination/promptness for every truncated stream and fidelity of bodies are not decided."""
import os
import ir, q, bounded, cfg as cfgm, bytesets
from ir import strip, strip_lv, const_val, T, pe, walk_expr, fn_exprs, AnalysisBroken
from core import fwhere


def run(ctx):
    units = [os.path.join(ir.REPO, 'src', x) for x in ('Http.cpp', 'HttpServer.cpp', 'Socket.cpp', 'String.cpp')]
    if ctx.tier == 'thorough':
        units += [u for u in ir.library_units() if u not in units]
    prog = ir.load_units(units)
    ctx.use_program(prog)
    check_dotdot(ctx, prog)
    check_splitidx(ctx, prog)
    check_query(ctx, prog)
    check_lookahead(ctx, prog)
    check_lines(ctx, prog)
    check_headers(ctx, prog)
    check_parse_query(ctx, prog)
    # bodies are read with the blocking Socket_::read(p, n): a retry after a short transfer asks for the remainder only
    import C16
    C16.PROG = prog
    C16.check_partial(ctx, prog, rule='C09.partial', files=False)
    # the file sender and the body reader end when their source is exhausted (a read that yields 0 leaves the loop)
    import progress
    n = progress.check(ctx, prog, 'C09.progress', ('Http.cpp', 'HttpServer.cpp'))
    ctx.floor('C09.progress', n, 1)
    ctx.floor('C09.lookup', check_lookup(ctx, prog), 1)
    ctx.info['folded_header_tests'] = check_folded(ctx, prog)
    import nullret
    nullret.check(ctx, prog, 'C09', ('Http.cpp', 'HttpServer.cpp'))
    import litread
    litread.check(ctx, prog, 'C09', ('Http.cpp', 'HttpServer.cpp'))
    # readHeaders() trims every folded header line: the trim helpers must not cut a negative range for blank lines
    import C03
    sp = ir.load_units([os.path.join(ir.REPO, 'src', 'String.cpp')]) if not any(f.get('pq') == 'asl::String::trimmed' and f.get('body') for f in prog.functions) else prog
    C03.check_trim(ctx, sp, rule='C09.lines')
    # Url::parseQuery / HttpRequest::query() / form bodies cut the query into parameters with String::split(sep1, sep2)
    C03.check_split_dic(ctx, sp, rule='C09.query')
    # the dispatcher lower-cases header values the peer sent (`header("Connection").toLowerCase()`): the case mappings stay in
    # bounds on ill-formed bytes (shared rule C08.casebytes)
    import C08
    up = ir.load_units([os.path.join(ir.REPO, 'src', x) for x in ('String.cpp', 'unicodedata.cpp')])      # the case tables live in unicodedata.cpp
    C08.check_case_bytes(ctx, up)
    return __doc__.split('\n\n', 1)[1]


def check_folded(ctx, prog):
    """C09.lines (folded headers): a header line that starts with a blank continues the previous header.  The test looks at the
    first byte of the line *as received*: on no path from the read of the line to the `isspace(line[0])` test has the line been
    trimmed (a trimmed line never starts with a blank - every continuation would be taken for a header of its own, and one that
    contains a colon becomes a header the peer never sent)."""
    f = fn1(prog, 'asl::HttpMessage::readHeaders')
    cfg = cfgm.CFG(f)
    bad = []
    sites = []

    def line_var(e):
        for w in walk_expr(e):
            if w.get('k') == 'var' and T(f, w.get('dt') or w.get('t')).get('rec') == 'asl::String':
                return w['id']
        return None

    def step(nd, st):
        if nd.kind == 'decl' and isinstance(nd.info, dict) and nd.info.get('id') in st:
            ini = nd.info.get('init') or {}
            if not any(w.get('k') == 'call' and (w.get('pq') or '') in ('asl::String::trimmed', 'asl::String::trim') for w in walk_expr(ini)):
                return st - frozenset([nd.info['id']])      # a fresh line object of this iteration
            return st
        if nd.kind == 'decl' and isinstance(nd.info, dict) and nd.info.get('id') is not None:
            ini = nd.info.get('init') or {}
            if any(w.get('k') == 'call' and (w.get('pq') or '') == 'asl::String::trimmed' for w in walk_expr(ini)):
                return st | frozenset([nd.info['id']])      # `String line = readLine().trimmed();`
            return st
        if nd.kind != 'ev' or nd.e is None:
            return st
        e = nd.e
        if e.get('k') == 'call':
            nm = (e.get('pq') or e.get('fn') or '')
            if nm == 'asl::String::trim' and e.get('obj') is not None and strip_lv(e['obj']).get('k') == 'var':
                return st | frozenset([strip_lv(e['obj'])['id']])
            if nm == 'asl::String::operator=' and e.get('obj') is not None and strip_lv(e['obj']).get('k') == 'var':
                vid = strip_lv(e['obj'])['id']
                if any(w.get('k') == 'call' and (w.get('pq') or '') in ('asl::String::trimmed', 'asl::String::trim') for w in walk_expr(e['a'][0] if e.get('a') else {})):
                    return st | frozenset([vid])
                return st - frozenset([vid])
            if nm.split('::')[-1] in ('isspace', 'myisspace', 'isblank') and e.get('a'):
                vid = line_var(e['a'][0])
                if vid is not None:
                    sites.append(e.get('l'))
                    if vid in st:
                        bad.append(e.get('l'))
        return st
    cfgm.dataflow(cfg, frozenset(), step)
    if sites:
        ctx.analysed(f)
        ctx.check(not bad, 'C09.lines', f['pq'], 'readHeaders:the continuation test reads the line as received', fwhere(f, bad[0] if bad else sites[0]), 'no trim of the line on a path to the test of its first byte',
                  'readHeaders tests the first byte of the line for a blank (line %s) after the line was trimmed: the test can never succeed, so a folded header line is parsed as a header of its own (`X-Note: a\\r\\n Authorization: none` yields an Authorization header the peer did not send)' % (bad[0] if bad else ''))
    return len(sites)


def check_lookup(ctx, prog):
    """C09.lookup: asking a request for a parameter or header it does not carry leaves the request as it was received.  The
    dictionaries of a message (`_query`, `_headers`) have two subscript operators: the const one returns an empty value for an
    absent key, the non-const one *inserts* the key (and may move the array every earlier `const String&` result points into).
    In the accessors of the HTTP message classes every `return <dictionary>[key]` goes through the const operator."""
    n = 0
    for f in prog.functions:
        if not f.get('body') or f.get('implicit') or f.get('clsp') not in ('asl::HttpRequest', 'asl::HttpMessage', 'asl::HttpResponse', 'asl::Url'):
            continue
        for s_ in ir.walk_stmts(f['body']):
            if s_.get('k') != 'return' or s_.get('e') is None:
                continue
            e = strip(s_['e'])
            while e.get('k') in ('paren', 'cast', 'temp') or (e.get('k') == 'construct' and len(e.get('a') or []) == 1):
                e = strip(e['e'] if e.get('k') != 'construct' else e['a'][0])
            if e.get('k') != 'call' or e.get('clsp') not in ('asl::Map', 'asl::Dic', 'asl::HashMap') or (e.get('pq') or '').split('::')[-1] not in ('operator[]', 'get', 'find') or e.get('obj') is None:
                continue
            n += 1
            ctx.analysed(f)
            inserting = (e.get('pq') or '').endswith('operator[]') and not (e.get('sig') or '').rstrip().endswith('const')
            role = '%s%s:`return %s` looks up without inserting' % (f['n'], f.get('sig') or '', pe(e)[:40])
            ctx.check(not inserting, 'C09.lookup', f['pq'], role, fwhere(f, s_.get('l')), 'const subscript (an absent key yields an empty value)',
                      '%s returns `%s` through the non-const subscript operator: a key the peer did not send is inserted with an empty value - the request then lists parameters that were never sent, and the insertion can move the array that earlier results refer to' % (f['pq'], pe(e)))
    return n


def fn1(prog, name, sig=None):
    fs = [f for f in prog.fn(name, sig) if f.get('body')]
    if not fs:
        raise AnalysisBroken('anchor %s%s not found' % (name, sig or ''))
    return fs[0]


def is_path_store(e):
    if e.get('k') == 'call' and e.get('pq') == 'asl::String::operator=' and e.get('obj') is not None and strip_lv(e['obj']).get('f') == '_path':
        return True
    return False


def lit(e, text):
    return any(w.get('k') == 'str' and bytes(w['b']).decode('latin-1') == text for w in walk_expr(e))


def check_dotdot(ctx, prog):
    f = fn1(prog, 'asl::HttpRequest::read')
    ctx.analysed(f)
    cfg = cfgm.CFG(f)
    bad_split = []

    def classify(e):
        rhs = e['a'][0] if e.get('a') else None
        if rhs is None:
            return 'X'
        has_dec = any(w.get('k') == 'call' and w.get('pq') == 'asl::Url::decode' for w in walk_expr(rhs))
        is_strip = any(w.get('k') == 'call' and w.get('pq') == 'asl::String::replace' and w.get('obj') is not None and strip_lv(w['obj']).get('f') == '_path' and lit(w['a'][0], '..') and
                       any(x.get('k') == 'str' and x.get('b') == [] for x in walk_expr(w['a'][1])) for w in walk_expr(rhs))
        # `_path = Url::decode(x).replace("..", "")`: the strip is applied to the decoded text in the same expression
        r0 = strip(rhs)
        while r0.get('k') in ('cast', 'temp') or (r0.get('k') == 'construct' and len(r0.get('a', [])) == 1):
            r0 = strip(r0['e'] if r0.get('k') != 'construct' else r0['a'][0])
        if r0.get('k') == 'call' and r0.get('pq') == 'asl::String::replace' and lit(r0['a'][0], '..') and any(x.get('k') == 'str' and x.get('b') == [] for x in walk_expr(r0['a'][1])) and \
                any(w.get('k') == 'call' and w.get('pq') == 'asl::Url::decode' for w in walk_expr(r0.get('obj') or {})):
            return 'R'
        if has_dec:
            return 'D'
        if is_strip:
            return 'R'
        return 'X'

    def step(nd, st):
        if nd.kind != 'ev' or nd.e is None:
            return st
        e = nd.e
        if is_path_store(e):
            k = classify(e)
            return {'D': 'decoded', 'R': 'clean', 'X': 'dirty'}[k]
        if e.get('k') == 'call' and (e.get('pq') or '') == 'asl::String::split' and e.get('obj') is not None and strip_lv(e['obj']).get('f') == '_path':
            if st != 'clean':
                bad_split.append((e.get('l', 0), st))
        if e.get('k') == 'call' and e.get('pq') == 'asl::Url::decode' and st == 'clean' and any(w.get('k') == 'mem' and w.get('f') in ('_path', '_parts') for w in walk_expr(e)):
            return 'dirty'
        return st

    def edge(nd, lab, st):
        if nd.kind == 'br' and lab is False and st == 'decoded':
            c = strip(nd.e)
            if c.get('k') == 'call' and c.get('pq') == 'asl::String::contains' and strip_lv(c['obj']).get('f') == '_path' and lit(c['a'][0], '..'):
                return 'clean'
        return st
    reached, parent = cfgm.dataflow(cfg, 'unset', step, edge)
    ctx.evaluations += sum(len(v) for v in reached.values())
    exits = reached.get(cfg.exit.id, set())
    anyd = any('decoded' in v for v in reached.values()) or any(w.get('k') == 'call' and w.get('pq') == 'asl::Url::decode' for w in fn_exprs(f))
    if not anyd:
        raise AnalysisBroken('HttpRequest::read: no store of a percent-decoded value to _path')
    bad = [s_ for s_ in exits if s_ in ('decoded', 'dirty')]
    w = cfgm.witness(cfg, parent, cfg.exit.id, bad[0]) if bad else None
    ctx.check(not bad, 'C09.dotdot', f['pq'], 'read:decode then strip ".." on every path', fwhere(f), 'the last write of the path on every path is the ".." strip applied to the decoded path',
              'a path through HttpRequest::read leaves the request path %s: percent-encoded dots (%%2e%%2e) survive and the file server can be steered outside its root'
              % ('decoded but not stripped of ".."' if bad and bad[0] == 'decoded' else 'decoded or rewritten after the ".." strip'), w)
    ctx.check(not bad_split, 'C09.dotdot', f['pq'], 'read:path parts split from the stripped path', fwhere(f, bad_split[0][0] if bad_split else None), 'split after the strip',
              'the path parts are split from the path while it is %s' % (bad_split[0][1] if bad_split else ''))
    # writers of _path
    writers = set()
    for g in prog.functions:
        if g.get('clsp') != 'asl::HttpRequest' or not g.get('body'):
            continue
        for e in fn_exprs(g):
            if is_path_store(e) or (e.get('k') == 'call' and e.get('obj') is not None and strip_lv(e['obj']).get('f') == '_path' and 'const' not in (e.get('sig') or '').split(')')[-1] and e.get('clsp') == 'asl::String'):
                writers.add(g['pq'])
    ctx.info['path_writers'] = sorted(writers)
    ctx.check(writers <= {'asl::HttpRequest::read'}, 'C09.dotdot', 'asl::HttpRequest', '_path written only by read()', fwhere(f), 'writers: %s' % sorted(writers),
              'the request path is also written by %s, bypassing the ".." strip' % sorted(writers - {'asl::HttpRequest::read'}))
    # serveFile
    sf = fn1(prog, 'asl::HttpServer::serveFile')
    ctx.analysed(sf)
    pathvars = set()
    local = None
    for s_ in ir.walk_stmts(sf['body']):
        if s_.get('k') == 'decl':
            for v in s_['vars']:
                ini = v.get('init')
                if ini is None:
                    continue
                if any(w.get('k') == 'call' and w.get('pq') == 'asl::HttpRequest::path' for w in walk_expr(ini)):
                    pathvars.add(v['id'])
                if any(w.get('k') == 'mem' and w.get('f') == '_webroot' for w in walk_expr(ini)):
                    local = v
    ok = local is not None
    if ok:
        others = [w for w in walk_expr(local['init']) if (w.get('k') == 'var' and w.get('id') not in pathvars) or (w.get('k') == 'call' and (w.get('pq') or '').startswith('asl::HttpRequest::') and w['pq'] != 'asl::HttpRequest::path')]
        ok = not others and any(w.get('k') == 'var' and w.get('id') in pathvars for w in walk_expr(local['init']))
    ctx.check(ok, 'C09.dotdot', sf['pq'], 'serveFile:local file name = root + request.path()', fwhere(sf), 'only the sanitised path is appended to the root',
              'the file server builds the local file name from something other than the web root and request.path()')
    # ... and nothing in serveFile decodes the path again: a second percent-decoding turns %252e%252e into ".." after the strip
    def decodes(name, seen=None):
        seen = seen if seen is not None else set()
        if name in seen:
            return False
        seen.add(name)
        if name == 'asl::Url::decode':
            return True
        for h in prog.fn(name):
            if h.get('body') and (h.get('file') or '').startswith(ir.REPO):
                if any(c.get('k') == 'call' and decodes(c.get('pq') or c.get('fn') or '', seen) for c in fn_exprs(h)):
                    return True
        return False
    redec = []
    for c in fn_exprs(sf):
        if c.get('k') == 'call' and decodes(c.get('pq') or c.get('fn') or ''):
            ops = list(c.get('a') or []) + ([c['obj']] if c.get('obj') is not None else [])
            if any((w.get('k') == 'var' and w.get('id') in pathvars) or (w.get('k') == 'call' and w.get('pq') == 'asl::HttpRequest::path') for o in ops for w in walk_expr(o)):
                redec.append(c)
    ctx.check(not redec, 'C09.dotdot', sf['pq'], 'serveFile:the sanitised path is not decoded again', fwhere(sf, redec[0]['l'] if redec else None), 'no call in serveFile() that reaches Url::decode takes the path',
              'serveFile() passes the path to `%s`, which percent-decodes it a second time after the ".." strip: /%%252e%%252e/ becomes /../' % (pe(redec[0])[:60] if redec else ''))
    # replace(): restart after the replaced occurrence
    rp = fn1(prog, 'asl::String::replace', '(const asl::String &,const asl::String &)const')
    ctx.analysed(rp)
    role = 'replace:search restarts after each replaced occurrence'
    if interp_replace(ctx, prog, rp, role):
        return
    in_loop = set(id(e) for lp in ir.walk_stmts(rp['body']) if lp.get('k') in ('for', 'while', 'do') for e in ir.stmt_exprs(lp['body']))
    def search_start(e):
        """e searches the pattern from a start position: indexOf(a, i) itself, or a helper that forwards one of its
        parameters as the start of an indexOf and returns match positions without arithmetic -> the start argument"""
        if e.get('k') != 'call':
            return None
        if e.get('pq') == 'asl::String::indexOf' and len(e.get('a', [])) == 2:
            return e['a'][1]
        if e.get('pq') == 'asl::String::indexOf' or not e.get('fn'):
            return None
        for h in prog.fn(e['fn'], e.get('sig')):
            if not h.get('body') or h is rp:
                continue
            rets = [s_['e'] for s_ in ir.walk_stmts(h['body']) if s_.get('k') == 'return' and s_.get('e') is not None]
            if any(w.get('k') == 'bin' and w.get('op') in ('+', '-', '*') for r_ in rets for w in walk_expr(q.expand(h, r_))):
                return None
            for x in fn_exprs(h):
                if x.get('k') == 'call' and x.get('pq') == 'asl::String::indexOf' and len(x.get('a', [])) == 2 and strip(x['a'][1]).get('vk') == 'param':
                    ids = [p_['id'] for p_ in h['params']]
                    if strip(x['a'][1])['id'] in ids and ids.index(strip(x['a'][1])['id']) < len(e.get('a', [])):
                        return e['a'][ids.index(strip(x['a'][1])['id'])]
        return None
    searches = [e for e in fn_exprs(rp) if id(e) in in_loop and search_start(e) is not None and strip(search_start(e)).get('k') == 'var']
    if len(searches) != 1:
        ctx.undecided('C09.dotdot', rp['pq'], role, fwhere(rp), 'no single search of the pattern from a variable position inside the replace loop')
        return
    iv = strip(search_start(searches[0]))['id']
    pat = rp['params'][0]['id']
    is_search = lambda x: strip(x).get('k') == 'call' and (strip(x).get('pq') == 'asl::String::indexOf' or search_start(strip(x)) is not None)
    # variables that receive match positions (results of indexOf on the pattern)
    jvars = set()
    for s_ in ir.walk_stmts(rp['body']):
        if s_.get('k') == 'decl':
            for v in s_['vars']:
                if v.get('init') is not None and is_search(v['init']):
                    jvars.add(v['id'])
    for e in fn_exprs(rp):
        if e.get('k') == 'bin' and e.get('op') == '=' and strip_lv(e['x']).get('k') == 'var' and is_search(e['y']):
            jvars.add(strip_lv(e['x'])['id'])

    # "match position or end of text": a local selected from a match variable without arithmetic is a match position too
    changed_ = True
    while changed_:
        changed_ = False
        for s_ in ir.walk_stmts(rp['body']):
            if s_.get('k') == 'decl':
                for v in s_['vars']:
                    ini = v.get('init')
                    if ini is not None and v['id'] not in jvars and T(rp, v['t']).get('int') and any(w.get('k') == 'var' and w.get('id') in jvars for w in walk_expr(ini)) and \
                            not any(w.get('k') == 'bin' and w.get('op') in ('+', '-', '*') for w in walk_expr(ini)):
                        jvars.add(v['id'])
                        changed_ = True

    def is_patlen(x):
        x = strip(q.expand(rp, x))
        return x.get('k') == 'call' and (x.get('pq') or '').endswith('::length') and strip(x.get('obj') or {}).get('id') == pat

    def restart_form(x):
        """x == j + m  (j a match position, m the pattern length)"""
        x = strip(x)
        if x.get('k') != 'bin' or x.get('op') != '+':
            return False
        l, r = strip(x['x']), strip(x['y'])
        return (l.get('k') == 'var' and l.get('id') in jvars and is_patlen(x['y'])) or (r.get('k') == 'var' and r.get('id') in jvars and is_patlen(x['x']))
    writes = []
    for s_ in ir.walk_stmts(rp['body']):
        if s_.get('k') == 'decl':
            for v in s_['vars']:
                if v['id'] == iv and v.get('init') is not None and const_val(v['init']) != 0:
                    writes.append((v['init'], s_.get('l')))     # (an initial position 0 = searching from the start of the text)
    for e in q._writes_to(rp, iv):
        if e.get('k') == 'bin' and e.get('op') == '=':
            writes.append((e['y'], e.get('l')))
        else:
            writes.append((None, e.get('l')))
    ctx.evaluations += len(writes)
    if not writes:
        ctx.undecided('C09.dotdot', rp['pq'], role, fwhere(rp), 'search position is never written')
        return
    badw = [(w, l) for w, l in writes if w is None or not restart_form(w)]
    ctx.check(not badw, 'C09.dotdot', rp['pq'], role, fwhere(rp, badw[0][1] if badw else None), 'every search position is (previous match) + (pattern length)',
              'String::replace continues its search from `%s`, not from right after the replaced occurrence (match + pattern length): the single pass that removes ".." is no longer guaranteed to leave none' % (pe(badw[0][0]) if badw and badw[0][0] is not None else 'a stepped index'))


def interp_replace(ctx, prog, rp, role):
    """String::replace(a, b) decided by interpretation (scansim: the text behind str(), the two String arguments and the
    result String modelled as bounds-checked buffers; indexOf, substring and the members they call interpreted from their
    bodies) on every text over {., a} up to 7 characters with the patterns "..", ".", "a." replaced by "" and "x": the result
    must be the left-to-right non-overlapping replacement, in particular no ".." may survive the removal of ".."."""
    import scansim, itertools
    bad = None
    runs = 0
    pa, pb = rp['params'][0]['id'], rp['params'][1]['id']
    try:
        for L in range(0, 8):
            for t in itertools.product('.a', repeat=L):
                text = ''.join(t)
                for pat, rep in (('..', ''), ('..', 'x'), ('.', ''), ('a.', 'x')):
                    bufs = {'T': [ord(c) for c in text] + [0], ('O', pa): [ord(c) for c in pat] + [0], ('O', pb): [ord(c) for c in rep] + [0]}
                    r = scansim.Run(prog, rp, bufs, call_ptrs={'str': ('P', 'T', 0)}, methods={'*': 'interp'}, mems={'_len': L}, objects=True)
                    for pid, val in ((pa, pat), (pb, rep)):
                        r.objlen[pid] = len(val)
                        r.strobjs.add(pid)
                    runs += 1
                    try:
                        ret = r.run()
                    except scansim.OOB as o:
                        bad = '"%s".replace("%s", "%s"): %s' % (text, pat, rep, o)
                        break
                    if ret == ('THIS',):
                        got = text
                    elif isinstance(ret, tuple) and ret[0] == 'P' and isinstance(ret[1], tuple) and ret[1][0] == 'O':
                        out = bufs[ret[1]]
                        got = ''.join(chr(x & 255) for x in out[:out.index(0)]) if 0 in out else None
                    else:
                        raise scansim.Unsupported('result of replace not understood')
                    want = text.replace(pat, rep)
                    if got != want:
                        bad = '"%s".replace("%s", "%s") is "%s", the model gives "%s"%s' % (text, pat, rep, got, want, ': a ".." survives the single pass that removes it from request paths' if pat == '..' and got is not None and '..' in got and rep == '' else '')
                        break
                if bad:
                    break
            if bad:
                break
    except (scansim.Unsupported, TypeError, KeyError, IndexError, ValueError) as ex:
        ctx.info['replace_interpretation'] = 'outside the interpreted fragment: %s' % ex
        return False
    ctx.evaluations += runs
    ctx.check(bad is None, 'C09.dotdot', rp['pq'], role, fwhere(rp), 'interpreted on %d (text, pattern, replacement) triples over {., a}: result = left-to-right non-overlapping replacement' % runs, 'String::replace: %s' % bad)
    return True


def check_splitidx(ctx, prog):
    n = 0
    for f in prog.functions:
        # peer-controlled strings only: the HTTP / WebSocket / socket sources (other split() users parse trusted column specs
        # whose validity depends on value correlations this rule does not model)
        if not f.get('body') or os.path.basename(f['file']) not in ('Http.cpp', 'HttpServer.cpp', 'WebSocket.cpp', 'Socket.cpp', 'SocketServer.cpp'):
            continue
        # Array<String> locals fed by split
        arrs = {}
        for s_ in ir.walk_stmts(f['body']):
            if s_.get('k') == 'decl':
                for v in s_['vars']:
                    t = T(f, v['t'])
                    if t.get('rec') == 'asl::Array<asl::String>':
                        arrs[v['id']] = v
        if not arrs:
            continue
        fed = set()
        minlen = {}      # split with a separator always yields at least one part; whitespace split() may yield none

        def note(vid, call):
            fed.add(vid)
            has_sep = any(T(f, strip_lv(a).get('t')).get('rec') == 'asl::String' or T(f, T(f, strip_lv(a).get('t')).get('to')).get('rec') == 'asl::String' or T(f, strip_lv(a).get('t')).get('bits') == 8
                          for a in call.get('a', []))
            minlen[vid] = min(minlen.get(vid, 1), 1 if has_sep else 0)
        for e in fn_exprs(f):
            if e.get('k') == 'call' and (e.get('pq') or '') == 'asl::String::split':
                for w in walk_expr(e):
                    if w.get('k') == 'var' and w.get('id') in arrs:
                        note(w['id'], e)
        for s_ in ir.walk_stmts(f['body']):
            if s_.get('k') == 'decl':
                for v in s_['vars']:
                    if v['id'] in arrs and v.get('init') is not None:
                        for w in walk_expr(v['init']):
                            if w.get('k') == 'call' and w.get('pq') == 'asl::String::split':
                                note(v['id'], w)
        for e in fn_exprs(f):
            if e.get('k') == 'call' and e.get('pq') == 'asl::Array::operator=' and e.get('obj') is not None and strip(e['obj']).get('id') in arrs:
                for w in walk_expr(e):
                    if w.get('k') == 'call' and w.get('pq') == 'asl::String::split':
                        note(strip(e['obj'])['id'], w)
        if not fed:
            continue
        g = q.Guarded(f)
        for e in fn_exprs(f):
            if e.get('k') == 'call' and e.get('pq') == 'asl::Array::operator[]' and e.get('obj') is not None and strip(e['obj']).get('id') in fed and const_val(e['a'][0]) is not None:
                k = const_val(e['a'][0])
                vid = strip(e['obj'])['id']
                n += 1
                ctx.analysed(f)

                def is_len(x):
                    return x.get('k') == 'call' and x.get('pq') == 'asl::Array::length' and x.get('obj') is not None and strip(x['obj']).get('id') == vid
                implied = k < minlen.get(vid, 0)
                for c, pol, kind in g.of(e):
                    if kind not in ('if', 'after', 'and', 'cond', 'loop') or not any(is_len(w) for w in walk_expr(c)):
                        continue
                    try:
                        ok_all = True
                        for L in range(minlen.get(vid, 0), k + 1):
                            v = bool(bytesets._Bound(prog, f, is_len, L).ev(c))
                            if v == bool(pol):
                                ok_all = False
                        ctx.evaluations += k + 1
                        if ok_all:
                            implied = True
                    except bytesets.Undecidable:
                        pass
                ctx.check(implied, 'R-SPLITIDX', f['pq'], '%s:%s[%d] of a split() result' % (f['n'], arrs[vid]['n'], k), fwhere(f, e['l']), 'dominated by a length test implying length > %d' % k,
                          '`%s[%d]` reads an element of a split() result without a dominating test that the result has more than %d parts: a peer-chosen string with fewer separators reads out of bounds' % (arrs[vid]['n'], k, k))
    ctx.floor('R-SPLITIDX', n, 4)


def check_parse_query(ctx, prog):
    """C09.query: parseQuery splits the raw query on '&' and '=' first and percent-decodes each key and value afterwards; decoding
    the whole string first turns an encoded %26 / %3D inside a value into a separator."""
    f = fn1(prog, 'asl::Url::parseQuery')
    ctx.analysed(f)
    splits = [e for e in fn_exprs(f) if e.get('k') == 'call' and (e.get('pq') or '').endswith('String::split')]
    decs = [e for e in fn_exprs(f) if e.get('k') == 'call' and e.get('pq') == 'asl::Url::decode']
    role = 'parseQuery:split on the raw text, decode the pieces'
    if not splits or not decs:
        ctx.undecided('C09.query', f['pq'], role, fwhere(f), 'split / decode calls not found')
        return
    bad = [e for e in splits if any(w.get('k') == 'call' and w.get('pq') == 'asl::Url::decode' for w in walk_expr(q.expand(f, e.get('obj') or {})))]
    ctx.evaluations += len(splits)
    ctx.check(not bad, 'C09.query', f['pq'], role, fwhere(f, bad[0]['l'] if bad else None), 'the receiver of split() is not percent-decoded',
              'parseQuery percent-decodes the query before splitting it (`%s`): an encoded & or = inside a key or value becomes a separator, so parameters are truncated and parameters that were never sent appear' % (pe(bad[0]) if bad else ''))


def check_query(ctx, prog):
    """C09.query / R-NEGLEN: every two-argument substring(a, b) that cuts the request target (in HttpRequest::read and the file-local
    helpers it calls) has a <= b for every combination of the positions involved that its guards admit.  Positions found by
    indexOf are opaque integers >= -1; reassigned end markers are read through their if-converted reaching definition
    (`end = n; if (h > 0) end = h;` is `(h > 0) ? h : n`)."""
    import bytesets
    f = fn1(prog, 'asl::HttpRequest::read')
    scope = [f]
    for e in fn_exprs(f):
        if e.get('k') == 'call' and e.get('fn') and not e.get('clsp'):
            for h in prog.fn(e['fn'], e.get('sig')):
                if h.get('body') and h not in scope and h.get('file') == f.get('file'):
                    scope.append(h)
    n = 0
    for h in scope:
        g = q.Guarded(h)
        for e in fn_exprs(h):
            if not (e.get('k') == 'call' and e.get('pq') == 'asl::String::substring' and len(e.get('a', [])) == 2):
                continue
            # only cuts whose bounds come from searches (indexOf) are at stake
            both = [e['a'][0], e['a'][1]]
            ex = [q.expand(h, x) for x in both]
            def from_search(x):
                return any(w.get('k') == 'call' and (w.get('pq') or '').endswith('::indexOf') for w in walk_expr(x))
            assigned = bounded.assigned_vars(h)
            defs = {}
            for x in both:
                for w in walk_expr(x):
                    if w.get('k') == 'var' and w.get('id') in assigned and w['id'] not in defs:
                        d_ = bounded.ifconv(h, g, w['id'], e)
                        if d_ is not None:
                            defs[w['id']] = d_
            searched = any(from_search(x) for x in ex) or any(from_search(q.expand(h, d_)) for d_ in defs.values())
            if not searched:
                continue
            n += 1
            role = 'read:substring(%s, %s) never has a negative length' % (pe(both[0]), pe(both[1]))
            try:
                by_id, by_text = {}, {}

                def collect(x, into_id, into_text, depth=0):
                    bi, bt = bounded.atoms_of(prog, h, x, allow_assigned=tuple(assigned))
                    for vid, nm in bi.items():
                        if vid in defs:
                            if depth < 4:
                                collect(defs[vid], into_id, into_text, depth + 1)
                        elif vid in assigned:
                            raise bytesets.Undecidable('`%s` is reassigned in a way that is not if-convertible' % nm)
                        else:
                            into_id[vid] = nm
                    into_text.update(bt)
                for x in both:
                    collect(x, by_id, by_text)
                # guards that speak about these positions (others can only restrict further and are left out)
                guards = []
                for gd in g.of(e):
                    c = gd[0]
                    if not isinstance(c, dict) or gd[2] == 'case':
                        continue
                    gi, gt = {}, {}
                    try:
                        collect(c, gi, gt)
                    except bytesets.Undecidable:
                        continue
                    if (set(gi) & set(by_id)) or (set(gt) & set(by_text)):
                        guards.append(gd)
                        if len(set(gi) | set(by_id)) + len(set(gt) | set(by_text)) <= 4:
                            by_id.update(gi)
                            by_text.update(gt)
            except bytesets.Undecidable as u:
                ctx.undecided('C09.query', h['pq'], role, fwhere(h, e['l']), str(u))
                continue
            if len(by_id) + len(by_text) > 4:
                ctx.undecided('C09.query', h['pq'], role, fwhere(h, e['l']), 'depends on %d independent positions' % (len(by_id) + len(by_text)))
                continue
            import itertools
            ids, texts = sorted(by_id), sorted(by_text)
            bad = None
            try:
                def obj_of(t):
                    return t.split('.indexOf(')[0] if '.indexOf(' in t else (t[:-len('.length()')] if t.endswith('.length()') else None)
                for vals in itertools.product(range(-1, 7), repeat=len(ids) + len(texts)):
                    tv = dict(zip(texts, vals[len(ids):]))
                    # positions returned by indexOf lie in [-1, length); lengths are non-negative
                    if any(t.endswith('.length()') and v < 0 for t, v in tv.items()):
                        continue
                    if any('.indexOf(' in t and (t2.endswith('.length()') and obj_of(t) == obj_of(t2) and v >= v2) for t, v in tv.items() for t2, v2 in tv.items()):
                        continue
                    ev = bounded.Bound(prog, h, dict(zip(ids, vals[:len(ids)])), tv, defs=defs)
                    # indexOf(x, from) returns -1 or a position >= from
                    skip = False
                    for t, v in tv.items():
                        node = by_text.get(t)
                        if isinstance(node, dict) and (node.get('pq') or '').endswith('::indexOf') and len(node.get('a', [])) == 2 and v != -1:
                            try:
                                if v < ev.ev(node['a'][1]):
                                    skip = True
                            except bytesets.Undecidable:
                                pass
                    if skip:
                        continue
                    ctx.evaluations += 1
                    if not bounded.admitted(ev, guards, g):
                        continue
                    a_, b_ = ev.ev(both[0]), ev.ev(both[1])
                    if b_ < a_ and bad is None:
                        w = dict((by_id[i], v) for i, v in zip(ids, vals[:len(ids)]))
                        w.update(dict(zip(texts, vals[len(ids):])))
                        bad = (a_, b_, w)
            except bytesets.Undecidable as u:
                ctx.undecided('C09.query', h['pq'], role, fwhere(h, e['l']), 'bounds not evaluable: %s' % u)
                continue
            ctx.check(bad is None, 'C09.query', h['pq'], role, fwhere(h, e['l']), 'start <= end for every admitted combination of positions',
                      "the request target is cut as substring(%s, %s) with start %s > end %s for %s: for a '#' before the '?' (or similar) the length is negative"
                      % (pe(both[0]), pe(both[1]), bad[0] if bad else '', bad[1] if bad else '', ', '.join('%s = %s' % kv for kv in sorted((bad[2] if bad else {}).items()))))
    ctx.floor('C09.query target cuts', n, 1)


def conj(c):
    c = strip(c)
    if c.get('k') == 'bin' and c.get('op') == '&&':
        return conj(c['x']) + conj(c['y'])
    return [c]


def disj(c):
    c = strip(c)
    if c.get('k') == 'bin' and c.get('op') == '||':
        return disj(c['x']) + disj(c['y'])
    return [c]


def leaves_loop(s_):
    """the statement ends with return or break on every path (continue does not leave the loop)"""
    if s_ is None:
        return False
    k = s_.get('k')
    if k in ('return', 'break'):
        return True
    if k == 'block':
        return any(leaves_loop(x) for x in s_['s']) and not any(x.get('k') == 'continue' for x in s_['s'])
    if k == 'if':
        return bool(s_.get('else')) and leaves_loop(s_['then']) and leaves_loop(s_['else'])
    return False


def interp_url_decode(ctx, prog, f, RULE):
    """Url::decode decided by interpretation (scansim; the argument and the result String modelled as bounds-checked buffers)
    on every string of up to 5 characters over {%, 4, 1, a, g, 0}: no read beyond the terminator, and for well-formed texts
    (every % followed by two hex digits) the result is the percent-decoded text, a decoded NUL never being stored."""
    import scansim, itertools
    pid = f['params'][0]['id']
    bad = None
    runs = 0
    try:
        for L in range(0, 6):
            for t in itertools.product('%41ag0', repeat=L):
                text = ''.join(t)
                bufs = {('O', pid): [ord(c) for c in text] + [0]}
                r = scansim.Run(prog, f, bufs, objects=True)
                r.objlen[pid] = L
                r.strobjs.add(pid)
                runs += 1
                try:
                    ret = r.run()
                except scansim.OOB as o:
                    bad = 'Url::decode("%s"): %s - a truncated escape at the end of the text reads past the terminator' % (text, o)
                    break
                # well-formed: compare with the reference
                ok_form, i, ref = True, 0, []
                while i < L:
                    if text[i] == '%':
                        if i + 2 < L + 0 + 1 and i + 2 <= L - 0 and all(c in '0123456789abcdefABCDEF' for c in text[i + 1:i + 3]) and len(text[i + 1:i + 3]) == 2:
                            v = int(text[i + 1:i + 3], 16)
                            if v != 0:
                                ref.append(v)
                            i += 3
                        else:
                            ok_form = False
                            break
                    else:
                        ref.append(ord(text[i]))
                        i += 1
                if ok_form:
                    if not (isinstance(ret, tuple) and ret[0] == 'P' and isinstance(ret[1], tuple) and ret[1][0] == 'O' and ret[1][1] != pid):
                        raise scansim.Unsupported('result is not a local string')
                    out = bufs[ret[1]]
                    got = [x & 255 for x in out[:out.index(0)]] if 0 in out else None
                    if got != ref:
                        bad = 'Url::decode("%s") is %r, the percent-decoded text is %r' % (text, bytes(got or []), bytes(ref))
                        break
            if bad:
                break
    except (scansim.Unsupported, TypeError, KeyError, IndexError, ValueError) as ex:
        ctx.info['url_decode_interpretation'] = 'outside the interpreted fragment: %s' % ex
        return False
    ctx.evaluations += runs
    ctx.check(bad is None, RULE, f['pq'], 'decode:escapes decoded inside the text', fwhere(f), 'interpreted on %d strings up to 5 characters over {%%, 4, 1, a, g, 0}: no read past the terminator, well-formed escapes decoded, a decoded NUL never stored' % runs, bad)
    return True


def url_decode_lookahead(ctx, prog, RULE):
    """Url::decode: every q0[i + j] look-ahead stays within [0, length] under its guards (shared by C09 and C15)"""
    f = fn1(prog, 'asl::Url::decode')
    ctx.analysed(f)
    if interp_url_decode(ctx, prog, f, RULE):
        ctx.info['url_decode'] = 'decided by interpretation of the whole function'
        return f
    g = q.Guarded(f)
    src = f['params'][0]['id']
    n = 0
    for e in fn_exprs(f):
        if e.get('k') == 'call' and e.get('op') == '[]' and e.get('obj') is not None and strip(e['obj']).get('id') == src:
            ix = strip(e['a'][0])
            j = 0
            if ix.get('k') == 'bin' and ix.get('op') == '+' and const_val(ix['y']) is not None:
                j = const_val(ix['y'])
                ix = strip(ix['x'])
            if j == 0:
                continue
            n += 1
            ctx.evaluations += 1
            role = 'decode:look-ahead q0[i + %d]' % j
            # decided by evaluation: bind the index and the length to every pair of a small grid, drop the pairs a dominating
            # guard excludes, require 0 <= index <= length (the terminator may be read)
            try:
                by_id, by_text = bounded.atoms_of(prog, f, e['a'][0], allow_assigned=(ix.get('id'),))
            except bounded.Undecidable as u:
                ctx.undecided(RULE, f['pq'], role, fwhere(f, e['l']), str(u))
                continue
            lens = set(pe(w) for w in fn_exprs(f) if w.get('k') == 'call' and (w.get('pq') or '').endswith('::length') and strip(w.get('obj') or {}).get('id') == src)
            if len(lens) != 1:
                ctx.violation(RULE, f['pq'], role, fwhere(f, e['l']), 'Url::decode reads q0[i + %d] but never consults the length of its input: a trailing %% reads past the terminator' % j)
                continue
            lt = list(lens)[0]
            by_text[lt] = None
            wr = bounded.writes_between(g, f, set(by_id), g.of(e), e)
            if wr is not None:
                ctx.undecided(RULE, f['pq'], role, fwhere(f, e['l']), 'the index is modified (line %s) between its guard and this read' % wr.get('l'))
                continue
            index = e['a'][0]
            st, info = bounded.decide(prog, f, g.of(e), lambda ev: 0 <= ev.ev(index) <= ev.by_text[lt], by_id, by_text, range(0, 9), G=g)
            if st == 'undecided':
                ctx.undecided(RULE, f['pq'], role, fwhere(f, e['l']), info)
            elif st == 'holds' and info:
                ctx.ok(RULE, f['pq'], role, fwhere(f, e['l']), 'for every (index, length) pair the guards admit (%d of the grid), the index stays within [0, length]' % info)
            elif st == 'holds':
                ctx.undecided(RULE, f['pq'], role, fwhere(f, e['l']), 'no (index, length) pair reaches the read')
            else:
                ctx.violation(RULE, f['pq'], role, fwhere(f, e['l']), 'Url::decode reads q0[i + %d] although its guards admit %s: a trailing %% reads past the terminator' % (
                    j, ', '.join('%s = %s' % kv for kv in sorted(info.items()))))
    ctx.floor(RULE + ' decode look-ahead', n, 2)
    return f


def interp_url(ctx, prog):
    """Url::Url(const String&) decided by interpretation (scansim with a model of the String it reads: length, operator[],
    indexOf, substring bounds-checked) on every string of up to 5 characters over the characters the splitter looks for
    (`:` `/` `[` `]` `@` and a letter / digit): every substring it cuts has start <= end within the text, every search and
    every character read stays inside the text.  -> True when decided"""
    import scansim, itertools
    fs = [g_ for g_ in prog.fn('asl::Url::Url', '(const asl::String &)') if g_.get('body')]
    if not fs:
        return False
    u = fs[0]
    pid = u['params'][0]['id']
    bad = None
    runs = 0
    alpha = ':/[]a1@'
    try:
        for L in range(0, 6):
            for t in itertools.product(alpha, repeat=L):
                text = ''.join(t)
                if L == 5 and text.count('a') + text.count('1') > 2:
                    continue            # the plain characters are interchangeable: keep the search small
                bufs = {('O', pid): [ord(c) for c in text] + [0]}
                r = scansim.Run(prog, u, bufs, objects=True, methods={'*': 'interp'}, mems={'port': 0})
                r.objlen[pid] = L
                r.strobjs.add(pid)
                r.ignore_string_members = True
                runs += 1
                try:
                    r.run()
                except scansim.OOB as o:
                    bad = 'Url("%s"): %s' % (text, o)
                    break
            if bad:
                break
    except (scansim.Unsupported, TypeError, KeyError, IndexError) as ex:
        ctx.info['url_interpretation'] = 'outside the interpreted fragment: %s' % ex
        return False
    ctx.evaluations += runs
    ctx.check(bad is None, 'C09.lookahead', u['pq'], 'Url:every cut and every character read stays inside the text', fwhere(u),
              'interpreted on %d strings of up to 5 characters over `%s`: all substrings have start <= end within the text, searches and reads stay inside it' % (runs, alpha),
              '%s: a substring is cut with its start behind its end or outside the text (negative length: memcpy with a huge size), or a character / search starts outside the text' % bad)
    return True


def check_lookahead(ctx, prog):
    f = url_decode_lookahead(ctx, prog, 'C09.lookahead')
    # decoded characters are appended only when non-zero (a NUL would hide the rest from the C-string based '..' check)
    g = q.Guarded(f)
    apps = [e for e in fn_exprs(f) if e.get('k') == 'call' and e.get('pq') == 'asl::String::operator<<' and e.get('a') and
            any(w.get('k') == 'call' and w.get('fn') == 'strtoul' for w in walk_expr(e['a'][0])) or
            (e.get('k') == 'call' and e.get('pq') == 'asl::String::operator<<' and e.get('a') and strip(e['a'][0]).get('k') == 'var' and
             any(v.get('id') == strip(e['a'][0]).get('id') and v.get('init') is not None and any(w.get('k') == 'call' and w.get('fn') == 'strtoul' for w in walk_expr(v['init']))
                 for s_ in ir.walk_stmts(f['body']) if s_.get('k') == 'decl' for v in s_['vars']))]
    okn = bool(apps)
    for e in apps:
        a0 = strip(e['a'][0])
        guarded = a0.get('k') == 'var' and any(kind == 'if' and ((pol is True and strip(c).get('op') == '!=' and strip(strip(c)['x']).get('id') == a0.get('id') and const_val(strip(c)['y']) == 0) or
                                                               (pol is True and strip(c).get('k') == 'var' and strip(c).get('id') == a0.get('id'))) for c, pol, kind in g.of(e))
        okn = okn and guarded
    ctx.check(okn, 'C09.lookahead', f['pq'], 'decode:a decoded NUL is never appended', fwhere(f), 'append guarded by ch != 0',
              "Url::decode appends the decoded byte without excluding NUL: '%00' embeds a terminator, and the C-string based \"..\" check of the request path no longer sees what follows it")
    u = fn1(prog, 'asl::Url::Url', '(const asl::String &)')
    ctx.analysed(u)
    if interp_url(ctx, prog):
        return          # the guard rules below are the fallback for a body the interpreter cannot follow
    g = q.Guarded(u)
    src = u['params'][0]['id']
    for e in fn_exprs(u):
        if e.get('k') == 'call' and e.get('op') == '[]' and e.get('obj') is not None and strip(e['obj']).get('id') == src:
            ix = strip(e['a'][0])
            if ix.get('k') == 'bin' and ix.get('op') == '+' and const_val(ix['y']) == 1 and strip(ix['x']).get('k') == 'var':
                v = strip(ix['x'])
                def notfound_disjunct(c):
                    for part in disj(c):
                        part = strip(part)
                        if part.get('k') == 'bin' and part.get('op') == '<' and strip(part['x']).get('id') == v['id'] and const_val(part['y']) == 0:
                            return True
                    return False
                ok = any(kind == 'after' and pol is False and notfound_disjunct(c) for c, pol, kind in g.of(e))
                ctx.check(ok, 'C09.lookahead', u['pq'], 'Url:url[%s + 1] only after %s >= 0' % (v['n'], v['n']), fwhere(u, e['l']), 'guarded by the not-found return',
                          'Url::Url reads url[%s + 1] without first returning when %s is -1 (not found)' % (v['n'], v['n']))
                # the closing bracket must lie before the path start, otherwise the port substring has a negative length
                okb = any(kind == 'after' and pol is False and any(strip(p).get('k') == 'bin' and strip(p).get('op') in ('>=', '>') and strip(strip(p)['x']).get('id') == v['id'] and strip(strip(p)['y']).get('k') == 'var' for p in disj(c))
                          for c, pol, kind in g.of(e))
                helper_unknown = False
                if not okb:
                    # the bound may be established inside a search helper: `v = helper(.., limit)` whose result is -1 or < limit
                    # for every (position found, limit) - decided by evaluating the helper's return expression on a grid
                    import bytesets as _bs
                    cands = [strip(w['y']) for w in fn_exprs(u) if w.get('k') == 'bin' and w.get('op') == '=' and strip_lv(w['x']).get('id') == v['id']]
                    cands += [strip(dv['init']) for s2 in ir.walk_stmts(u['body']) if s2.get('k') == 'decl' for dv in s2['vars'] if dv['id'] == v['id'] and dv.get('init') is not None]
                    for rhs in cands:
                        if rhs.get('k') != 'call' or rhs.get('clsp') or not rhs.get('fn') or not any(const_val(a_) == ord(']') for a_ in rhs.get('a', [])):
                            continue
                        for h in prog.fn(rhs['fn'], rhs.get('sig')):
                            if not h.get('body') or h.get('file') != u.get('file'):
                                continue
                            searches = [x for x in fn_exprs(h) if x.get('k') == 'call' and (x.get('pq') or '').endswith('::indexOf')]
                            holders = [dv for s2 in ir.walk_stmts(h['body']) if s2.get('k') == 'decl' for dv in s2['vars'] if dv.get('init') is not None and searches and strip(dv['init']) is searches[0]]
                            ints = [p_ for p_ in h['params'] if T(h, p_['t']).get('int') and T(h, p_['t']).get('bits') == 32]
                            rets = [s2['e'] for s2 in ir.walk_stmts(h['body']) if s2.get('k') == 'return' and s2.get('e') is not None]
                            if len(searches) != 1 or len(holders) != 1 or not ints or len(rets) != 1:
                                helper_unknown = True
                                continue
                            lim = ints[-1]
                            good = True
                            try:
                                for k_ in range(-1, 8):
                                    for L_ in range(0, 8):
                                        env = dict((p_['id'], 0) for p_ in ints)
                                        env[lim['id']] = L_
                                        env[holders[0]['id']] = k_
                                        r_ = _bs.Evaluator(prog, h, env).ev(rets[0])
                                        ctx.evaluations += 1
                                        if not (r_ < 0 or r_ < L_):
                                            good = False
                            except _bs.Undecidable:
                                good = False
                                helper_unknown = True
                            # the limit handed to the helper must be the path start the port substring ends at
                            if good:
                                okb = True
                                helper_unknown = False
                if not okb and helper_unknown:
                    ctx.undecided('C09.lookahead', u['pq'], 'Url:closing bracket lies before the path start', fwhere(u, e['l']), 'the position of `]` comes from a helper whose result bound is not evaluable')
                    continue
                ctx.check(okb, 'C09.lookahead', u['pq'], 'Url:closing bracket lies before the path start', fwhere(u, e['l']), 'rejected when %s >= path start' % v['n'],
                          'Url::Url accepts a `]` that comes after the first `/`: the port is then cut as a substring whose start lies behind its end (negative length)')


def check_lines(ctx, prog):
    f = fn1(prog, 'asl::Socket_::readLine')
    ctx.analysed(f)
    loops = [s_ for s_ in ir.walk_stmts(f['body']) if s_.get('k') in ('while', 'for', 'do')]
    ok_cap = ok_eof = False
    cap = None
    if loops:
        lp = loops[0]
        for s_ in ir.walk_stmts(lp['body']):
            if s_.get('k') == 'if':
                c = strip(s_['c'])
                if c.get('k') == 'bin' and c.get('op') in ('>', '>=') and const_val(c['y']) is not None and any(w.get('k') == 'call' and (w.get('pq') or '').endswith('::length') for w in walk_expr(c['x'])):
                    if q.always_exits(s_['then']):
                        ok_cap = True
                        cap = const_val(c['y'])
                if any(w.get('k') == 'bin' and w.get('op') == '<=' and const_val(w['y']) == 0 for w in walk_expr(s_['c'])) and q.always_exits(s_['then']):
                    ok_eof = True
    iv = interp_read_line(prog, f)
    if iv is not None:
        ctx.evaluations += 3
        ctx.check(iv[0] == 'ok', 'C09.lines', f['pq'], 'readLine:line length capped inside the loop', fwhere(f), iv[1], iv[1])
    else:
        ctx.check(ok_cap and cap is not None and cap <= 65536, 'C09.lines', f['pq'], 'readLine:line length capped inside the loop', fwhere(f), 'cap %s' % cap,
                  'Socket_::readLine has no length cap with an exit inside its read loop: a peer that never sends a newline grows the line without bound')
    # EOF / error: once read() has returned <= 0, no further read() is reachable (CFG reachability with the result bound)
    rcfg = cfgm.CFG(f)
    reads = [n_ for n_ in rcfg.nodes if n_.kind == 'ev' and n_.e is not None and n_.e.get('k') == 'call' and (n_.e.get('pq') or '').endswith('Socket_::read') and len(n_.e.get('a', [])) == 2]
    if len(reads) != 1:
        ctx.check(ok_eof, 'C09.lines', f['pq'], 'readLine:ends on EOF / error', fwhere(f), 'n <= 0 leaves the loop', 'Socket_::readLine does not leave its loop when read() returns <= 0: it spins after the peer closed')
    else:
        rd = reads[0]
        spins = None
        for rv in (0, -1):
            ev = bounded.Bound(prog, f, {}, {pe(rd.e): rv})
            seen, work = set(), [m_ for m_, _ in rd.succ]
            while work:
                n_ = work.pop()
                if n_ is rd:
                    spins = rv
                    break
                if n_.id in seen:
                    continue
                seen.add(n_.id)
                want = ev.ev3(n_.e) if n_.kind == 'br' and n_.e is not None else None
                for m_, lab in n_.succ:
                    if want is not None and lab in (True, False) and lab != want:
                        continue
                    work.append(m_)
            ctx.evaluations += 1
        ctx.check(spins is None, 'C09.lines', f['pq'], 'readLine:ends on EOF / error', fwhere(f, rd.line), 'after read() returned <= 0 no further read() is reachable',
                  'Socket_::readLine reads again after read() returned %s: it spins after the peer closed' % spins)
    h = fn1(prog, 'asl::HttpMessage::readHeaders')
    ctx.analysed(h)
    g = q.Guarded(h)
    rets = [s_ for s_ in ir.walk_stmts(h['body']) if s_.get('k') == 'if' and strip(s_['c']).get('k') == 'bin' and strip(s_['c']).get('op') == '<' and const_val(strip(s_['c'])['y']) == 0 and leaves_loop(s_['then'])]
    ctx.check(bool(rets), 'C09.lines', h['pq'], "readHeaders:stops on a line without ':'", fwhere(h), 'i < 0 -> close and return', "readHeaders does not stop on a header line without ':': garbage (or an empty line after EOF) keeps the loop running")
    b = fn1(prog, 'asl::HttpMessage::readBody')
    ctx.analysed(b)
    loops = [s_ for s_ in ir.walk_stmts(b['body']) if s_.get('k') == 'while']
    okb = False
    if loops:
        for s_ in loops[0]['body']['s'] if loops[0]['body'].get('k') == 'block' else []:
            if s_.get('k') == 'if' and q.always_exits(s_['then']) and any(w.get('k') == 'var' and w.get('n') in ('maxToRead',) for w in walk_expr(s_['c'])) and any(w.get('k') == 'bin' and w.get('op') in ('<=', '==', '<') for w in walk_expr(s_['c'])):
                okb = True
            if s_.get('k') == 'if' and q.always_exits(s_['then']) and any(w.get('k') == 'call' and (w.get('pq') or '').endswith('::available') for w in walk_expr(s_['c'])) and any(w.get('k') == 'bin' and w.get('op') in ('<=', '==') and const_val(w['y']) == 0 for w in walk_expr(s_['c'])):
                okb = True
    # every blocking read of the body: once it has returned 0 (end of stream) or -1, the same read must not be reachable again
    bcfg = cfgm.CFG(b)
    nreads = 0
    for rd in [n_ for n_ in bcfg.nodes if n_.kind == 'ev' and n_.e is not None and n_.e.get('k') == 'call' and (n_.e.get('pq') or '').split('::')[-1] == 'read' and
               (n_.e.get('clsp') or '').startswith('asl::Socket') and len(n_.e.get('a', [])) == 2]:
        nreads += 1
        # the variable that receives the result (if any)
        holder = None
        for w in fn_exprs(b):
            if w.get('k') == 'bin' and w.get('op') == '=' and strip(w['y']) is rd.e and strip_lv(w['x']).get('k') == 'var':
                holder = strip_lv(w['x'])['id']
        spins = None
        for rv in (0, -1):
            ev = bounded.Bound(prog, b, ({holder: rv} if holder is not None else {}), {pe(rd.e): rv})
            seen, work = set(), [m_ for m_, _ in rd.succ]
            while work:
                n_ = work.pop()
                if n_ is rd:
                    spins = rv
                    break
                if n_.id in seen:
                    continue
                seen.add(n_.id)
                want = ev.ev3(n_.e) if n_.kind == 'br' and n_.e is not None else None
                for m_, lab in n_.succ:
                    if want is not None and lab in (True, False) and lab != want:
                        continue
                    work.append(m_)
            ctx.evaluations += 1
            if spins is not None:
                break
        ctx.check(spins is None, 'C09.lines', b['pq'], 'readBody:`%s` is not repeated after end of stream' % pe(rd.e)[:40], fwhere(b, rd.line), 'after the read returned <= 0 it is not reachable again',
                  'HttpMessage::readBody reaches `%s` again after it returned %s: when the peer closes in the middle of the body (inside a chunk) the loop makes no progress and the server thread spins forever on the dead connection' % (pe(rd.e)[:60], spins))
    ctx.floor('C09.lines body reads', nreads, 1)
    # decided on the CFG when possible: with available() == 0 after a successful wait (the peer closed) and a body that is not
    # chunked, the loop must not come round to its wait again
    av_nodes = [n_ for n_ in bcfg.nodes if n_.kind in ('ev', 'decl') and any(w.get('k') == 'call' and (w.get('pq') or '').endswith('::available') for w in walk_expr((n_.e if n_.kind == 'ev' else (n_.info or {}).get('init')) or {}))]
    chunk_vars = {}
    for s_ in ir.walk_stmts(b['body']):
        if s_.get('k') == 'decl':
            for v in s_['vars']:
                if v.get('init') is not None and any(w.get('k') == 'str' and bytes(w.get('b', [])).decode('latin-1').lower() == 'chunked' for w in walk_expr(v['init'])) and T(b, v['t']).get('bool'):
                    chunk_vars[v['id']] = 0
    if len(av_nodes) >= 2 and chunk_vars:
        first, last = av_nodes[0], av_nodes[-1]
        env = dict(chunk_vars)
        texts = {}
        for n_ in av_nodes:
            ex_ = n_.e if n_.kind == 'ev' else n_.info.get('init')
            for w in walk_expr(ex_):
                if w.get('k') == 'call' and (w.get('pq') or '').endswith('::available'):
                    texts[pe(w)] = 0
            if n_.kind == 'decl':
                env[n_.info['id']] = 0
        for w in fn_exprs(b):
            if w.get('k') == 'bin' and w.get('op') == '=' and strip_lv(w['x']).get('k') == 'var' and any(x.get('k') == 'call' and (x.get('pq') or '').endswith('::available') for x in walk_expr(w['y'])):
                env[strip_lv(w['x'])['id']] = 0
        for s_ in ir.walk_stmts(b['body']):
            if s_.get('k') == 'decl':
                for v in s_['vars']:
                    if v.get('init') is not None and strip(v['init']).get('k') == 'call' and (strip(v['init']).get('pq') or '').endswith('::available'):
                        env[v['id']] = 0
        ev = bounded.Bound(prog, b, env, texts)
        seen, work, again = set(), [m_ for m_, _ in last.succ], False
        while work:
            n_ = work.pop()
            if n_ is first:
                again = True
                break
            if n_.id in seen:
                continue
            seen.add(n_.id)
            want = ev.ev3(n_.e) if n_.kind == 'br' and n_.e is not None else None
            for m_, lab in n_.succ:
                if want is not None and lab in (True, False) and lab != want:
                    continue
                work.append(m_)
        ctx.evaluations += len(seen)
        okb = not again
    ctx.check(okb, 'C09.lines', b['pq'], 'readBody:leaves the loop when the peer closed', fwhere(b), 'readable with nothing available -> break',
              'readBody keeps waiting when the socket is readable but nothing is available (peer closed before Content-Length bytes arrived): the request never completes')


def check_headers(ctx, prog):
    n = 0
    for name in ('setHeader', 'header', 'hasHeader'):
        f = fn1(prog, 'asl::HttpMessage::' + name)
        ctx.analysed(f)
        n += 1
        caps = [e for e in fn_exprs(f) if e.get('k') == 'call' and e.get('pq') == 'asl::capitalized']
        # every access to _headers uses the canonical name
        acc = [e for e in fn_exprs(f) if e.get('k') == 'call' and e.get('obj') is not None and strip_lv(e['obj']).get('f') == '_headers' and e.get('a')]
        def mentions_raw(x):
            x = strip(x)
            if x.get('k') == 'call' and x.get('pq') == 'asl::capitalized':
                return False
            if x.get('k') == 'var' and x.get('vk') == 'param' and x.get('id') == f['params'][0]['id']:
                return True
            return any(mentions_raw(c) for c in ir.expr_children(x))
        raw = [e for e in acc if mentions_raw(e['a'][0])]
        ctx.check(len(caps) == 1 and bool(acc) and not raw, 'C09.headers', f['pq'], name + ':keyed by the canonical name', fwhere(f), 'capitalized(name) used for every access',
                  '%s accesses the header table with the raw name instead of capitalized(name): lookups become case-sensitive' % name)
    ctx.floor('C09.headers', n, 3)
    c = fn1(prog, 'asl::capitalized')
    ctx.analysed(c)
    up = [e for e in fn_exprs(c) if e.get('k') == 'call' and e.get('fn') == 'toupper']
    lo = [e for e in fn_exprs(c) if e.get('k') == 'call' and e.get('fn') == 'tolower']
    dash = [e for e in fn_exprs(c) if e.get('k') == 'int' and e.get('chr') and e.get('v') == ord('-')]
    ctx.check(len(up) == 1 and len(lo) == 1 and bool(dash), 'C09.headers', c['pq'], 'capitalized:upper after start/dash, lower elsewhere', fwhere(c), 'Xxx-Yyy form', 'capitalized() does not map every spelling of a header name to one canonical form')
    h = fn1(prog, 'asl::HttpMessage::readHeaders')
    vals = [e for e in fn_exprs(h) if e.get('k') == 'call' and e.get('pq') == 'asl::String::substring' and len(e.get('a', [])) == 1]
    ok = False
    for e in vals:
        a = strip(e['a'][0])
        if a.get('k') == 'bin' and a.get('op') == '+' and const_val(a['y']) == 1:
            ok = True
    ctx.check(ok, 'C09.headers', h['pq'], 'readHeaders:value is everything after the colon', fwhere(h), 'substring(i + 1), trimmed',
              'the header value is not taken from the character right after the colon: "Name:value" loses its first character or reads past the line end')


def interp_read_line(prog, f):
    """readLine() interpreted (scansim) against three peers: one that sends 'x' for ever (the function must give up after at most
    65536 + 2 bytes, with the error recorded), one that sends "ab\\nc" (the line is "ab", exactly 3 bytes consumed) and one that
    closes after "ab".  -> ('ok' | 'bad', text) | None when the body is outside the interpreted fragment"""
    import scansim
    res = {}
    for name, script in (('endless', lambda i: ord('x')), ('line', lambda i: [97, 98, 10, 99][i] if i < 4 else None), ('eof', lambda i: [97, 98][i] if i < 2 else None)):
        st = {'n': 0}

        def read(run, e, args, st=st, script=script):
            i = st['n']
            st['n'] += 1
            if i > 70000:
                raise scansim.OOB('PEER', i, 70000, e.get('l'))
            c = script(i)
            if c is None:
                return 0
            run.store(args[0], c, e.get('l'))
            return 1
        mems = {'_error': 0, '_handle': 3, '_blocking': 1}
        r = scansim.Run(prog, f, {}, mems=mems, methods={'read': read, 'available': lambda run, e, a: 1, 'waitInput': lambda run, e, a: 1, '*': 'interp'}, objects=True, budget=[6000000])
        try:
            ret = r.run()
        except scansim.OOB:
            if name == 'endless':
                return 'bad', 'readLine() is still reading after 70000 bytes from a peer that never sends a newline: the line grows without bound'
            return None
        except (scansim.Unsupported, TypeError, KeyError, IndexError):
            return None
        out = r.bufs.get(ret[1]) if isinstance(ret, tuple) and len(ret) == 3 and ret[0] == 'P' else None
        if out is None:
            return None
        res[name] = (st['n'], mems.get('_error'), ''.join(chr(x & 255) for x in out[:-1]))
    if res['endless'][1] == 0:
        return 'bad', 'readLine() stops after %d bytes of an endless line but records no error: the truncated line is handled as a complete one' % res['endless'][0]
    if res['line'] != (3, 0, 'ab') or res['eof'][2] != 'ab':
        return 'bad', 'readLine() on "ab\\nc" consumes %d byte(s) and returns "%s"; on "ab" + close it returns "%s"' % (res['line'][0], res['line'][2], res['eof'][2])
    return 'ok', 'interpreted: gives up after %d bytes of an endless line with error %s, returns "ab" for "ab\\n.." (3 bytes consumed) and for "ab" + close' % (res['endless'][0], res['endless'][1])
