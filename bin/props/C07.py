"""C07 - XML decoding / encoding: structural clauses decided statically.

 C07.stack      abstract interpretation of the Xml::decode loop over every reachable (state, last state, open-element stack) x byte class:
                no popget() when only the root placeholder is open, no top() of an empty stack; the look-behind `*(p - k)` is only
                evaluated after at least k bytes were consumed
 C07.exhaustive switch(state) has a case for every State enumerator
 C07.parent     decode() inserts children only through Xml::operator<<(const Xml&), and that operator both appends the child and stores
                its parent link on every path
 C07.entities   every byte that is special in the decoder's text state and in its double-quoted attribute-value state is escaped by the
                encoder (effective escape set = handled cases intersected with any bulk-copy reject set), and every entity name the encoder
                writes is mapped back to that byte by the decoder's entity table; attribute values are written inside double quotes
 C07.outbuf     the scratch buffer of numeric character references holds the longest UTF-8 sequence plus the terminator the encoder appends
 Tree equality after a round trip and whitespace/text merging rules are not decided."""
import os
import ir, q, automaton, bytesets, bounded
from ir import strip, strip_lv, const_val, T, pe, walk_expr, fn_exprs, AnalysisBroken
from core import fwhere


def run(ctx):
    units = [os.path.join(ir.REPO, 'src', 'Xml.cpp')]
    if ctx.tier == 'thorough':
        units += [u for u in ir.library_units() if u not in units]
    prog = ir.load_units(units)
    ctx.use_program(prog)
    f = fn1(prog, 'asl::Xml::decode')
    ctx.analysed(f)
    check_machine(ctx, prog, f)
    check_exhaustive(ctx, prog, f)
    check_parent(ctx, prog, f)
    check_entities(ctx, prog, f)
    ctx.floor('C07.selfclose', check_selfclose(ctx, prog), 1)
    import nullret
    nullret.check(ctx, prog, 'C07', ('Xml.cpp',))
    import litread
    litread.check(ctx, prog, 'C07', ('Xml.cpp',))
    litread.selftest(ctx)
    import C08
    # (the encoder's body lives in String.cpp: its longest output per code is read off by interpreting it)
    sprog = prog if any(g.get('pq') == 'asl::utf32toUtf8' and g.get('body') for g in prog.functions) else ir.load_units([os.path.join(ir.REPO, 'src', 'String.cpp')])
    n = C08.check_fixed_buffers(ctx, prog, 'C07.outbuf', only_file='Xml.cpp', enc_prog=sprog)
    ctx.floor('C07.outbuf', n, 1)
    return __doc__.split('\n\n', 1)[1]


def check_selfclose(ctx, prog):
    """C07.selfclose: the encoder writes `<tag/>` only for an element without children - whatever is said about the first child,
    an element that has children written in the self-closing form loses all of them (the decoder gets an empty element).  The
    guards under which the literal "/>" is emitted are evaluated as a truth table over their atoms: whenever they hold, the
    atom that says "no children" (numChildren() == 0 in any spelling) holds."""
    import itertools
    n = 0
    for f in prog.functions:
        if not f.get('body') or f.get('implicit') or not (f.get('pq') or '').startswith('asl::XmlCodec::') and not (f.get('pq') or '').startswith('asl::Xml::'):
            continue
        if not (f.get('file') or '').endswith('Xml.cpp'):
            continue
        sites = [e for e in fn_exprs(f) if e.get('k') == 'call' and any(w.get('k') == 'str' and bytes(w.get('b') or []) == b'/>' for a in (e.get('a') or []) for w in walk_expr(a))]
        if not sites:
            continue
        g = q.Guarded(f)
        for site in sites:
            conds = [(q.expand(f, c), pol) for c, pol, kind in g.of(site) if isinstance(c, dict) and kind in ('if', 'cond', 'and', 'or', 'after')]
            atoms = {}

            def childless(e):
                """+1: atom true means no children; -1: atom true means has children; 0: another atom"""
                e = strip(e)
                cnt = lambda x: any(w.get('k') == 'call' and (w.get('pq') or '').split('::')[-1] in ('numChildren', 'length') for w in walk_expr(x))
                if e.get('k') == 'bin' and e.get('op') in ('==', '!=', '>', '<', '<=', '>=') and cnt(e['x']) and const_val(e['y']) is not None:
                    k_ = const_val(e['y'])
                    t0 = {'==': 0 == k_, '!=': 0 != k_, '>': 0 > k_, '<': 0 < k_, '<=': 0 <= k_, '>=': 0 >= k_}[e['op']]
                    t1 = {'==': 1 == k_, '!=': 1 != k_, '>': 1 > k_, '<': 1 < k_, '<=': 1 <= k_, '>=': 1 >= k_}[e['op']]
                    return 1 if (t0 and not t1) else -1 if (t1 and not t0) else 0
                if e.get('k') == 'call' and (e.get('pq') or '').split('::')[-1] in ('numChildren',):
                    return -1
                return 0

            def ev(e, env):
                e = strip(e)
                while e.get('k') in ('paren', 'cast'):
                    e = strip(e['e'])
                if e.get('k') == 'bin' and e.get('op') in ('&&', '||'):
                    x, y = ev(e['x'], env), ev(e['y'], env)
                    return (x and y) if e['op'] == '&&' else (x or y)
                if e.get('k') == 'un' and e.get('op') == '!':
                    return not ev(e['e'], env)
                t = pe(e)
                atoms[t] = childless(e)
                return env.get(t, False)
            for c, pol in conds:
                ev(c, {})
            if not any(atoms.values()):
                continue                     # the emission is not guarded by the child count here (a helper decides): not this rule's form
            n += 1
            ctx.analysed(f)
            names = sorted(atoms)
            bad = None
            if len(names) <= 12:
                for vals in itertools.product((False, True), repeat=len(names)):
                    env = dict(zip(names, vals))
                    # the count atoms are one fact: keep the rows in which they agree
                    facts = set((env[t] if atoms[t] == 1 else not env[t]) for t in names if atoms[t])
                    if len(facts) != 1:
                        continue
                    if all(bool(ev(c, env)) == bool(pol) for c, pol in conds) and not facts.pop():
                        bad = env
                        break
            role = '%s:"/>" only for an element without children' % f['n']
            ctx.check(bad is None, 'C07.selfclose', f['pq'], role, fwhere(f, site.get('l')), 'the guards of the emission imply that the element has no children (%d atoms)' % len(names),
                      '%s writes the self-closing form for an element that has children (guards hold with %s): its children - elements and text - are not written at all, and decoding the output gives an empty element' % (
                          f['pq'], ', '.join('`%s` %s' % (k_[:50], 'true' if v_ else 'false') for k_, v_ in sorted((bad or {}).items()))))
    return n


def fn1(prog, name, sig=None):
    fs = [f for f in prog.fn(name, sig) if f.get('body')]
    if not fs:
        raise AnalysisBroken('anchor %s%s not found' % (name, sig or ''))
    return fs[0]


def state_enum(prog, f):
    for qn, en in prog.enums.items():
        if qn.startswith('asl::Xml::decode') or (any(c['n'] == 'TAG_QUES' for c in en['consts'])):
            return en
    raise AnalysisBroken('State enum of Xml::decode not found')


def check_machine(ctx, prog, f):
    en = state_enum(prog, f)
    S = dict((c['n'], c['v']) for c in en['consts'])
    init = {}
    for s_ in ir.walk_stmts(f['body']):
        if s_.get('k') == 'decl':
            for v in s_['vars']:
                if v['n'] in ('state', 'lastState') and const_val(v.get('init')) is not None:
                    init[v['n']] = const_val(v['init'])
    if set(init) != {'state', 'lastState'}:
        raise AnalysisBroken('Xml::decode: state variables not found (%s)' % sorted(init))
    # the open-element stack: exactly one push of the root placeholder before the loop
    pre = []
    loop = None
    for s_ in f['body']['s']:
        if s_.get('k') == 'while' and s_.get('cv'):
            loop = s_
            break
        for e in ir.stmt_exprs(s_):
            if e.get('k') == 'call' and e.get('obj') is not None and strip_lv(e['obj']).get('n') == 'elems' and (e.get('pq') or '').split('::')[-1] in ('operator<<', 'push'):
                pre.append(e)
    if loop is None or len(pre) != 1:
        raise AnalysisBroken('Xml::decode: expected exactly one root placeholder pushed before the loop (found %d)' % len(pre))

    def push_kind(m, env, arg, c):
        return 'ELEM'
    violations_extra = []

    def lookbehind(m, env, e, c):
        return None
    desc = {
        'func': f,
        'tracked': {'state': ('local', init['state']), 'lastState': ('local', init['lastState']), '#consumed': ('local', 0)},
        'clamp': {'#consumed': (0, 3)},
        'stacks': {'elems': {'bottom': 'ROOT', 'init': ('ROOT',), 'push_kind': push_kind}},
        'inline': set(),
        'pure': {'myisspace', 'myisalnum', 'myisalpha', 'myisdigit'},
        'intrinsics': {},
        'stop_state': lambda env: env.vars['state'] == S['ERR'],
    }
    ref_bad = []

    def after_step(m, before, after, ctl, c):
        if 'REF_START' in S and after.vars['state'] == S['REF_START'] and before.vars['state'] != S['REF_START']:
            if after.vars['lastState'] != before.vars['state']:
                ref_bad.append((before.vars['state'], after.vars['lastState'], m.witness(before.key()) + bytes([c & 255])))
    name_envs = {}

    def after_step2(m, before, after, ctl, c):
        after_step(m, before, after, ctl, c)
        for nm in ('TAG', 'ATT_NAME', 'TAG_START', 'WAIT_ATT'):
            if nm in S and before.vars['state'] == S[nm] and len(name_envs.setdefault(nm, {})) < 8:
                name_envs[nm].setdefault(before.key(), before.copy())
    desc['after_step'] = after_step2
    m = XmlMachine(prog, desc)
    # a block comparison or copy that starts at the cursor reads its n bytes whether or not the input ends inside them (unlike
    # strncmp it does not stop at the terminator): a document cut in the middle of such a token is read past its end
    def names_cursor(a):
        x = strip(a)
        while x.get('k') in ('cast', 'paren'):
            x = strip(x['e'])
        return x.get('k') == 'var' and x.get('id') == m.cursor
    ahead = [e for e in fn_exprs(f) if e.get('k') == 'call' and (e.get('fn') or '') in ('memcmp', 'memcpy', 'memmove') and not e.get('clsp') and len(e.get('a', [])) == 3 and
             any(names_cursor(a) for a in e['a'][:2]) and (const_val(e['a'][2]) is None or const_val(e['a'][2]) >= 2)]
    ctx.check(not ahead, 'C07.stack', f['pq'], 'decode:no block read through the cursor', fwhere(f, ahead[0]['l'] if ahead else None), 'the input is consumed byte by byte',
              '`%s` reads %s bytes starting at the cursor without knowing that the input goes on that far: when the document ends inside the token the read passes the terminating NUL (and the end of the buffer)' % (
                  pe(ahead[0])[:50] if ahead else '', const_val(ahead[0]['a'][2]) if ahead else ''))
    try:
        m.explore()
    except automaton.Stuck as ex:
        ctx.undecided('C07.stack', f['pq'], 'decode:abstract interpretation', fwhere(f), 'the decoder loop uses a construct the abstract interpreter cannot represent: %s' % ex)
        return
    ctx.evaluations += m.transitions
    ctx.info['configurations'] = len(m.configs)
    ctx.info['transitions'] = m.transitions
    ctx.info['byte_classes'] = getattr(m, 'byte_classes', None)
    ctx.floor('C07 reachable configurations', len(m.configs), 12)
    groups = {}
    for role, line, detail, cfgdesc, byte, wit in m.violations:
        groups.setdefault(role, []).append((line, detail, cfgdesc, byte, wit))
    for role in groups:
        groups[role].sort(key=lambda x: len(x[4]) if x[4] else 10**6)
    for role in sorted(groups):
        line, detail, cfgdesc, byte, wit = groups[role][0]
        ctx.violation('C07.stack', f['pq'], 'decode:' + role, fwhere(f, line or None),
                      '%s; e.g. on byte 0x%02x in configuration {%s} (%d abstract transitions); shortest abstract witness input %r' % (detail, byte, cfgdesc, len(groups[role]), wit))
    Sn = dict((v, k) for k, v in S.items())
    if ref_bad:
        ref_bad.sort(key=lambda x: len(x[2]))
        b0 = ref_bad[0]
        ctx.violation('C07.stack', f['pq'], 'decode:a reference returns to the state it interrupted', fwhere(f),
                      'an entity/character reference met in state %s will return to state %s (the saved state is stale): the text after the reference is parsed as if inside an attribute value or vice versa; abstract witness input %r' % (Sn.get(b0[0]), Sn.get(b0[1]), b0[2]))
    else:
        ctx.ok('C07.stack', f['pq'], 'decode:a reference returns to the state it interrupted', fwhere(f), 'on every transition into the reference state the saved state equals the interrupted state')
    # names: every character of a well-formed XML name (letters, digits, '_' ':' '-' '.', non-ASCII bytes; the first one not a
    # digit, '-' or '.') keeps the decoder out of its error state inside a tag name and an attribute name - the encoder
    # writes such names verbatim, so rejecting one of them loses the whole tree
    start_chars = [ord(c) for c in 'azAZ_:'] + [0xc3, 0xe9]
    more_chars = start_chars + [ord(c) for c in '09-.']
    rejected = []
    for nm, chars in (('TAG', more_chars), ('ATT_NAME', more_chars), ('TAG_START', start_chars), ('WAIT_ATT', start_chars)):
        for key, env in name_envs.get(nm, {}).items():
            for b in chars:
                c = b - 256 if b > 127 else b
                try:
                    outs = m.step(env.copy(), c)
                except automaton.Stuck:
                    continue
                ctx.evaluations += 1
                if outs and all(e2.vars['state'] == S['ERR'] for e2, ctl in outs):
                    rejected.append((nm, b))
    rejected = sorted(set(rejected))
    if name_envs:
        ctx.check(not rejected, 'C07.names', f['pq'], 'decode:every XML name character is accepted in tag and attribute names', fwhere(f),
                  'letters, digits, _ : - . and non-ASCII bytes stay out of the error state in %s' % sorted(name_envs),
                  'Xml::decode enters its error state on %s: a tree whose tag or attribute names contain that character is encoded normally but decodes to a null element' % (
                      ', '.join('%r in state %s' % (chr(b) if b < 128 else hex(b), nm) for nm, b in rejected[:4])))
    check_docs(ctx, prog, f, m, S)
    if not groups:
        ctx.ok('C07.stack', f['pq'], 'decode:stack safety over all reachable configuration', fwhere(f), '%d configurations, %d transitions: no unsafe popget/top, look-behind within consumed input' % (len(m.configs), m.transitions))


XML_DOCS = [
    # (document, expected structure: 'o' element opened, 't' text node appended to the open element, 'c' element closed)
    (b'<a>x</a>', 'otc'), (b'<a>&amp;</a>', 'otc'), (b'<a>&#65;&lt;</a>', 'otc'), (b'<a>x&gt;y</a>', 'otc'), (b'<a><b/>t</a>', 'ooctc'),
    (b'<a> <b>u</b> </a>', 'ootcc'), (b'<a k="v">w<c d=\'e\'/></a>', 'otocc'), (b'<a><b>&quot;</b><b>z</b></a>', 'ootcotcc'), (b'<r>\xc3\xa9&#233;</r>', 'otc'),
    # text without any ASCII character (bytes >= 0x80 only, alone and next to blanks): a text node like any other
    (b'<g>\xce\xa0\xcf\x81\xce\xb9\xce\xbd</g>', 'otc'), (b'<a><b/> \xe2\x82\xac <b/></a>', 'ooctocc'), (b'<a>\xff</a>', 'otc'),
]


def check_docs(ctx, prog, f, m, S):
    """C07.docs: a necessary condition of the round trip: for each document of a small corpus (text, entity and character
    references alone and mixed with text, nested and empty elements, attributes) the decoder machine - run on the document's
    bytes with the text buffer followed concretely and every flag that only ever takes constant values followed exactly - has a
    run without error that opens and closes the elements and appends the text nodes in the order the document has them.  If no
    run does, the tree the real decoder builds lacks a node (a text consisting only of references, say) whatever the untracked
    data are."""
    role = 'decode:every document of the corpus yields its elements and text nodes'

    def on_top(mach, env, sn, e):
        nm = (e.get('pq') or e.get('fn') or '').split('::')[-1]
        if nm in ('operator<<', 'append') and e.get('a'):
            a0 = strip(e['a'][0])
            while a0.get('k') in ('temp', 'cast', 'paren'):
                a0 = strip(a0['e'])
            ty = T(mach.f, a0.get('t')).get('rec') or ''
            env.events.append(('text',) if 'XmlText' in ty or (a0.get('k') == 'construct' and 'XmlText' in (a0.get('cls') or '')) else ('child',))
    saved = m.d.get('on_top_call')
    m.d['on_top_call'] = on_top
    m.d['texts'] = ('b',)
    bad = None
    total = 0
    try:
        for doc, want in XML_DOCS:
            try:
                envs = m.run_text(doc, keep_log=True)
            except automaton.Stuck as ex:
                ctx.undecided('C07.docs', f['pq'], role, fwhere(f), 'the abstract machine cannot follow %s: %s' % (doc.decode('latin-1'), ex))
                return
            ctx.evaluations += len(doc)
            total += len(envs)
            seqs = set()
            for e in envs:
                if e.vars.get('state') == S['ERR'] or tuple(e.stacks['elems']) != ('ROOT',):
                    continue
                sq = ''
                for ev in (e.log or ()):
                    if ev[0] == 'push' and ev[1] == 'elems':
                        sq += 'o'
                    elif ev[0] == 'pop' and ev[1] == 'elems':
                        sq += 'c'
                    elif ev[0] == 'text':
                        sq += 't'
                seqs.add(sq)
            if os.environ.get('ASL_DEBUG_DOCS'):
                print('DOC', doc, want, sorted(seqs))
            if want not in seqs:
                bad = (doc, want, sorted(seqs))
                break
    finally:
        m.d['on_top_call'] = saved
        m.d['texts'] = ()
    ctx.check(bad is None, 'C07.docs', f['pq'], role, fwhere(f), '%d documents, %d final configurations' % (len(XML_DOCS), total),
              'no run of the decoder over %s builds the structure %s (o = element opened, t = text node appended, c = element closed); the runs that end without error give %s: a node of the document is missing from the decoded tree' % (
                  bad[0].decode('latin-1') if bad else '', bad[1] if bad else '', bad[2] if bad else ''))


class XmlMachine(automaton.Machine):
    """adds: consumed-byte counter (for the look-behind bound) - incremented once per interpreted iteration"""

    def step(self, env0, c):
        outs = automaton.Machine.step(self, env0, c)
        for e2, ctl in outs:
            e2.vars['#consumed'] = min(3, e2.vars['#consumed'] + 1)
        return outs

    def ev(self, e, env, c):
        # *(p - k): look-behind through the cursor
        if e is not None and e.get('k') == 'un' and e.get('op') == '*':
            x = strip(e['e'])
            if x.get('k') == 'bin' and x.get('op') == '-' and strip(x['x']).get('k') == 'var' and strip(x['x']).get('id') == self.cursor and const_val(x['y']) is not None:
                k = const_val(x['y'])
                # the cursor already points one past the current byte: p - k is valid iff consumed-before + 1 >= k
                if env.vars['#consumed'] + 1 < k:
                    env.viol.append(('look-behind before the start of the input', e.get('l', 0), '`*(p - %d)` is evaluated when only %d byte(s) have been consumed' % (k, env.vars['#consumed'] + 1)))
                return automaton.U
        return automaton.Machine.ev(self, e, env, c)

    def ev_call(self, e, env, c):
        # method calls on the element returned by elems.top() inside expressions: top() must be safe
        o = e.get('obj')
        if o is not None:
            oo = strip(o)
            if oo.get('k') == 'call' and oo.get('obj') is not None and self.stack_name(oo['obj']):
                self.ev(oo, env, c)
        return automaton.Machine.ev_call(self, e, env, c)


def check_exhaustive(ctx, prog, f):
    en = state_enum(prog, f)
    sw = None
    for s_ in ir.walk_stmts(f['body']):
        if s_.get('k') == 'switch' and strip(s_['c']).get('n') == 'state':
            sw = s_
            break
    if sw is None:
        raise AnalysisBroken('Xml::decode: switch(state) not found')
    have = set()
    for st in sw['body']['s']:
        x = st
        while x.get('k') in ('case', 'default'):
            if x['k'] == 'case':
                have.add(x.get('v'))
            x = x['sub']
    need = dict((c['v'], c['n']) for c in en['consts'])
    miss = [need[v] for v in need if v not in have]
    ctx.evaluations += len(need)
    ctx.check(not miss, 'C07.exhaustive', f['pq'], 'decode:switch(state) covers every state', fwhere(f, sw['l']), '%d states' % len(need), 'switch(state) has no case for %s: in that state every byte is ignored' % miss)
    # single exit test for ERR after the switch
    errv = [c['v'] for c in en['consts'] if c['n'] == 'ERR']
    tests = [s_ for s_ in ir.walk_stmts(f['body']) if s_.get('k') == 'if' and strip(s_['c']).get('k') == 'bin' and strip(s_['c']).get('op') == '==' and strip(strip(s_['c'])['x']).get('n') == 'state' and const_val(strip(s_['c'])['y']) in errv and q.always_exits(s_['then'])]
    ctx.check(bool(tests), 'C07.exhaustive', f['pq'], 'decode:ERR leaves the function', fwhere(f), 'if (state == ERR) return Xml()', 'the decoder does not return a null element as soon as the error state is entered')


def check_parent(ctx, prog, f):
    direct = [e for e in fn_exprs(f) if e.get('k') == 'call' and ((e.get('pq') or '') in ('asl::Xml::children',) or
              (e.get('clsp') == 'asl::Array' and 'asl::Xml' in (e.get('cls') or '') and (e.get('pq') or '').split('::')[-1] in ('operator<<', 'insert', 'append') and strip_lv(e.get('obj') or {}).get('n') != 'elems'))]
    ctx.check(not direct, 'C07.parent', f['pq'], 'decode:children inserted only through Xml::operator<<', fwhere(f, direct[0]['l'] if direct else None), 'no direct access to a child list',
              'decode() manipulates a child list directly (`%s`): the child\'s parent link is not set' % (pe(direct[0]) if direct else ''))
    # element children appended: calls elems.top() << e   with e an Xml
    adds = [e for e in q.fn_exprs_inlined(prog, f) if e.get('k') == 'call' and e.get('pq') == 'asl::Xml::operator<<']       # helpers of decode() included
    by_sig = {}
    for e in adds:
        by_sig.setdefault(e.get('sig'), []).append(e)
    ctx.info['child_insertions'] = dict((k, len(v)) for k, v in by_sig.items())
    ctx.check('(const asl::Xml &)' in by_sig and set(by_sig) == {'(const asl::Xml &)'}, 'C07.parent', f['pq'], 'decode:elements and text nodes attached with operator<<(const Xml&)', fwhere(f),
              '%d insertions of Xml nodes' % len(by_sig.get('(const asl::Xml &)', [])), 'decode() attaches nodes through %s: text or element children are added without going through the parent-linking operator' % sorted(by_sig))
    op = fn1(prog, 'asl::Xml::operator<<', '(const asl::Xml &)')
    ctx.analysed(op)
    app = [e for e in fn_exprs(op) if e.get('k') == 'call' and e.get('clsp') == 'asl::Array' and (e.get('pq') or '').split('::')[-1] in ('operator<<', 'insert') and any(w.get('k') == 'mem' and w.get('f') == 'children' for w in walk_expr(e['obj']))]
    par = [e for e in fn_exprs(op) if e.get('k') == 'bin' and e.get('op') == '=' and strip_lv(e['x']).get('f') == 'parent' and any(w.get('k') == 'var' and w.get('vk') == 'param' for w in walk_expr(e['x']))]
    conditional = [s_ for s_ in ir.walk_stmts(op['body']) if s_.get('k') in ('if', 'switch', 'for', 'while')]
    ctx.check(len(app) == 1 and len(par) == 1 and not conditional, 'C07.parent', op['pq'], 'operator<<:appends the child and stores its parent link', fwhere(op), 'children << e; e.parent = this', 'Xml::operator<<(const Xml&) does not unconditionally append the child and store its parent link')


def check_entities(ctx, prog, f):
    esc = fn1(prog, 'asl::XmlCodec::escape')
    ctx.analysed(esc)
    # what the encoder writes for each byte (emit.py): every write to the output stream is evaluated with "the current
    # character" bound to each byte value; a write counts for a byte when no guard of the site excludes that byte
    import emit
    emitted = None
    try:
        # primary: the escaper interpreted as a whole on every one-byte string and on short strings over its special bytes
        emitted, framing, issues = emit.interp_table(prog, esc, '_xml')
        reject = None
        ctx.evaluations += 255 + 14 * 14 + 512
        ctx.check(not issues, 'C07.entities', esc['pq'], 'escape:what is written for a byte does not depend on its neighbours', fwhere(esc), 'strings of 2 and 3 bytes over the special bytes are escaped byte by byte',
                  'escape() writes %r for the text %r, byte by byte it would be %r: whether a character is escaped depends on the rest of the string' % (
                      (bytes(issues[0][1] or []), bytes(issues[0][0]), bytes(issues[0][2])) if issues else (b'', b'', b'')))
    except emit.Unresolved:
        emitted = None
    if emitted is None:
        try:
            emitted, reject = emit.emit_table(prog, esc, '_xml')
        except emit.Unresolved as u:
            if 'not found' in str(u):
                raise AnalysisBroken('escape(): %s' % u)
            ctx.undecided('C07.entities', esc['pq'], 'escape:covers every byte special to the decoder', fwhere(esc), str(u))
            return
        ctx.evaluations += 255
    table = {}
    for bv, out in emitted.items():
        if out and out[0] == ord('&') and out[-1] == ord(';') and out != [bv]:
            table[bv] = bytes(out[1:-1]).decode('latin-1')
    effective = dict((b, n) for b, n in table.items() if reject is None or b in reject)
    ctx.info['escaped'] = dict((chr(b), n) for b, n in effective.items())
    # decoder: bytes that are special in FREE and in ATT_VAL
    en = state_enum(prog, f)
    S = dict((c['n'], c['v']) for c in en['consts'])
    special = {}
    for s_ in ir.walk_stmts(f['body']):
        if s_.get('k') == 'switch' and strip(s_['c']).get('n') == 'state':
            cur = None
            for st in s_['body']['s']:
                x = st
                labs = []
                while x.get('k') in ('case', 'default'):
                    if x['k'] == 'case':
                        labs.append(x.get('v'))
                    x = x['sub']
                if labs:
                    cur = labs
                if cur and x.get('k') == 'switch':
                    inner = set()
                    for it in ir.walk_stmts(x['body']):
                        if it.get('k') == 'case' and it.get('v') is not None:
                            inner.add(it['v'] & 255)
                    for l in cur:
                        special.setdefault(l, set()).update(inner)
    need = set(special.get(S.get('FREE'), set())) | set(special.get(S.get('ATT_VAL'), set()))
    if not need:
        raise AnalysisBroken('decoder special characters of FREE / ATT_VAL not found')
    miss = sorted(chr(b) for b in need if b not in effective)
    ctx.evaluations += len(need)
    ctx.check(not miss, 'C07.entities', esc['pq'], 'escape:covers every byte special to the decoder', fwhere(esc), 'decoder specials %s all escaped' % sorted(chr(b) for b in need),
              'the encoder writes %s raw although the decoder treats %s specially in text / double-quoted attribute values: encoded trees with such characters do not decode back' % (miss, 'them' if len(miss) > 1 else 'it'))
    # decoder entity table maps the names back
    ents = {}
    for e in fn_exprs(f):
        if e.get('k') == 'bin' and e.get('op') == '=' and const_val(e['y']) is not None:
            l = strip_lv(e['x'])
            if l.get('k') == 'call' and l.get('op') == '[]' and strip_lv(l['obj']).get('n') == 'entities':
                key = [w for w in walk_expr(l['a'][0]) if w.get('k') == 'str']
                if key:
                    ents[bytes(key[0]['b']).decode('latin-1')] = const_val(e['y']) & 255
    # ... or keeps the names in a constant table of (name, character) pairs that decode() or a helper it calls looks up, or compares
    # the reference with literals one by one (`ref == "amp"` ... '&')
    def table_pairs(g):
        def walk_init(it):
            if not isinstance(it, dict):
                return
            if it.get('k') == 'initlist':
                strs = [x for x in it.get('items', []) if isinstance(x, dict) and x.get('k') == 'str']
                ints = [x for x in it.get('items', []) if isinstance(x, dict) and const_val(x) is not None and x.get('k') != 'str']
                if len(strs) == 1 and len(ints) == 1:
                    ents.setdefault(bytes(strs[0]['b']).decode('latin-1'), const_val(ints[0]) & 255)
                for x in it.get('items', []):
                    walk_init(x)
        walk_init(g.get('init'))
    scope = [f]
    for e in fn_exprs(f):
        if e.get('k') == 'call' and e.get('fn') and not e.get('clsp'):
            scope += [h for h in prog.fn(e['fn'], e.get('sig')) if h.get('body') and (h.get('file') or '') == (f.get('file') or '')]
    if not ents:
        for h in scope:
            for e in fn_exprs(h):
                if e.get('k') == 'var' and e.get('q') in prog.globals and prog.globals[e['q']].get('const') and (prog.globals[e['q']].get('init') or {}).get('k') == 'initlist':
                    table_pairs(prog.globals[e['q']])
    if not ents:
        for h in scope:
            for st in ir.walk_stmts(h['body']):
                if st.get('k') == 'if':
                    lits = [w for w in walk_expr(st['c']) if w.get('k') == 'str']
                    cmp_ = any(w.get('k') == 'call' and w.get('op') == '==' for w in walk_expr(st['c']))
                    vals = [const_val(w) for x in ir.stmt_exprs(st['then']) for w in walk_expr(x) if w.get('k') == 'int' and w.get('chr')]
                    if cmp_ and len(lits) == 1 and len(vals) == 1:
                        ents.setdefault(bytes(lits[0]['b']).decode('latin-1'), vals[0] & 255)
    # when decode() goes through a look-up helper (`findEntity(ref, '?')`), the helper is interpreted on every name the encoder
    # writes and on two it does not: what it returns must be what the table says (a search that never reaches an entry loses it)
    lookup_bad = None
    try:
        import scansim
        for e in fn_exprs(f):
            if not (e.get('k') == 'call' and e.get('fn') and not e.get('clsp') and len(e.get('a') or []) == 2 and const_val(e['a'][1]) is not None):
                continue
            hs = [h for h in prog.fn(e['fn'], e.get('sig')) if h.get('body') and (h.get('file') or '') == (f.get('file') or '') and len(h['params']) == 2]
            if not hs or not any(w.get('k') == 'var' and w.get('q') in prog.globals for w in fn_exprs(hs[0])):
                continue
            h = hs[0]
            dflt = const_val(e['a'][1]) & 255
            pt0 = T(h, h['params'][0]['t'])
            for nm in sorted(set(list(effective.values()) + ['zz', 'a'])):
                bufs = {}
                r = scansim.Run(prog, h, bufs, int_params={h['params'][1]['id']: dflt}, objects=True, methods={'*': 'interp'})
                if pt0.get('ptr'):
                    bufs['N'] = [ord(c) for c in nm] + [0]
                    r.vars[h['params'][0]['id']] = ('P', 'N', 0)
                else:
                    bufs[('O', h['params'][0]['id'])] = [ord(c) for c in nm] + [0]
                    r.objlen[h['params'][0]['id']] = len(nm)
                    r.strobjs.add(h['params'][0]['id'])
                got = r.run()
                ctx.evaluations += 1
                want = ents.get(nm, dflt)
                if isinstance(got, int) and (got & 255) != want and lookup_bad is None:
                    lookup_bad = (h, nm, got & 255, want)
    except (scansim.Unsupported, scansim.OOB, TypeError, KeyError, IndexError, ValueError) as u:
        ctx.info['entity_lookup'] = 'helper outside the interpreted fragment: %s' % u
    if lookup_bad:
        h, nm, got, want = lookup_bad
        ctx.violation('C07.entities', h['pq'], 'decode:the entity look-up finds every name of the table', fwhere(h), '%s("%s") returns %r, the table says %r: `&%s;` - which the encoder writes for that character - decodes to the wrong character' % (h['n'], nm, chr(got), chr(want), nm))
    bad = [(chr(b), n) for b, n in effective.items() if ents.get(n) != b]
    ctx.check(not bad, 'C07.entities', f['pq'], 'decode:entity table inverts the encoder', fwhere(f), 'entities %s' % sorted(ents), 'the decoder\'s entity table does not map %s back to the byte the encoder replaced' % bad)
    # attributes written inside double quotes
    enc = fn1(prog, 'asl::XmlCodec::encode')
    ctx.analysed(enc)
    lits = [bytes(w['b']).decode('latin-1') for w in fn_exprs(enc) if w.get('k') == 'str']
    ctx.check('="' in lits, 'C07.entities', enc['pq'], 'encode:attribute values in double quotes', fwhere(enc), 'name="value"', 'the encoder no longer quotes attribute values with double quotes (the escape requirements above assume it)')
