"""C13 - Thread / ThreadGroup / parallel_for / Semaphore / Condition: structural clauses decided statically.

 C13.trampoline  begin / beginf / beginfN store the finished flag after the user function returned on every exit, copy the context
                 to a local BEFORE setting `ready`, and do not touch the creator's context after that store
 C13.handover    the hand-over of the context is a synchronising operation: `ready` is set by an atomic read-modify-write on the flag
                 (or a plain store preceded by a fence) after the copy - a plain volatile store does not order the non-volatile copy
 C13.context     every function that hands the address of a local Context to thread creation waits on its `ready` flag after the
                 creation on every path before the local goes out of scope
 C13.creator     after the call that creates the OS thread, the creating thread never stores to that object's finished flag
                 (directly or through the copy constructor / operator= - call-graph closure over Thread members)
 C13.owner       a Thread member that copies another Thread's OS handle leaves the source with 0 on every path (single owner: the
                 destructor detaches, join() on a detached handle does not wait)
 C13.init        every public constructor of Mutex / Semaphore / Condition initialises the native object it wraps
 C13.start       every path through Thread::start() / run(function, argument) reaches the creation of an OS thread (helpers followed):
                 a start() that returns without creating one runs the body 0 times for that call
 C13.deadline    the absolute deadline a timed wait hands to sem_timedwait / pthread_cond_timedwait is interpreted for a grid of clock
                 values and timeouts: 0 <= tv_nsec < 10^9 and tv_sec + tv_nsec/10^9 = now + timeout (an out-of-range tv_nsec makes the
                 call fail at once with EINVAL: the wait returns without waiting and a post inside the window is not received)
 C13.join        parallel_for / parallel_invoke join every thread they started before returning; delete follows join
 C13.partition   parallel_for: worker count n is evaluated over a grid of (requested threads, range length): 1 <= n <= both when the
                 range is non-empty; the Context carries start = i0 + worker index, end = i1, stride = n, and beginfN iterates
                 {start + k*stride < end} calling f once per index
 C13.wrappers    Semaphore post(n) posts n times / wait waits once; Condition::wait uses the mutex given to use(); signal broadcasts
 Schedule-level visibility and spin-wait fairness are not decided."""
import os
import ir, q, bounded, cfg as cfgm, bytesets
from ir import strip, strip_lv, const_val, T, pe, walk_expr, fn_exprs, AnalysisBroken
from core import fwhere

FLAG = '_threadFinished'


def run(ctx):
    units = [os.path.join(ir.VERIF, 'drivers', 'inst_threads.cpp')]
    lib = ir.library_units() if ctx.tier == 'thorough' else [os.path.join(ir.REPO, 'src', 'SocketServer.cpp')]
    prog = ir.load_units(units + lib, force_inst=units)
    ctx.use_program(prog)
    check_trampolines(ctx, prog)
    check_context(ctx, prog)
    check_creator(ctx, prog)
    check_join(ctx, prog)
    check_partition(ctx, prog)
    check_wrappers(ctx, prog)
    check_owner(ctx, prog)
    check_native_init(ctx, prog)
    check_start(ctx, prog)
    check_deadline(ctx, prog)
    ctx.floor('C13.named', check_named_threads(ctx, prog), 3)
    import retself
    n = retself.check(ctx, prog, 'R-RETSELF', ('asl::ThreadGroup', 'asl::Thread', 'asl::Array'))
    ctx.floor('R-RETSELF members', n, 2)
    return __doc__.split('\n\n', 1)[1]


def check_named_threads(ctx, prog):
    """C13.named: a function / lambda thread reports its completion through the Thread object it was constructed on (the hand-over
    record carries its address; the worker stores the finished flag there as its last act).  That object therefore has to live
    until the thread was joined: in the library's own launchers (parallel_invoke, parallel_for ...) every Thread built from a
    function object is a declared variable or a heap object - never a temporary of an expression, which dies at the end of
    the statement while the worker may still be running (a copy put into an array takes over the handle, not the address)."""
    n = 0
    seen = set()
    for f in prog.functions:
        if not f.get('body') or f.get('implicit') or not (f.get('file') or '').startswith(ir.REPO):
            continue
        key = (f.get('file'), f.get('line'))
        made = [w for w in fn_exprs(f) if w.get('k') == 'construct' and w.get('cls') == 'asl::Thread' and w.get('a') and
                not (w.get('sig') or '').startswith(('(const asl::Thread &', '(asl::Thread &&'))]
        if not made or key in seen:
            continue
        seen.add(key)
        n += 1
        ctx.analysed(f)
        temps = [w for w in fn_exprs(f) if w.get('k') == 'temp' and strip(w.get('e') or {}).get('k') == 'construct' and any(strip(w['e']) is m_ for m_ in made)]
        role = '%s%s:threads built from a function object are named objects' % (f['n'], (f.get('sig') or '')[:40])
        ctx.check(not temps, 'C13.named', f['pq'], role, fwhere(f, temps[0].get('l') if temps else None), '%d thread object(s), each a variable or a heap object' % len(made),
                  '%s builds a thread as a temporary (`%s`): the worker keeps the address of that object and stores its finished flag there when the task ends, but the temporary is destroyed at the end of the statement - a task that outlives the statement writes into a dead stack slot, and the object that is joined later is a copy' % (f['pq'], pe(temps[0]) if temps else ''))
    return n


def is_flag_store(e, value=None):
    if e.get('k') == 'bin' and e.get('op') == '=' and strip_lv(e['x']).get('k') == 'mem' and strip_lv(e['x']).get('f') == FLAG:
        return value is None or const_val(e['y']) == value
    return False


SYNC_PREFIXES = ('atomicInc', 'atomicDec', 'asl::atomicInc', 'asl::atomicDec', '__sync_', '__atomic_', 'Interlocked', '_Interlocked', 'MemoryBarrier',
                 'std::atomic', 'atomic_thread_fence', 'std::atomic_thread_fence')


def is_sync_call(e):
    """a call of an atomic read-modify-write or fence primitive (a full barrier for compiler and hardware)"""
    return e.get('k') == 'call' and any((e.get('fn') or '').startswith(p_) for p_ in SYNC_PREFIXES)


def _addr_of_ready(a):
    a = strip(a)
    while a.get('k') in ('cast', 'paren'):
        a = strip(a['e'])
    return a.get('k') == 'un' and a.get('op') == '&' and strip_lv(a['e']).get('k') == 'mem' and strip_lv(a['e']).get('f') == 'ready'


def ready_signal(prog, e):
    """How the expression hands the context back to the creator: 'plain' for an assignment to the `ready` field, 'atomic' for an
    atomic operation applied to its address (directly or inside a helper that receives the address), 'unknown' for a helper
    that receives the address and does something else; None when the expression is not the hand-over."""
    if e.get('k') == 'bin' and e.get('op') == '=' and strip_lv(e['x']).get('k') == 'mem' and strip_lv(e['x']).get('f') == 'ready':
        return 'plain'
    if e.get('k') == 'un' and e.get('op') in ('pre++', 'post++') and strip_lv(e['e']).get('k') == 'mem' and strip_lv(e['e']).get('f') == 'ready':
        return 'plain'
    if e.get('k') == 'call' and e.get('obj') is not None and 'Thread::Context' in (e.get('cls') or e.get('fn') or ''):
        # a member of the context itself (`ctx->handBack()`): classified by what its body does to `ready`
        for g in prog.fn(e.get('fn'), e.get('sig')):
            if not g.get('body'):
                continue
            kinds = []
            for w in fn_exprs(g):
                if is_sync_call(w) and any(_addr_of_ready(a) for a in w.get('a', [])):
                    kinds.append('atomic')
                elif w.get('k') == 'bin' and w.get('op') == '=' and strip_lv(w['x']).get('k') == 'mem' and strip_lv(w['x']).get('f') == 'ready':
                    kinds.append('plain')
            if kinds:
                return 'atomic' if kinds[0] == 'atomic' else 'plain'
        return None
    if e.get('k') == 'call' and any(_addr_of_ready(a) for a in e.get('a', [])):
        if is_sync_call(e):
            return 'atomic'
        j = [i for i, a in enumerate(e['a']) if _addr_of_ready(a)][0]
        for g in prog.fn(e.get('fn'), e.get('sig')):
            if not g.get('body') or j >= len(g['params']):
                continue
            pid = g['params'][j]['id']
            kinds = []
            for w in fn_exprs(g):
                uses = lambda x: any(y.get('k') == 'var' and y.get('id') == pid for y in walk_expr(x))
                if is_sync_call(w) and any(uses(a) for a in w.get('a', [])):
                    kinds.append('atomic')
                elif w.get('k') == 'bin' and w.get('op') == '=' and strip_lv(w['x']).get('k') == 'un' and uses(w['x']):
                    kinds.append('plain')
            if kinds:
                return 'atomic' if kinds[0] == 'atomic' else 'plain'
        return 'unknown'
    return None


def check_trampolines(ctx, prog):
    n = 0
    for pat in ('asl::Thread::begin', 'asl::Thread::beginf', 'asl::Thread::beginfN'):
        fs = [f for f in prog.pattern(pat) if f.get('body')]
        if not fs:
            raise AnalysisBroken('trampoline %s not found' % pat)
        for f in fs[:3]:
            n += 1
            ctx.analysed(f)
            cfg = cfgm.CFG(f)
            name = f['n']
            p_id = f['params'][0]['id']
            problems = []
            handover = []
            # user call: virtual run() on the thread object, or operator() of the functor held in the local context
            def is_user_call(e):
                if e.get('k') != 'call':
                    return False
                if e.get('pq') == 'asl::Thread::run' and e.get('sig') == '()':
                    return True
                if e.get('op') == '()' and e.get('obj') is not None and strip(e['obj']).get('k') == 'mem' and strip(e['obj']).get('f') == 'f':
                    return True
                return False

            # pointers to the creator's context: the parameter and locals of pointer type initialised from it
            ctx_ptrs = set([p_id])
            for s_ in ir.walk_stmts(f['body']):
                if s_.get('k') == 'decl':
                    for v in s_['vars']:
                        if v.get('init') is not None and T(f, v['t']).get('ptr') and any(w.get('k') == 'var' and w.get('id') in ctx_ptrs for w in walk_expr(v['init'])):
                            ctx_ptrs.add(v['id'])

            def derefs_context(e):
                for w in walk_expr(e):
                    if w.get('k') == 'mem' and w.get('b') is not None:
                        b = strip(w['b'])
                        while b.get('k') in ('cast', 'paren'):
                            b = strip(b['e'])
                        if b.get('k') == 'un' and b.get('op') == '*':
                            b = strip(b['e'])
                            while b.get('k') in ('cast', 'paren'):
                                b = strip(b['e'])
                        if b.get('k') == 'var' and b.get('id') in ctx_ptrs:
                            return w
                    if w.get('k') == 'un' and w.get('op') == '*':
                        b = strip(w['e'])
                        while b.get('k') in ('cast', 'paren'):
                            b = strip(b['e'])
                        if b.get('k') == 'var' and b.get('id') in ctx_ptrs:
                            return w
                return None

            def step(nd, st):
                if 'ready' in st and nd.kind == 'ev' and nd.e is not None and ready_signal(prog, nd.e) is None:
                    w_ = derefs_context(nd.e)
                    if w_ is not None:
                        problems.append((nd.e.get('l', 0), 'the creator\'s context is read through `%s` after `ready` was set (the creator may already have left the scope that owns it; the slot can hold another thread\'s context by then)' % pe(w_)[:40]))
                if nd.kind == 'decl' and nd.info.get('init') is not None and any(w.get('k') == 'var' and w.get('id') == p_id for w in walk_expr(nd.info['init'])):
                    if 'ready' in st:
                        problems.append((nd.line, 'the creator\'s context is read after `ready` was set (the creator may already have left the scope that owns it)'))
                    return st | frozenset(['ctx'])
                if nd.kind != 'ev' or nd.e is None:
                    return st
                e = nd.e
                sig_ = ready_signal(prog, e)
                if sig_ is not None:
                    if 'ctx' not in st and name != 'begin':
                        problems.append((e.get('l', 0), '`ready` is set before the context was copied to a local'))
                    handover.append((e.get('l', 0), sig_, 'fence' in st))
                    return st | frozenset(['ready'])
                if is_sync_call(e) and 'ctx' in st:
                    return st | frozenset(['fence'])
                if e.get('k') == 'var' and e.get('id') == p_id and 'ready' in st and 'readystore' not in st:
                    pass
                if is_user_call(e):
                    if FLAG in st:
                        problems.append((e.get('l', 0), 'the finished flag is stored before the user function runs'))
                    return st | frozenset(['user'])
                if is_flag_store(e, 1):
                    return st | frozenset([FLAG])
                return st
            reached, _ = cfgm.dataflow(cfg, frozenset(), cfgm.follow_helpers(prog, f, step))
            ctx.evaluations += sum(len(v) for v in reached.values())
            exits = reached.get(cfg.exit.id, set())
            for st in exits:
                if 'ctx' in st or name == 'begin':
                    if 'user' not in st and any('user' in x for x in exits):
                        continue
                    if FLAG not in st:
                        problems.append((f.get('end', 0), 'a path returns from the thread function without storing the finished flag'))
            # uses of the raw argument after ready
            order = list(fn_exprs(f))
            ready_pos = [i for i, e in enumerate(order) if ready_signal(prog, e) is not None]
            if ready_pos:
                later = [e for e in order[ready_pos[-1] + 1:] if e.get('k') == 'var' and e.get('id') == p_id and e.get('l', 0) > order[ready_pos[-1]].get('l', 0)]
                if later:
                    problems.append((later[0].get('l', 0), 'the raw context pointer is used after `ready` was set'))
            role = name + ':order of context copy, ready, user function, finished flag'
            if problems:
                ctx.violation('C13.trampoline', f['pq'], role, fwhere(f, problems[0][0]), '%s (%s)' % (problems[0][1], f['q']))
            else:
                ctx.ok('C13.trampoline', f['pq'], role, fwhere(f), 'context copied, ready set, user function run, finished flag stored - in that order on every exit')
            if name != 'begin':
                # the hand-over itself: the copy of the context is an ordinary (non-volatile) read of the creator's object, so only a
                # barrier between it and the flag - an atomic operation on the flag, or a fence before a plain store - keeps compiler
                # and processor from completing part of the copy after the creator was released
                role = name + ':the context copy is complete before the creator is released'
                plain = [h for h in handover if h[1] == 'plain' and not h[2]]
                unk = [h for h in handover if h[1] == 'unknown']
                if not handover:
                    ctx.undecided('C13.handover', f['pq'], role, fwhere(f), 'no store or atomic operation on the `ready` flag found')
                elif plain:
                    ctx.violation('C13.handover', f['pq'], role, fwhere(f, plain[0][0]), '`ready` is set by a plain store to a volatile field with no barrier after the (non-volatile) copy of the context: volatile orders only '
                                  'volatile accesses, so the compiler may complete part of the copy after the store (g++ 12 -O2 does: a 16-byte load of the context follows the store of the flag) and the creator, released '
                                  'by the flag, has already overwritten the context - a worker of parallel_for then runs with the next worker\'s functor/bounds or with none (%s)' % f['q'])
                elif unk:
                    ctx.undecided('C13.handover', f['pq'], role, fwhere(f, unk[0][0]), 'the `ready` flag is handed to a helper that neither stores to it nor applies an atomic operation')
                else:
                    ctx.ok('C13.handover', f['pq'], role, fwhere(f, handover[0][0]), 'the flag is set by an atomic read-modify-write (full barrier) or after a fence that follows the copy')
    ctx.floor('C13.trampoline', n, 3)


def creators(prog):
    """Thread members / helpers that (transitively) create the OS thread."""
    direct = set()
    calls = {}
    for f in prog.functions:
        if not (f.get('clsp') == 'asl::Thread' or (f.get('pq') or '').startswith('asl::Thread::')) or not f.get('body'):
            continue
        for e in fn_exprs(f):
            if e.get('k') == 'call':
                if e.get('fn') in ('pthread_create', '_beginthreadex'):
                    direct.add(f['pq'] + '#' + f['sig'])
                elif e.get('clsp') == 'asl::Thread':
                    calls.setdefault(f['pq'] + '#' + f['sig'], set()).add((e.get('pq'), e.get('sig')))
    res = set(direct)
    changed = True
    while changed:
        changed = False
        for k, cs in calls.items():
            if k not in res and any((pq + '#' + (sg or '')) in res for pq, sg in cs):
                res.add(k)
                changed = True
    return res, direct


def flag_writers(prog):
    """Thread members that store the finished flag (excluding the trampolines)."""
    res = set()
    calls = {}
    for f in prog.functions:
        if f.get('clsp') != 'asl::Thread' or not f.get('body') or f['n'] in ('begin', 'beginf', 'beginfN'):
            continue
        key = f['pq'] + '#' + f['sig']
        for e in fn_exprs(f):
            if is_flag_store(e):
                res.add(key)
            if e.get('k') in ('call', 'construct') and e.get('clsp') == 'asl::Thread' or (e.get('k') == 'construct' and e.get('cls') == 'asl::Thread'):
                calls.setdefault(key, set()).add((e.get('pq'), e.get('sig')))
    changed = True
    while changed:
        changed = False
        for k, cs in calls.items():
            if k not in res and any((pq or '') + '#' + (sg or '') in res for pq, sg in cs):
                res.add(k)
                changed = True
    return res


def check_creator(ctx, prog):
    cre, direct = creators(prog)
    wr = flag_writers(prog)
    if not direct:
        raise AnalysisBroken('no Thread member calls pthread_create')
    ctx.info['thread_creators'] = sorted(cre)
    ctx.info['flag_writers'] = sorted(wr)
    n = 0
    seen_roles = set()
    for f in prog.functions:
        key = (f.get('pq') or '') + '#' + f.get('sig', '')
        if key not in cre or not f.get('body'):
            continue
        n += 1
        ctx.analysed(f)
        cfg = cfgm.CFG(f)
        hits = []

        def step(nd, st):
            if nd.kind not in ('ev', 'decl', 'ret') or nd.e is None:
                return st
            for e in ([nd.e] if nd.kind == 'ev' else []):
                if e.get('k') == 'call' and (e.get('fn') in ('pthread_create', '_beginthreadex') or ((e.get('pq') or '') + '#' + (e.get('sig') or '')) in cre):
                    return 'created'
                if st == 'created':
                    if is_flag_store(e):
                        hits.append((e.get('l', 0), 'stores the finished flag'))
                    elif e.get('k') in ('call', 'construct') and ((e.get('pq') or '') + '#' + (e.get('sig') or '')) in wr and e.get('clsp') == 'asl::Thread':
                        tgt = e.get('obj')
                        on_this = tgt is not None and (strip(tgt).get('k') == 'this' or (strip(tgt).get('k') == 'un' and strip(strip(tgt)['e']).get('k') in ('this', 'var')))
                        if e.get('k') == 'call' and on_this:
                            hits.append((e.get('l', 0), 'calls %s on the thread object, which stores the finished flag' % e.get('pq')))
            return st
        reached, _ = cfgm.dataflow(cfg, 'start', step)
        ctx.evaluations += sum(len(v) for v in reached.values())
        role = f['n'] + (f['sig'] if f['n'] == 'run' else '') + ':no store to the finished flag after creation'
        if role in seen_roles:
            if hits:
                ctx.violation('C13.creator', f['pq'], role, fwhere(f, hits[0][0]), 'after creating the OS thread the creator %s: a thread that already finished is reported unfinished for ever (%s%s)' % (hits[0][1], f['q'], f['sig']))
            continue
        seen_roles.add(role)
        if hits:
            ctx.violation('C13.creator', f['pq'], role, fwhere(f, hits[0][0]), 'after creating the OS thread the creator %s: a thread that already finished is reported unfinished for ever (%s%s)' % (hits[0][1], f['q'], f['sig']))
        else:
            ctx.ok('C13.creator', f['pq'], role, fwhere(f), 'the flag is only initialised before the thread exists')
    ctx.floor('C13.creator', n, 5)


def check_context(ctx, prog):
    n = 0
    for f in prog.functions:
        if not f.get('body') or not (f.get('pq') or '').startswith('asl::Thread::'):
            continue
        locals_ctx = [v for s_ in ir.walk_stmts(f['body']) if s_.get('k') == 'decl' for v in s_['vars'] if 'Thread::Context<' in (T(f, v['t']).get('rec') or '') and f['n'] not in ('beginf', 'beginfN')]
        if not locals_ctx:
            continue
        n += 1
        ctx.analysed(f)
        cv = locals_ctx[0]
        cfg = cfgm.CFG(f)
        bad = []

        def waits_for_ready(g):
            """every path through the member g leaves it only after a branch on `ready` was taken on its true edge"""
            gc = cfgm.CFG(g)

            def ed(nd, lab, st):
                if nd.kind == 'br' and nd.e is not None and any(w.get('k') == 'mem' and w.get('f') == 'ready' for w in walk_expr(nd.e)) and lab is True:
                    return True
                return st
            r_, _ = cfgm.dataflow(gc, False, lambda nd, st: st, ed)
            ex = r_.get(gc.exit.id, set())
            return bool(ex) and all(ex)

        def step(nd, st):
            if nd.kind == 'ev' and nd.e is not None:
                e = nd.e
                if st == 'handed' and e.get('k') == 'call' and e.get('obj') is not None and strip_lv(e['obj']).get('k') == 'var' and strip_lv(e['obj']).get('id') == cv['id']:
                    for g in prog.fn(e.get('fn'), e.get('sig')):
                        if g.get('body') and waits_for_ready(g):
                            return 'seen'
                if e.get('k') == 'call' and (e.get('pq') or '') == 'asl::Thread::run' and any(w.get('k') == 'var' and w.get('id') == cv['id'] for a in e.get('a', []) for w in walk_expr(a)):
                    return 'hande'
            if nd.kind == 'dtor' and isinstance(nd.info, dict) and nd.info.get('id') == cv['id'] and st == 'handed':
                bad.append(nd.line)
            return st

        def edge(nd, lab, st):
            # leaving the spin loop `while (!s.ready) {}` on its false edge means ready was observed
            if nd.kind == 'br' and st == 'handed' and any(w.get('k') == 'mem' and w.get('f') == 'ready' and strip(w.get('b') or {}).get('id') == cv['id'] for w in walk_expr(nd.e)):
                c = strip(nd.e)
                # cfg splits `!x`: the branch node holds x itself; ready==true is the True edge of `s.ready`
                if lab is True:
                    return 'seen'
            return st
        reached, _ = cfgm.dataflow(cfg, 'start', step, edge)
        ctx.evaluations += sum(len(v) for v in reached.values())
        exits = reached.get(cfg.exit.id, set())
        # Context has a trivial destructor, so scope exit is not an event: require that no path reaches the loop back-edge or the exit in state 'handed'
        handed_at_exit = 'handed' in exits
        # within loops (parallel_for): the declaration is re-entered; check the state at the decl node
        redecl = any(nd.kind == 'decl' and nd.info.get('id') == cv['id'] and 'handed' in reached.get(nd.id, set()) for nd in cfg.nodes)
        ok = not handed_at_exit and not redecl and not bad
        ctx.check(ok, 'C13.context', f['pq'], f['n'] + ':wait for ready before the context dies', fwhere(f, cv['l']),
                  'every path from thread creation passes the wait on `ready` before the local context is left',
                  'a path leaves the scope of the local context handed to the new thread without having observed `ready`: the new thread copies from a dead stack object (%s)' % f['q'])
    ctx.floor('C13.context', n, 3)


def check_join(ctx, prog):
    n = 0
    for f in prog.functions:
        if not f.get('body') or f.get('pq') not in ('asl::Thread::parallel_for', 'asl::Thread::parallel_invoke'):
            continue
        n += 1
        ctx.analysed(f)
        cfg = cfgm.CFG(f)

        def step(nd, st):
            if nd.kind == 'decl' and T(cfg.f, nd.info['t']).get('rec') == 'asl::Thread' and nd.info.get('init') is not None:
                ini = strip(nd.info['init'])
                if ini.get('k') == 'construct' and ini.get('a'):
                    return ('created', st[1])
            if nd.kind != 'ev' or nd.e is None:
                return st
            e = nd.e
            if e.get('k') == 'new' and T(cfg.f, e.get('at')).get('rec') == 'asl::Thread':
                return ('created', st[1])
            if e.get('k') == 'call' and e.get('pq') == 'asl::Thread::join':
                return ('joined', 'joined')
            if e.get('k') == 'delete' and (e.get('dtorp') or '').startswith('asl::Thread'):
                if st[1] != 'joined':
                    return ('deleted-unjoined', st[1])
                return (st[0], 'start')
            return st
        # the joining loop runs over the container the created threads were put into: with a thread created it iterates at
        # least once, so its zero-iteration exit is infeasible in state 'created'
        join_loop_conds = set()
        scope = [f] + [h for h in prog.functions if h.get('body') and h is not f and (h.get('file') == f.get('file') or h.get('clsp') == f.get('clsp'))]
        for g_ in scope:
            for lp in ir.walk_stmts(g_['body']):
                if lp.get('k') in ('for', 'while') and lp.get('c') is not None and any(e.get('k') == 'call' and e.get('pq') == 'asl::Thread::join' for e in ir.stmt_exprs(lp['body'])):
                    for w in walk_expr(lp['c']):
                        join_loop_conds.add(id(w))

        def edge(nd, lab, st):
            if nd.kind == 'br' and st[0] == 'created' and id(nd.e) in join_loop_conds and lab is False:
                return None
            return st
        reached, _ = cfgm.dataflow(cfg, ('start', 'start'), cfgm.follow_helpers(prog, f, step, edge=edge), edge)
        ctx.evaluations += sum(len(v) for v in reached.values())
        exits = reached.get(cfg.exit.id, set())
        bad = [s_ for s_ in exits if s_[0] in ('created', 'deleted-unjoined')]
        anyc = any(s_[0] != 'start' for v in reached.values() for s_ in v)
        role = f['n'] + '(%d functions):join before return' % (len(f['params']) if f['n'] == 'parallel_invoke' else 1)
        ctx.check(anyc and not bad, 'C13.join', f['pq'], role, fwhere(f), 'threads started here are joined on every path to the return',
                  '%s can return (or delete a thread) without having joined the threads it started (%s)' % (f['n'], [s_[0] for s_ in bad]))
        # every thread object created here takes part in the join: a local Thread that is never mentioned again after its
        # declaration cannot have been joined (its destructor detaches it: the function returns while it still runs)
        if f['n'] == 'parallel_invoke':
            tvars = [v for s_ in ir.walk_stmts(f['body']) if s_.get('k') == 'decl' for v in s_['vars']
                     if T(f, v['t']).get('rec') == 'asl::Thread' and strip(v.get('init') or {}).get('k') == 'construct' and strip(v['init']).get('a')]
            used = set(w.get('id') for w in fn_exprs(f) if w.get('k') == 'var')
            lost = [v['n'] for v in tvars if v['id'] not in used]
            ctx.check(not lost, 'C13.join', f['pq'], f['n'] + '(%d functions):every started thread is joined' % len(f['params']), fwhere(f),
                      '%d thread object(s), each handed to the join' % len(tvars),
                      '%s starts the thread `%s` and never refers to it again: it is not joined, its destructor detaches it and %s returns while that function may still be running' % (f['q'], lost[0] if lost else '', f['n']))
    ctx.floor('C13.join', n, 4)
    # ThreadGroup start/join loop over all members
    m = 0
    for name, callee in (('start', 'start'), ('join', 'join')):
        for f in prog.pattern('asl::ThreadGroup::' + name):
            if not f.get('body'):
                continue
            m += 1
            ctx.analysed(f)
            loops = [s_ for s_ in ir.walk_stmts(f['body']) if s_.get('k') in ('for', 'while', 'do')]
            calls = [e for lp in loops for e in ir.stmt_exprs(lp) if e.get('k') == 'call' and (e.get('fn') or e.get('pq') or '').split('::')[-1] == callee]
            # the loop must be bounded by the member array (its length / end pointer), not by a constant
            bounded_by_members = any(any(w.get('k') == 'mem' and w.get('f') == '_threads' for w in walk_expr(q.expand(f, lp.get('c') or {}))) or lp.get('cv') or any(w.get('k') == 'mem' and w.get('f') == '_threads' for w in walk_expr((lp.get('init') or {}).get('vars', [{}])[0].get('init') or {})) if lp.get('init') and lp['init'].get('k') == 'decl' else any(w.get('k') == 'mem' and w.get('f') == '_threads' for w in walk_expr(q.expand(f, lp.get('c') or {}))) for lp in loops)
            ctx.check(bool(loops) and bool(calls), 'C13.join', f['pq'], 'ThreadGroup::%s:applies to every member' % name, fwhere(f), 'loop over _threads calling %s()' % callee,
                      'ThreadGroup::%s does not call %s() on every member thread' % (name, callee))
    ctx.floor('C13.join ThreadGroup', m, 2)


def check_partition(ctx, prog):
    fs = [f for f in prog.pattern('asl::Thread::parallel_for') if f.get('body')]
    if not fs:
        raise AnalysisBroken('parallel_for not instantiated')
    f = fs[0]
    ctx.analysed(f)
    i0, i1, fn_, nth = f['params'][0], f['params'][1], f['params'][2], f['params'][3]
    nvar = None
    for s_ in ir.walk_stmts(f['body']):
        if s_.get('k') == 'decl':
            for v in s_['vars']:
                if T(f, v['t']).get('int') and v.get('init') is not None and any(w.get('k') == 'var' and w.get('id') == nth['id'] for w in walk_expr(v['init'])):
                    nvar = v
    role = 'parallel_for:worker count'
    if nvar is None:
        ctx.undecided('C13.partition', f['pq'], role, fwhere(f), 'worker count variable not found')
        return
    bad = []
    try:
        for req in range(1, 6):
            for a in (-2, 0, 3):
                for ln in range(0, 7):
                    ev = bytesets.Evaluator(prog, f, {i0['id']: a, i1['id']: a + ln, nth['id']: req})
                    nv = ev.ev(nvar['init'])
                    ctx.evaluations += 1
                    if ln >= 1 and not (1 <= nv <= min(req, ln)):
                        bad.append((req, ln, nv))
                    if ln == 0 and nv > 0:
                        bad.append((req, ln, nv))
        ctx.check(not bad, 'C13.partition', f['pq'], role, fwhere(f, nvar['l']), 'n = `%s`: 1 <= n <= min(threads, length) on the whole grid' % pe(nvar['init']),
                  'worker count `%s` gives n=%d for %d requested threads and a range of %d indices: %s' % (pe(nvar['init']), bad[0][2] if bad else 0, bad[0][0] if bad else 0, bad[0][1] if bad else 0,
                                                                                                      'no worker runs, indices are never visited' if bad and bad[0][2] < 1 else 'more workers than indices/threads'))
    except bytesets.Undecidable as ex:
        ctx.undecided('C13.partition', f['pq'], role, fwhere(f, nvar['l']), 'worker count expression not evaluable: %s' % ex)
    # early exits: a return before the workers are spawned is only taken when the indices it leaves unvisited do not exist
    # (guards of each early return evaluated on the (i0, length, threads) grid; direct calls f(x) on that path are counted)
    import bounded
    G = q.Guarded(f)
    order = dict((id(x), i) for i, x in enumerate(G.order))
    runs = [e for e in fn_exprs(f) if e.get('k') == 'call' and e.get('pq') == 'asl::Thread::run']
    first_run = min([order.get(id(e), 10 ** 9) for e in runs] or [10 ** 9])
    direct = [e for e in fn_exprs(f) if e.get('k') == 'call' and e.get('op') == '()' and strip(e.get('obj') or {}).get('id') == fn_['id']]
    early = []
    for s_ in ir.walk_stmts(f['body']):
        if s_.get('k') == 'return':
            # position of a return statement: after every expression of the statements before it
            pos = max([order.get(id(x), -1) for x in G.order if x.get('l', 0) < s_.get('l', 0)] or [-1])
            if pos < first_run:
                early.append((s_, pos))
    role = 'parallel_for:no index is left unvisited by an early return'
    badr = None
    try:
        for s_, pos in early:
            for req in range(1, 6):
                for a in (-2, 0, 3):
                    for ln in range(0, 7):
                        ev = bounded.Bound(prog, f, {i0['id']: a, i1['id']: a + ln, nth['id']: req}, {})
                        ctx.evaluations += 1
                        if not bounded.admitted(ev, G.stmt_guards.get(id(s_), ()), G):
                            continue
                        calls = [e for e in direct if order.get(id(e), 10 ** 9) <= pos + 50 and e.get('l', 0) <= s_.get('l', 0) and bounded.admitted(ev, G.of(e), G)]
                        if ln > len(calls) and badr is None:
                            badr = (s_.get('l'), a, a + ln, req, len(calls))
        if early:
            ctx.check(badr is None, 'C13.partition', f['pq'], role, fwhere(f, badr[0] if badr else early[0][0].get('l')), '%d early return(s): each only when every index was visited' % len(early),
                      'parallel_for(%s, %s, f, %s) returns at line %s after %s direct call(s) of f: the remaining indices of the range are never visited' % ((badr[1], badr[2], badr[3], badr[0], badr[4]) if badr else (0, 0, 0, 0, 0)))
    except bytesets.Undecidable as ex:
        ctx.undecided('C13.partition', f['pq'], role, fwhere(f), 'guards of an early return not evaluable: %s' % ex)
    # spawn loop and context initialiser
    # the call that creates one worker: Thread::run itself, or a helper of Thread that builds the context and calls it
    def spawn_helper(e):
        if e.get('k') != 'call' or not e.get('fn') or e.get('pq') == 'asl::Thread::run':
            return None
        for h in prog.fn(e['fn'], e.get('sig')):
            if h.get('body') and (h.get('clsp') or h.get('cls') or '').startswith('asl::Thread') and any(w.get('k') == 'call' and w.get('pq') == 'asl::Thread::run' for w in fn_exprs(h)):
                return h
        return None
    loops = [s_ for s_ in ir.walk_stmts(f['body']) if s_.get('k') in ('for', 'while') and any(e.get('k') == 'call' and (e.get('pq') == 'asl::Thread::run' or spawn_helper(e) is not None) for e in ir.stmt_exprs(s_['body']))]
    if len(loops) != 1:
        ctx.undecided('C13.partition', f['pq'], 'parallel_for:spawn loop', fwhere(f), 'spawn loop not found')
        return
    lp = loops[0]
    helper_call = next((e for e in ir.stmt_exprs(lp['body']) if spawn_helper(e) is not None), None)
    helper = spawn_helper(helper_call) if helper_call is not None else None
    cl = q.counted_loop(f, lp)
    if cl is None:
        ctx.undecided('C13.partition', f['pq'], 'parallel_for:spawn loop runs worker indices 0..n-1', fwhere(f, lp['l']), 'spawn loop is not a recognised counting loop')
        return
    iv = {'id': cl['var']}
    okl = const_val(cl['init']) == 0 and cl['op'] == '<' and strip(cl['bound']).get('id') == nvar['id'] and cl['step'] == 1
    ctx.check(okl, 'C13.partition', f['pq'], 'parallel_for:spawn loop runs worker indices 0..n-1', fwhere(f, lp['l']), 'for (i = 0; i < n; i++)', 'spawn loop does not run the worker index over 0 .. n-1 (n = worker count): init `%s`, condition `%s %s %s`, step %s'
              % (pe(cl['init']), cl['name'], cl['op'], pe(cl['bound']), cl['step'] if isinstance(cl['step'], int) else pe(cl['step'])))
    inits = [v for s_ in ir.walk_stmts(lp['body']) if s_.get('k') == 'decl' for v in s_['vars'] if strip(v.get('init') or {}).get('k') == 'initlist']
    host_f = f
    if not inits and helper is not None:
        # the context is built inside the helper from its parameters: read it there and substitute the arguments of the call
        inits = [v for s_ in ir.walk_stmts(helper['body']) if s_.get('k') == 'decl' for v in s_['vars'] if strip(v.get('init') or {}).get('k') == 'initlist']
        host_f = helper
    if len(inits) == 1 and iv is not None:
        items = strip(inits[0]['init'])['items']
        if host_f is not f:
            amap = dict((p_['id'], a_) for p_, a_ in zip(helper['params'], helper_call.get('a', [])))

            def subst_(x):
                x = strip(q.expand(helper, x))
                if isinstance(x, dict) and x.get('k') == 'var' and x.get('id') in amap:
                    return strip(amap[x['id']])
                if isinstance(x, dict) and x.get('k') == 'bin':
                    y = dict(x)
                    y['x'], y['y'] = subst_(x['x']), subst_(x['y'])
                    return y
                return x
            items = [subst_(it) for it in items]
        rec = prog.records.get(T(host_f, inits[0]['t']).get('rec'))
        names = [fl['n'] for fl in rec['fields']] if rec else []
        byname = dict(zip(names, items))
        st = strip(byname.get('i0') or {})
        ok_start = st.get('k') == 'bin' and st.get('op') == '+' and {strip(st['x']).get('id'), strip(st['y']).get('id')} == {i0['id'], iv['id']}
        ok_end = strip(byname.get('i1') or {}).get('id') == i1['id']
        ok_stride = strip(byname.get('s') or {}).get('id') == nvar['id']
        ok_ready = const_val(byname.get('ready')) == 0
        ctx.check(ok_start and ok_end and ok_stride and ok_ready, 'C13.partition', f['pq'], 'parallel_for:context = (i0 + worker, i1, stride n, ready false)', fwhere(f, inits[0]['l']),
                  'start i0+i, end i1, stride n', 'worker context is not (start = i0 + i, end = i1, stride = n, ready = false): start ok=%s end ok=%s stride ok=%s ready ok=%s' % (ok_start, ok_end, ok_stride, ok_ready))
    else:
        ctx.undecided('C13.partition', f['pq'], 'parallel_for:context initialiser', fwhere(f), 'context aggregate initialiser not found')
    # worker loop
    ws = [g for g in prog.pattern('asl::Thread::beginfN') if g.get('body')]
    if not ws:
        raise AnalysisBroken('beginfN not instantiated')
    g = ws[0]
    ctx.analysed(g)
    loops = [s_ for s_ in ir.walk_stmts(g['body']) if s_.get('k') in ('for', 'while') and any(e.get('k') == 'call' and e.get('op') == '()' for e in ir.stmt_exprs(s_['body']))]
    okw = False
    host, argmap = g, {}
    if not loops:
        # the strided loop may live in a helper that receives the functor and the three bounds
        for c in fn_exprs(g):
            if c.get('k') == 'call' and c.get('fn') and c.get('op') != '()':
                for h in prog.fn(c['fn'], c.get('sig')):
                    hl = [s_ for s_ in ir.walk_stmts(h.get('body') or {}) if s_.get('k') in ('for', 'while') and any(e.get('k') == 'call' and e.get('op') == '()' for e in ir.stmt_exprs(s_['body']))]
                    if hl and not loops:
                        loops, host = hl, h
                        argmap = dict((p_['id'], a_) for p_, a_ in zip(h['params'], c.get('a', [])))
    if len(loops) == 1:
        cl = q.counted_loop(host, loops[0])
        if cl is None:
            ctx.undecided('C13.partition', g['pq'], 'beginfN:iterates start + k*stride < end calling f(i) once', fwhere(host, loops[0]['l']), 'worker loop is not a recognised counting loop')
            return
        def fld(x):
            if not isinstance(x, dict):
                return None
            x = strip(q.expand(host, x))
            if x.get('k') == 'var' and x.get('id') in argmap:
                x = strip(q.expand(g, argmap[x['id']]))
            return x.get('f')
        def is_functor(o):
            o = strip(o)
            if o.get('k') == 'var' and o.get('id') in argmap:
                o = strip(q.expand(g, argmap[o['id']]))
            return o.get('f') == 'f'
        calls = [e for st in cl['body'] for e in ir.stmt_exprs(st) if e.get('k') == 'call' and e.get('op') == '()' and is_functor(e['obj'])]
        okw = (fld(cl['init']) == 'i0' and cl['op'] == '<' and fld(cl['bound']) == 'i1' and fld(cl['step']) == 's' and len(calls) == 1 and strip(calls[0]['a'][0]).get('id') == cl['var'])
    elif not loops:
        ctx.undecided('C13.partition', g['pq'], 'beginfN:iterates start + k*stride < end calling f(i) once', fwhere(g), 'worker loop not found (neither in beginfN nor in a helper it calls)')
        return
    ctx.check(okw, 'C13.partition', g['pq'], 'beginfN:iterates start + k*stride < end calling f(i) once', fwhere(g), 'for (i = s.i0; i < s.i1; i += s.s) s.f(i)',
              'beginfN does not iterate `for (i = start; i < end; i += stride) f(i)` over the context it was given')


def check_wrappers(ctx, prog):
    def one(name, sig=None):
        fs = [f for f in prog.fn(name, sig) if f.get('body')]
        if not fs:
            raise AnalysisBroken('anchor %s%s not found' % (name, sig or ''))
        ctx.analysed(fs[0])
        return fs[0]

    def subst(e, env):
        """e with the parameters in env replaced by the argument expressions of the call site"""
        if not isinstance(e, dict) or not env:
            return e
        if e.get('k') == 'var' and e.get('id') in env:
            return env[e['id']]
        out = dict(e)
        for key in ir.EXPR_CHILD_KEYS:
            if isinstance(e.get(key), dict):
                out[key] = subst(e[key], env)
        for key in ir.EXPR_LIST_KEYS:
            if isinstance(e.get(key), list):
                out[key] = [subst(x, env) if isinstance(x, dict) else x for x in e[key]]
        return out

    def lib_calls(f, env=None, depth=2):
        """the sem_* / pthread_* calls f makes, directly or in a helper of the same file / class; arguments are read through
        single-assignment locals and helper parameters (each returned call carries them in 'a')"""
        out = []
        for e in fn_exprs(f):
            if e.get('k') != 'call':
                continue
            if not e.get('clsp') and (e.get('fn') or '').startswith(('sem_', 'pthread_')):
                c_ = dict(e)
                c_['a'] = [subst(q.expand(f, a), env) for a in e.get('a', [])]
                out.append(c_)
            elif depth > 0 and e.get('fn'):
                for h in prog.fn(e['fn'], e.get('sig')):
                    if h.get('body') and h is not f and (h.get('file') == f.get('file') or (h.get('clsp') and h.get('clsp') == f.get('clsp'))):
                        env2 = dict((p_['id'], subst(q.expand(f, a), env)) for p_, a in zip(h['params'], e.get('a', [])))
                        out += lib_calls(h, env2, depth - 1)
                        break
        return out
    f = one('asl::Semaphore::post', '()')
    c = lib_calls(f)
    ctx.check(len(c) == 1 and c[0]['fn'] == 'sem_post', 'C13.wrappers', f['pq'], 'Semaphore::post():one sem_post', fwhere(f), 'one sem_post', 'Semaphore::post() does not call sem_post exactly once')
    f = one('asl::Semaphore::post', '(int)')
    loops = [s_ for s_ in ir.walk_stmts(f['body']) if s_.get('k') in ('for', 'while')]
    okk = False
    if len(loops) == 1:
        cl = q.counted_loop(f, loops[0])
        if cl is None:
            ctx.undecided('C13.wrappers', f['pq'], 'Semaphore::post(n):n posts', fwhere(f), 'post loop is not a recognised counting loop')
        else:
            def is_post(e):
                return e.get('k') == 'call' and (e.get('fn') == 'sem_post' or (e.get('pq') == 'asl::Semaphore::post' and not e.get('a')))
            posts = [e for st in cl['body'] for e in ir.stmt_exprs(st) if is_post(e)]
            other_posts = [e for e in fn_exprs(f) if is_post(e) and e not in posts]
            pid = f['params'][0]['id']
            okk = len(posts) == 1 and not other_posts and isinstance(cl['step'], int)
            if okk:
                try:
                    for nv in range(-1, 7):
                        ev = bytesets.Evaluator(prog, f, {pid: nv})
                        tc = q.trip_count(ev.ev(cl['init']), cl['op'], ev.ev(cl['bound']), cl['step'])
                        ctx.evaluations += 1
                        if tc != max(0, nv):
                            okk = False
                except bytesets.Undecidable:
                    okk = False
    if len(loops) != 1 or cl is not None:
        ctx.check(okk, 'C13.wrappers', f['pq'], 'Semaphore::post(n):n posts', fwhere(f), 'loop of n sem_post', 'Semaphore::post(n) does not post exactly n times (a lost post leaves a waiter blocked)')
    f = one('asl::Semaphore::wait', '()')
    c = lib_calls(f)
    ctx.check(len(c) == 1 and c[0]['fn'] == 'sem_wait', 'C13.wrappers', f['pq'], 'Semaphore::wait():one sem_wait', fwhere(f), 'one sem_wait', 'Semaphore::wait() does not call sem_wait exactly once')
    def reports_success_of(f, libfn, role, ok_text, bad_text):
        """the boolean the wrapper returns is exactly (return value of the one library call == 0): decided by evaluating the
        wrapper's return paths with the call bound to 0 and to -1"""
        c = lib_calls(f)
        if len(c) != 1 or c[0]['fn'] != libfn:
            ctx.violation('C13.wrappers', f['pq'], role, fwhere(f), bad_text + ' (library calls: %s)' % [x['fn'] for x in c])
            return
        body = f['body']['s'] if f['body'].get('k') == 'block' else [f['body']]
        res = {}
        for rv in (0, -1):
            ev = bounded.Bound(prog, f, {}, {pe(c[0]): rv})
            r = bounded.result3(ev, body)
            res[rv] = None if r is bounded.FALL else r
            ctx.evaluations += 1
        if res[0] is True and res[-1] is False:
            ctx.ok('C13.wrappers', f['pq'], role, fwhere(f), ok_text)
            return
        uses_errno = any(e.get('k') == 'call' and e.get('fn') == '__errno_location' for e in fn_exprs(f))
        if (res[0] is None or res[-1] is None) and not uses_errno and not (res[0] is False or res[-1] is True):
            ctx.undecided('C13.wrappers', f['pq'], role, fwhere(f), 'result of the wrapper not evaluable from the return value of %s' % libfn)
            return
        ctx.violation('C13.wrappers', f['pq'], role, fwhere(f), bad_text + ' (wrapper result when %s returns 0: %s, when it fails: %s%s)' % (
            libfn, res[0], res[-1], '; consults errno' if uses_errno else ''))
    f = one('asl::Semaphore::wait', '(double)')
    reports_success_of(f, 'sem_timedwait', 'Semaphore::wait(timeout):success is the return value of sem_timedwait', 'returns true iff sem_timedwait(..) returned 0',
                       'Semaphore::wait(timeout) does not report success from the return value of sem_timedwait (errno is only meaningful after a failure): a post that was taken can be reported as a timeout, i.e. lost')
    f = one('asl::Semaphore::trywait')
    reports_success_of(f, 'sem_trywait', 'Semaphore::trywait():success is the return value of sem_trywait', 'returns true iff sem_trywait(..) returned 0', 'Semaphore::trywait() does not report success from the return value of sem_trywait')
    f = one('asl::Condition::wait', '()')
    c = lib_calls(f)
    okk = len(c) == 1 and c[0]['fn'] == 'pthread_cond_wait' and any(w.get('k') == 'mem' and w.get('f') == '_mutex' for w in walk_expr(c[0]['a'][1])) and any(w.get('k') == 'mem' and w.get('f') == '_cond' for w in walk_expr(c[0]['a'][0]))
    ctx.check(okk, 'C13.wrappers', f['pq'], 'Condition::wait():waits on its condition with the mutex given to use()', fwhere(f), 'pthread_cond_wait(&_cond, &_mutex->_mutex)', 'Condition::wait() does not wait on its own condition variable with the associated mutex')
    f = one('asl::Condition::use')
    st = [e for e in fn_exprs(f) if e.get('k') == 'bin' and e.get('op') == '=' and strip_lv(e['x']).get('f') == '_mutex' and strip(e['y']).get('op') == '&' and strip(strip(e['y'])['e']).get('id') == f['params'][0]['id']]
    ctx.check(len(st) == 1, 'C13.wrappers', f['pq'], 'Condition::use():records the mutex', fwhere(f), '_mutex = &m', 'Condition::use() does not record the address of the mutex it is given')
    if len(st) == 1:
        # ... on every path: a use() that keeps an earlier mutex makes the waiter block on one mutex while holding another
        ucfg = cfgm.CFG(f)

        def ustep(nd, st_):
            return True if nd.kind == 'ev' and nd.e is not None and any(w is st[0] for w in walk_expr(nd.e)) else st_
        ureached, _ = cfgm.dataflow(ucfg, False, ustep)
        uex = ureached.get(ucfg.exit.id, set())
        ctx.check(False not in uex, 'C13.wrappers', f['pq'], 'Condition::use():the mutex is recorded on every path', fwhere(f, st[0]['l']), 'every path through use() stores `_mutex = &m`',
                  'Condition::use() keeps a mutex recorded earlier on some path: a waiter that locks the new mutex waits with the old one, never releases the new one, and the signaller blocks for ever')
    # the Context handed to a lambda thread is copied by the worker before the creator moves on: every member must be a value
    # (a reference member copies only the reference - the function object then lives in the creator's expired temporary)
    nref = 0
    for rq, rec in prog.records.items():
        if 'Thread::Context<' not in rq:
            continue
        nref += 1
        refs = [fl['n'] for fl in rec.get('fields', []) if T(rec, fl['t']).get('ref')]
        if 'C13.context:members by value' in [o.role for o in ctx.obligations if o.rule == 'C13.context'] and not refs:
            continue
        ctx.check(not refs, 'C13.context', 'asl::Thread::Context', 'C13.context:members by value', '%s:%s' % (rec.get('file', ''), rec.get('line', 0)), 'the context holds the function object and the range by value',
                  'Thread::Context holds `%s` by reference: the worker copies the reference, not the function object, and runs it after the creator\'s temporary is gone (%s)' % (', '.join(refs), rq))
    ctx.floor('C13.context record instantiations', nref, 1)
    f = one('asl::Condition::signal')
    c = lib_calls(f)
    ctx.check(len(c) == 1 and c[0]['fn'] in ('pthread_cond_broadcast',), 'C13.wrappers', f['pq'], 'Condition::signal():wakes all waiters', fwhere(f), 'pthread_cond_broadcast', 'Condition::signal() does not broadcast: waiters other than the first never see the signal')
    # signal() reaches the broadcast on every path; a signal skipped on some condition over member state (a waiter count) is
    # lost unless every wait variant maintains that state before it blocks
    fsig = f
    gs = cfgm.CFG(fsig)

    def st_sig(nd, st):
        if nd.kind == 'ev' and nd.e is not None and nd.e.get('k') == 'call' and (nd.e.get('fn') or '') in ('pthread_cond_broadcast', 'pthread_cond_signal'):
            return True
        return st
    rs, _ = cfgm.dataflow(gs, False, cfgm.follow_helpers(prog, fsig, st_sig))
    exs = rs.get(gs.exit.id, set())
    role = 'Condition::signal():no path skips the wake-up'
    if exs and all(exs):
        ctx.ok('C13.wrappers', fsig['pq'], role, fwhere(fsig), 'every path through signal() wakes the waiters')
    else:
        guard_fields = set(w.get('f') for nd in gs.nodes if nd.kind == 'br' and nd.e is not None for w in walk_expr(nd.e) if w.get('k') == 'mem' and w.get('f'))
        waits = [g for g in prog.functions if g.get('cls') == 'asl::Condition' and g.get('body') and any(c_['fn'] in ('pthread_cond_wait', 'pthread_cond_timedwait') for c_ in lib_calls(g))]
        lacking = []
        for g in waits:
            written = set()
            for e in q.fn_exprs_inlined(prog, g):
                tgt = None
                if e.get('k') == 'bin' and e.get('op', '').endswith('=') and e['op'] not in ('==', '!=', '<=', '>='):
                    tgt = strip_lv(e['x'])
                elif e.get('k') == 'un' and e.get('op') in ('post++', 'post--', 'pre++', 'pre--'):
                    tgt = strip_lv(e['e'])
                if tgt is not None and tgt.get('k') == 'mem':
                    written.add(tgt.get('f'))
            if not guard_fields or not guard_fields <= written:
                lacking.append(g)
        if not lacking and waits:
            ctx.ok('C13.wrappers', fsig['pq'], role, fwhere(fsig), 'signal() is conditional on %s, which every wait variant maintains' % sorted(guard_fields))
        else:
            ctx.violation('C13.wrappers', fsig['pq'], role, fwhere(fsig), 'a path through signal() skips the wake-up (condition over %s) and %s does not maintain that state before blocking: a signal issued while only such waiters are blocked is lost (they sleep until their timeout)' % (
                sorted(guard_fields) or 'non-member state', ', '.join('%s%s' % (g['n'], g['sig']) for g in lacking) or 'no wait variant'))
    # join(): pthread_join on the handle
    f = one('asl::Thread::join')
    c = lib_calls(f)
    ctx.check(len(c) == 1 and c[0]['fn'] == 'pthread_join' and strip(c[0]['a'][0]).get('f') == '_thread', 'C13.wrappers', f['pq'], 'Thread::join():joins its own handle', fwhere(f), 'pthread_join(_thread, ..)', 'Thread::join() does not pthread_join its own handle')


def check_owner(ctx, prog):
    """C13.owner: one Thread object owns an OS handle.  The destructor detaches (POSIX) / closes (Windows) a non-zero handle and
    join() on a detached handle returns at once, so a member that copies the handle of another Thread (`Thread(const Thread&)`,
    `operator=`) must take it away from the source on every path: afterwards the source holds 0.  Decided on the CFG of every
    Thread member with a Thread reference parameter whose `_thread` it copies; the reset may sit in a helper called on the
    source."""
    n = 0
    for f in prog.functions:
        if f.get('cls') != 'asl::Thread' or not f.get('body') or not f.get('params'):
            continue
        srcs = [p_ for p_ in f['params'] if T(f, p_['t']).get('ref') and T(f, T(f, p_['t']).get('to')).get('rec') == 'asl::Thread']
        if len(srcs) != 1:
            continue
        src = srcs[0]

        def on_src(m):
            """member expression `_thread` of the source parameter (through const_cast / reference casts)"""
            m = strip_lv(m)
            if m.get('k') != 'mem' or m.get('f') != '_thread':
                return False
            b = strip_lv(m.get('b') or {})
            while b.get('k') in ('cast', 'paren'):
                b = strip_lv(b['e'])
            return b.get('k') == 'var' and b.get('id') == src['id']

        def on_this(m):
            m = strip_lv(m)
            return m.get('k') == 'mem' and m.get('f') == '_thread' and strip_lv(m.get('b') or {'k': 'this'}).get('k') == 'this'

        copies = [i_ for i_ in (f.get('inits') or []) if i_.get('field') == '_thread' and any(on_src(w) for w in walk_expr(i_.get('e') or {}))]
        copies += [e for e in fn_exprs(f) if e.get('k') == 'bin' and e.get('op') == '=' and on_this(e['x']) and any(on_src(w) for w in walk_expr(e['y']))]
        if not copies:
            continue
        n += 1
        ctx.analysed(f)

        def resets_own_handle(g, depth=0):
            """every path through member g stores 0 to this->_thread"""
            gc = cfgm.CFG(g)

            def st_(nd, st):
                if nd.kind == 'ev' and nd.e is not None and nd.e.get('k') == 'bin' and nd.e.get('op') == '=' and on_this_g(nd.e['x']) and const_val(nd.e['y']) == 0:
                    return True
                return st

            def on_this_g(m):
                m = strip_lv(m)
                while m.get('k') in ('cast', 'paren'):
                    m = strip_lv(m['e'])
                if m.get('k') != 'mem' or m.get('f') != '_thread':
                    return False
                b = strip_lv(m.get('b') or {'k': 'this'})
                while b.get('k') in ('cast', 'paren'):
                    b = strip_lv(b['e'])
                if b.get('k') == 'un' and b.get('op') == '*':
                    b = strip_lv(b['e'])
                    while b.get('k') in ('cast', 'paren'):
                        b = strip_lv(b['e'])
                return b.get('k') == 'this'
            r_, _ = cfgm.dataflow(gc, False, st_)
            ex = r_.get(gc.exit.id, set())
            return bool(ex) and all(ex)

        def step(nd, st):
            if nd.kind != 'ev' or nd.e is None:
                return st
            e = nd.e
            if e.get('k') == 'bin' and e.get('op') == '=' and on_src(e['x']) and const_val(e['y']) == 0:
                return True
            if e.get('k') == 'call' and e.get('obj') is not None:
                o = strip_lv(e['obj'])
                while o.get('k') in ('cast', 'paren'):
                    o = strip_lv(o['e'])
                if o.get('k') == 'var' and o.get('id') == src['id']:
                    for g in prog.fn(e.get('fn'), e.get('sig')):
                        if g.get('body') and resets_own_handle(g):
                            return True
            return st
        g_ = cfgm.CFG(f)
        reached, _ = cfgm.dataflow(g_, False, step)
        ctx.evaluations += sum(len(x) for x in reached.values())
        ex = reached.get(g_.exit.id, set())
        role = '%s%s:the handle is taken from the source' % (f['n'], f['sig'])
        ctx.check(bool(ex) and all(ex), 'C13.owner', f['pq'], role, fwhere(f), 'after copying `%s._thread` the source is left with 0 on every path' % src.get('n'),
                  '%s%s copies the OS handle of `%s` but a path leaves the source holding it too: two Thread objects own one handle, the destructor of either detaches it and join() on the other returns '
                  'immediately while the task is still running (parallel_invoke joins through such copies)' % (f['n'], f['sig'], src.get('n')))
    ctx.floor('C13.owner members copying a handle', n, 1)


def check_native_init(ctx, prog):
    """C13.init: every public constructor of the thin wrappers (Mutex, Semaphore, Condition) initialises the native object it
    wraps - by a member initialiser, an assignment, or a call of an `*_init` function on its address (helpers followed).  A
    constructor that leaves `pthread_cond_t` / `sem_t` as the memory happened to be works in zeroed storage and hangs or loses
    signals anywhere else; sibling constructors must agree."""
    n = 0
    for rq in ('asl::Condition', 'asl::Semaphore', 'asl::Mutex', 'asl::RWLock'):
        rec = prog.records.get(rq)
        if not rec:
            continue
        native = [fl['n'] for fl in rec.get('fields', []) if any(t_ in (T(rec, fl['t']).get('s') or '') for t_ in ('pthread_', 'sem_t', 'CRITICAL_SECTION', 'HANDLE'))]
        if not native:
            continue
        for f in prog.functions:
            if f.get('cls') != rq or f.get('kind') != 'ctor' or not f.get('body') or f.get('implicit') or f.get('acc') in ('private', 'protected'):
                continue
            if len(f['params']) == 1 and T(f, T(f, f['params'][0]['t']).get('to') or f['params'][0]['t']).get('rec') == rq:
                continue                # copy constructor
            n += 1
            ctx.analysed(f)
            for fld in native:
                done = any(i_.get('field') == fld and i_.get('written') for i_ in (f.get('inits') or []))
                for e in q.fn_exprs_inlined(prog, f):
                    if done:
                        break
                    if e.get('k') == 'bin' and e.get('op') == '=' and strip_lv(e['x']).get('k') == 'mem' and strip_lv(e['x']).get('f') == fld:
                        done = True
                    if e.get('k') == 'call' and e.get('op') == '=' and e.get('obj') is not None and strip_lv(e['obj']).get('k') == 'mem' and strip_lv(e['obj']).get('f') == fld:
                        done = True         # assignment of a structure (`_mutex = mutex_init`): the implicit operator=
                    if e.get('k') == 'call' and ((e.get('fn') or '').endswith('_init') or (e.get('fn') or '').startswith(('Initialize', 'Create'))):
                        for a in e.get('a', []):
                            a_ = strip(a)
                            while a_.get('k') in ('cast', 'paren'):
                                a_ = strip(a_['e'])
                            if a_.get('k') == 'un' and a_.get('op') == '&' and strip_lv(a_['e']).get('k') == 'mem' and strip_lv(a_['e']).get('f') == fld:
                                done = True
                    if e.get('k') == 'call' and e.get('fn') in ('memset', 'memcpy') and e.get('a'):
                        a_ = strip(e['a'][0])
                        while a_.get('k') in ('cast', 'paren'):
                            a_ = strip(a_['e'])
                        if a_.get('k') == 'un' and a_.get('op') == '&' and strip_lv(a_['e']).get('f') == fld:
                            done = True
                role = '%s%s:native object `%s` initialised' % (f['n'], f['sig'], fld)
                ctx.check(done, 'C13.init', f['pq'], role, fwhere(f), 'initialised by a member initialiser / assignment / *_init call', '%s%s leaves the native object `%s` uninitialised (a sibling constructor initialises it): in memory that is not all zero the first wait() / signal() blocks inside the C library or loses the signal' % (f['n'], f['sig'], fld))
    ctx.floor('C13.init public constructors of native wrappers', n, 3)



CREATE_CALLS = ('pthread_create', '_beginthreadex', 'CreateThread', '_beginthread')


def check_start(ctx, prog):
    """C13.start: run-exactly-once per start() needs a thread per start(): on every path from the entry of Thread::start() and of
    each run(function, ...) overload to a normal exit an OS thread creation call is passed (class helpers followed).  Paths that
    end in the allocation-failure handler leave by throwing and are not exits."""
    n = 0
    for f in prog.functions:
        if f.get('pq') not in ('asl::Thread::start', 'asl::Thread::run') or not f.get('body') or f.get('static'):
            continue
        if f['n'] == 'run' and not f['params']:
            continue                    # the virtual body, not a starter
        if f['n'] == 'start' and f['params']:
            continue
        cfg = cfgm.CFG(f)

        def step(nd, st):
            if nd.kind == 'ev' and nd.e is not None:
                for w in walk_expr(nd.e):
                    if w.get('k') == 'call' and (w.get('fn') or '').split('::')[-1] in CREATE_CALLS:
                        return True
            return st
        reached, _ = cfgm.dataflow(cfg, False, cfgm.follow_helpers(prog, f, step))
        exits = reached.get(cfg.exit.id, set())
        ctx.evaluations += sum(len(v) for v in reached.values())
        role = f['n'] + f['sig'] + ':every call creates a thread'
        if role in [o.role for o in ctx.obligations if o.rule == 'C13.start']:
            continue
        n += 1
        ctx.analysed(f)
        if not exits:
            ctx.undecided('C13.start', f['pq'], role, fwhere(f), 'no path reaches the exit')
        else:
            ctx.check(False not in exits, 'C13.start', f['pq'], role, fwhere(f), 'no path from entry to exit avoids the thread creation call',
                      '%s%s can return without creating a thread (an early return or a guarded creation): run() executes 0 times for that start(), and a later join() returns without its effects' % (f['n'], f['sig']))
    ctx.floor('C13.start', n, 2)



def check_deadline(ctx, prog):
    """C13.deadline: see the module text.  The wait function is interpreted (scansim) with the clock stubbed (now() / inow() /
    clock_gettime / gettimeofday agree on one instant) and the native timed wait replaced by a recorder of its timespec."""
    import scansim, math
    n = 0
    nows = (1000.0, 1000.25, 1000.5, 1000.75, 1000.999999, 1700000000.9)
    timeouts = (0.0, 0.001, 0.25, 0.35, 0.5, 0.75, 0.999999, 1.0, 1.25, 2.0, 10.5)
    for f in prog.functions:
        if not f.get('body') or f.get('n') != 'wait' or len(f['params']) != 1 or not T(f, f['params'][0]['t']).get('flt'):
            continue
        if f.get('cls') not in ('asl::Semaphore', 'asl::Condition'):
            continue
        if not any(e.get('k') == 'call' and (e.get('fn') or '').endswith('_timedwait') for e in q.fn_exprs_inlined(prog, f)):
            continue
        role = '%s::wait(timeout):deadline = now + timeout, normalised' % f['cls'].split('::')[-1]
        if role in [o.role for o in ctx.obligations if o.rule == 'C13.deadline']:
            continue
        n += 1
        ctx.analysed(f)
        bad = und = None
        runs = 0
        for nw in nows:
            for to_ in timeouts:
                got = {}

                def timed(run, e, args, got=got):
                    ts = [a for a in args if isinstance(a, tuple) and a[0] == 'R']
                    if len(ts) != 1:
                        raise scansim.Unsupported('timespec argument of the timed wait not a local structure')
                    got['ts'] = dict(run.recs[ts[0][1]])
                    return 0

                def gettime(run, e, args, nw=nw):
                    ts = [a for a in args if isinstance(a, tuple) and a[0] == 'R']
                    if not ts:
                        raise scansim.Unsupported('clock structure')
                    rec = run.recs[ts[0][1]]
                    rec['tv_sec'] = int(math.floor(nw))
                    frac = nw - math.floor(nw)
                    if (e.get('fn') or '').endswith('gettimeofday'):
                        rec['tv_usec'] = int(round(frac * 1e6))
                    else:
                        rec['tv_nsec'] = int(round(frac * 1e6)) * 1000
                    return 0
                ext = {'now': lambda r, e, a, nw=nw: nw, 'asl::now': lambda r, e, a, nw=nw: nw,
                       'inow': lambda r, e, a, nw=nw: int(round(nw * 1e6)), 'asl::inow': lambda r, e, a, nw=nw: int(round(nw * 1e6)),
                       'floor': lambda r, e, a: float(math.floor(a[0])), 'ceil': lambda r, e, a: float(math.ceil(a[0])),
                       'fmod': lambda r, e, a: math.fmod(a[0], a[1]), 'clock_gettime': gettime, 'gettimeofday': gettime,
                       'sem_timedwait': timed, 'pthread_cond_timedwait': timed}
                try:
                    rn = scansim.Run(prog, f, {}, int_params={f['params'][0]['id']: to_}, mems={}, externs=ext, objects=True, methods={'*': 'interp'})
                    # pointer members to other wrappers (Condition::_mutex): an opaque record whose native field is only passed on
                    rcd = prog.records.get(f['cls']) or {}
                    for fl in rcd.get('fields', []):
                        if T(rcd, fl['t']).get('ptr'):
                            rn.recs['peer:' + fl['n']] = scansim.PodRecord()
                            rn.mems[fl['n']] = ('R', 'peer:' + fl['n'])
                    rn.run()
                except scansim.Unsupported as u:
                    und = str(u)
                    break
                except (scansim.OOB, TypeError, KeyError, ValueError, ZeroDivisionError) as u:
                    und = 'interpretation failed: %s' % u
                    break
                runs += 1
                ts = got.get('ts')
                if ts is None:
                    und = 'the timed wait was not reached (now %s, timeout %s)' % (nw, to_)
                    break
                sec, ns = ts.get('tv_sec'), ts.get('tv_nsec')
                if not isinstance(sec, int) or not isinstance(ns, int):
                    bad = (nw, to_, 'tv_sec / tv_nsec are %r / %r (not set to integers)' % (sec, ns))
                elif not 0 <= ns < 1000000000:
                    bad = (nw, to_, 'tv_nsec = %d is outside [0, 999999999]: the call fails at once with EINVAL instead of waiting' % ns)
                elif abs(sec + ns * 1e-9 - (nw + to_)) > 5e-6:
                    bad = (nw, to_, 'the deadline is %d s + %d ns, now + timeout is %.6f' % (sec, ns, nw + to_))
                if bad:
                    break
            if bad or und:
                break
        # what the wait reports comes from the operating system's answer, not from the clock: the same call interpreted with the
        # native wait returning 0 (signalled / acquired) and its time-out code must give different results
        if not bad and not und:
            outs = {}
            for code in (0, 110):
                def timed2(run, e, args, code=code):
                    return code if (e.get('fn') or '').startswith('pthread') else (0 if code == 0 else -1)
                ext2 = dict(ext)
                ext2['sem_timedwait'] = timed2
                ext2['pthread_cond_timedwait'] = timed2
                try:
                    rn = scansim.Run(prog, f, {}, int_params={f['params'][0]['id']: 0.5}, mems={}, externs=ext2, objects=True, methods={'*': 'interp'})
                    rcd = prog.records.get(f['cls']) or {}
                    for fl in rcd.get('fields', []):
                        if T(rcd, fl['t']).get('ptr'):
                            rn.recs['peer:' + fl['n']] = scansim.PodRecord()
                            rn.mems[fl['n']] = ('R', 'peer:' + fl['n'])
                    outs[code] = rn.run()
                    runs += 1
                except (scansim.Unsupported, scansim.OOB, TypeError, KeyError, ValueError) as u:
                    outs = None
                    break
            if outs is not None and bool(outs[0]) == bool(outs[110]):
                bad = (1000.999999, 0.5, 'the function returns %s whether the native timed wait reports success or its time-out: a waiter woken by a signal (or timing out) is told the opposite' % bool(outs[0]))
        ctx.evaluations += runs
        if bad:
            ctx.violation('C13.deadline', f['pq'], role, fwhere(f), 'with the clock at %.6f s and a timeout of %s s: %s' % bad)
        elif und:
            ctx.undecided('C13.deadline', f['pq'], role, fwhere(f), 'outside the interpreted fragment: %s' % und)
        else:
            ctx.ok('C13.deadline', f['pq'], role, fwhere(f), '%d (clock, timeout) pairs: 0 <= tv_nsec < 10^9 and tv_sec + tv_nsec/10^9 = now + timeout' % runs)
    ctx.floor('C13.deadline', n, 2)
