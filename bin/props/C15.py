"""C15 - Base64 / hex / percent-encoding / SHA-1: structural clauses decided statically.

 C15.tables   the Base64 alphabet is RFC 4648, the inverse table has 256 entries and inverts it on all 64 symbols, encoder indices
              are masked to 6 bits; the hex nibble table has 16 valid digits indexed by 4-bit values
 C15.urlset   exact byte sets of Url::encode in both modes: '%' is always escaped; in component mode & = + are escaped too; every
              escaped byte is written as '%' + two digits of the nibble table, which strtoul(..,16) inverts; parseQuery splits on
              characters that params() escapes
 C15.stride   block loops: encodeBase64 reads data[i+1], data[i+2] only under i+j < n; decodeHex and SHA1::update consume exactly the
              full blocks (loop bound i + (B-1) < N for stride B)
 C15.decode   Url::decode look-ahead is dominated by the length guard; decodeBase64 stops at the given length, sizes its result from
              the same length, counts '=' padding across interleaved whitespace, and never resizes to a negative length
 SHA-1 = FIPS 180-4 for every message and full Base64 round trips are not decided."""
import os
import ir, q, bytesets, bounded, bits
from ir import strip, strip_lv, const_val, T, pe, walk_expr, fn_exprs, AnalysisBroken
from core import fwhere

RFC4648 = 'ABCDEFGHIJKLMNOPQRSTUVWXYZabcdefghijklmnopqrstuvwxyz0123456789+/'


def run(ctx):
    units = [os.path.join(ir.REPO, 'src', x) for x in ('util.cpp', 'Http.cpp', 'SHA1.cpp')]
    if ctx.tier == 'thorough':
        units += [u for u in ir.library_units() if u not in units]
    prog = ir.load_units(units)
    ctx.use_program(prog)
    check_tables(ctx, prog)
    check_urlset(ctx, prog)
    check_sha_padding(ctx, prog)
    check_stride(ctx, prog)
    check_decode(ctx, prog)
    # Url::parseQuery(Url::params(d)) = d rests on String::split(sep1, sep2): keys and values are cut at the first separator, an
    # empty value is a value
    import C03
    sp = ir.load_units([os.path.join(ir.REPO, 'src', 'String.cpp')]) if not any(f.get('pq') == 'asl::String::trimmed' and f.get('body') for f in prog.functions) else prog
    C03.check_split_dic(ctx, sp, rule='C15.query')
    check_join_empty(ctx, prog)
    return __doc__.split('\n\n', 1)[1]


def fn1(prog, name, sig=None):
    fs = [f for f in prog.fn(name, sig) if f.get('body')]
    if not fs:
        raise AnalysisBroken('anchor %s not found' % name)
    return fs[0]


_INV = {}


def inverse_map(prog):
    """The symbol-to-value mapping decodeBase64 applies to the bytes of its text: a constant table indexed by the byte or a
    one-argument helper, recognised by what it does (it maps at least half of the alphabet back to the symbol's index), not by
    its name.  Returns (values for the bytes 0..len-1, predicate on look-up expressions, name, where)."""
    if id(prog) in _INV:
        return _INV[id(prog)]
    g = prog.globals.get('asl::base64_chars')
    alpha = bytes(g['init']['b']).decode('latin-1') if g and g.get('init', {}).get('k') == 'str' else RFC4648
    cands = {}
    for f in prog.fn('asl::decodeBase64'):
        if not f.get('body'):
            continue
        for e in fn_exprs(f):
            if e.get('k') == 'idx' and strip(e['b']).get('q') in prog.globals and prog.globals[strip(e['b'])['q']].get('vals') is not None:
                cands[('table', strip(e['b'])['q'])] = None
            elif e.get('k') == 'call' and len(e.get('a') or []) == 1 and e.get('fn'):
                hs = [h for h in prog.fn(e['fn']) if h.get('body') and len(h.get('params') or []) == 1]
                if len(hs) == 1:
                    cands[('fn', e['fn'])] = hs[0]
    best = None
    for (kind, name), h in cands.items():
        if kind == 'table':
            gi = prog.globals[name]
            vals = list(gi['vals'])
            where = '%s:%d' % (gi['file'], gi['line'])
        else:
            vals = []
            try:
                for v in range(256):
                    call = {'k': 'call', 'fn': name, 'sig': h.get('sig'), 'a': [{'k': 'int', 'v': v}]}
                    vals.append(bytesets.Evaluator(prog, h).ev(call) & 255)
            except bytesets.Undecidable:
                continue
            where = fwhere(h)
        hits = sum(1 for i, ch in enumerate(alpha) if ord(ch) < len(vals) and vals[ord(ch)] == i)
        if hits >= 32 and (best is None or hits > best[0]):
            best = (hits, vals, kind, name, where)
    if best is None:
        raise AnalysisBroken('the symbol-to-value mapping of decodeBase64 (inverse table or helper) was not found: %s' % sorted(cands))
    _, vals, kind, name, where = best

    def is_lookup(e):
        if kind == 'table':
            return e.get('k') == 'idx' and strip(e['b']).get('q') == name
        return e.get('k') == 'call' and e.get('fn') == name and len(e.get('a') or []) == 1
    _INV[id(prog)] = (vals, is_lookup, name, where, kind)
    return _INV[id(prog)]


_ABS_DECIDED = {}


def abs_base64_encoder(ctx, prog, f):
    """encodeBase64 decided by abstract interpretation of the whole body (absim) for every input length 0..12: the data bytes
    are symbolic, the input buffer has exactly n elements (a read outside it is the violation), and the characters written
    to the result must be, position by position, the RFC 4648 encoding: alphabet[sextet] with the sextet's bits taken from
    the right data bits, '=' padding, 4 * ceil(n / 3) characters and the terminator.  -> True when every length was decided."""
    import absim, scansim
    g = prog.globals.get('asl::base64_chars')
    if not g or (g.get('init') or {}).get('k') != 'str':
        return False
    alpha = list(g['init']['b']) + [0]
    data, nparam = f['params'][0], f['params'][1]
    first_bad = None
    cases = 0
    LENS = range(0, 13)
    for n in LENS:
        sources = [absim.Source('d%d' % k, 8, 0, 255) for k in range(n)]

        def run_fn(values, n=n):
            bufs = {'IN': list(values)}
            r = scansim.Run(prog, f, bufs, ptr_params={data['id']: ('P', 'IN', 0)}, int_params={nparam['id']: n}, objects=True)
            try:
                ret = r.run()
            except scansim.OOB as o:
                return [('OOB', str(o))]
            if not (isinstance(ret, tuple) and ret[0] == 'P' and ret[1][0] == 'O'):
                raise scansim.Unsupported('result is not the local string')
            return list(bufs[ret[1]])

        def ref_fn(values, n=n):
            out = []
            for i in range(0, n, 3):
                a = values[i]
                b = values[i + 1] if i + 1 < n else 0
                c = values[i + 2] if i + 2 < n else 0
                out.append(absim.tab(alpha, a >> 2))
                out.append(absim.tab(alpha, ((a & 3) << 4) | (b >> 4)))
                out.append(absim.tab(alpha, ((b & 15) << 2) | (c >> 6)) if i + 1 < n else ord('='))
                out.append(absim.tab(alpha, c & 63) if i + 2 < n else ord('='))
            return out + [0]
        leaves, bad, und = absim.explore(sources, run_fn, ref_fn, absim.eq_out(8), max_leaves=64)
        cases += len(leaves)
        ctx.evaluations += len(leaves) + len(und)
        if und:
            return False
        for assign, values, got, want in bad:
            w = absim.confirm(sources, assign, run_fn, ref_fn, 8)
            if w is None:
                return False
            if first_bad is None:
                first_bad = (n, w)
            break
    role = 'encodeBase64:reads, characters and padding for every length'
    if first_bad:
        n, (vals, got, want) = first_bad
        if got and isinstance(got[0], tuple):
            ctx.violation('C15.stride', f['pq'], role, fwhere(f), 'encodeBase64 interpreted for n = %d: %s - it reads outside the %d input bytes' % (n, got[0][1], n))
        else:
            ctx.violation('C15.tables', f['pq'], role, fwhere(f), 'encodeBase64 interpreted for the %d input byte(s) %s writes "%s", RFC 4648 requires "%s"' % (
                n, absim.hexs(vals, 8), ''.join(chr(x & 255) if isinstance(x, int) and 32 <= (x & 255) < 127 else '?' for x in got[:-1]), ''.join(chr(x) if isinstance(x, int) else '?' for x in want[:-1])))
    else:
        ctx.ok('C15.tables', f['pq'], role, fwhere(f), 'abstract interpretation for n = 0..%d with symbolic data (%d cases): every read inside the n input bytes, characters = alphabet[RFC 4648 sextets], "=" padding, 4*ceil(n/3) characters + NUL' % (LENS[-1], cases))
    return True


def abs_encode_hex(ctx, prog, f):
    """encodeHex decided by abstract interpretation for n = 0..4 with symbolic data bytes: reads inside the input, the result
    holds digit[high nibble], digit[low nibble] per byte (lowercase digit table) and the terminator."""
    import absim, scansim
    data, nparam = f['params'][0], f['params'][1]
    hexl = [ord(c) for c in '0123456789abcdef'] + [0]
    first_bad = None
    cases = 0
    for n in range(0, 5):
        sources = [absim.Source('d%d' % k, 8, 0, 255) for k in range(n)]

        def run_fn(values, n=n):
            bufs = {'IN': list(values)}
            r = scansim.Run(prog, f, bufs, ptr_params={data['id']: ('P', 'IN', 0)}, int_params={nparam['id']: n}, objects=True)
            try:
                ret = r.run()
            except scansim.OOB as o:
                return [('OOB', str(o))]
            if not (isinstance(ret, tuple) and ret[0] == 'P' and ret[1][0] == 'O'):
                raise scansim.Unsupported('result is not the local string')
            return list(bufs[ret[1]])

        def ref_fn(values, n=n):
            out = []
            for v in values:
                out += [absim.tab(hexl, (v >> 4) & 15), absim.tab(hexl, v & 15)]
            return out + [0]
        leaves, bad, und = absim.explore(sources, run_fn, ref_fn, absim.eq_out(8), max_leaves=64)
        cases += len(leaves)
        ctx.evaluations += len(leaves) + len(und)
        if und:
            return False
        for assign, values, got, want in bad:
            w = absim.confirm(sources, assign, run_fn, ref_fn, 8)
            if w is None:
                return False
            if first_bad is None:
                first_bad = (n, w)
            break
    role = 'encodeHex:two lowercase digits per byte'
    if first_bad:
        n, (vals, got, want) = first_bad
        if got and isinstance(got[0], tuple):
            ctx.violation('C15.tables', f['pq'], role, fwhere(f), 'encodeHex interpreted for n = %d: %s' % (n, got[0][1]))
        else:
            ctx.violation('C15.tables', f['pq'], role, fwhere(f), 'encodeHex interpreted for the byte(s) %s writes "%s", expected "%s"' % (
                absim.hexs(vals, 8), ''.join(chr(x & 255) if isinstance(x, int) and 32 <= (x & 255) < 127 else '?' for x in got[:-1]), ''.join(chr(x) if isinstance(x, int) else '?' for x in want[:-1])))
    else:
        ctx.ok('C15.tables', f['pq'], role, fwhere(f), 'abstract interpretation for n = 0..4 with symbolic bytes (%d cases): digit[b >> 4], digit[b & 15] per byte, terminated, reads inside the input' % cases)
    return True


def interp_decode_hex(ctx, prog, f):
    """decodeHex decided by interpretation (scansim with String / Array models) for every text length 0..9 over representative
    hex digits: the result has length/2 bytes, each 16*digit + digit of its pair, a trailing odd character is ignored, no
    read outside the text and no store outside the result."""
    import scansim
    sp = f['params'][0]
    digits = '09afAF5c3Be7'
    bad = None
    runs = 0
    for N in range(0, 10):
        for rot in range(0, 3):
            text = ''.join(digits[(rot * 5 + k * 7) % len(digits)] for k in range(N))
            bufs = {('O', sp['id']): [ord(c) for c in text] + [0]}
            r = scansim.Run(prog, f, bufs, objects=True)
            r.objlen[sp['id']] = N
            runs += 1
            try:
                ret = r.run()
            except scansim.OOB as o:
                bad = 'for the %d-character text "%s": %s' % (N, text, o)
                break
            if not (isinstance(ret, tuple) and ret[0] == 'P' and ret[1][0] == 'O' and ret[1][1] != sp['id']):
                raise scansim.Unsupported('result is not the local array')
            got = [x & 255 if isinstance(x, int) else None for x in bufs[ret[1]]]
            want = [int(text[2 * k:2 * k + 2], 16) for k in range(N // 2)]
            if got != want:
                bad = 'for the %d-character text "%s" the result is %s, expected %s' % (N, text, got, want)
                break
        if bad:
            break
    ctx.evaluations += runs
    ctx.check(bad is None, 'C15.stride', f['pq'], 'decodeHex:block loop bound', fwhere(f), 'interpreted for lengths 0..9 (%d texts): length/2 bytes, each the value of its digit pair, reads inside the text, stores inside the result' % runs, 'decodeHex: %s' % bad)
    return 1


def check_tables(ctx, prog):
    g = prog.globals.get('asl::base64_chars')
    if not g:
        raise AnalysisBroken('base64 tables not found: %s' % [k for k in prog.globals if 'base64' in k])
    inv, _, invname, wherei, invkind = inverse_map(prog)
    alpha = bytes(g['init']['b']).decode('latin-1') if g.get('init', {}).get('k') == 'str' else None
    where = '%s:%d' % (g['file'], g['line'])
    ctx.check(alpha == RFC4648, 'C15.tables', 'asl::base64_chars', 'alphabet is RFC 4648', where, '64 symbols', 'Base64 alphabet `%s` is not the RFC 4648 alphabet' % alpha)
    ctx.check(inv is not None and len(inv) == 256, 'C15.tables', invname, 'inverse table has 256 entries', wherei, '256 entries' if invkind == 'table' else 'helper evaluated for all 256 byte values',
              'inverse table has %s entries: a byte >= that index reads out of bounds' % (len(inv) if inv else None))
    if inv and alpha:
        bad = [ch for i, ch in enumerate(alpha) if ord(ch) >= len(inv) or inv[ord(ch)] != i]
        ctx.evaluations += 64
        ctx.check(not bad, 'C15.tables', invname, 'inverse table inverts the alphabet', wherei, 'all 64 symbols map back to their index',
                  'inverse table entry for symbol(s) %s does not equal the symbol\'s index in the alphabet' % bad[:8])
    f = fn1(prog, 'asl::encodeBase64', '(const unsigned char *,int)')
    ctx.analysed(f)
    try:
        _ABS_DECIDED[id(prog)] = abs_base64_encoder(ctx, prog, f)
    except Exception:
        _ABS_DECIDED[id(prog)] = False
    if not _ABS_DECIDED[id(prog)]:
        check_encoder_bits(ctx, prog, f)
    f = fn1(prog, 'asl::decodeBase64', '(const char *,int)')
    ctx.analysed(f)
    check_decoder_bits(ctx, prog, f)
    # hex nibble table
    hn = [g_ for g_ in prog.fn('asl::hexNibble') if g_.get('body')]
    if not hn:
        # no separate nibble helper: the digits Url::encode writes are decided on its emission table (C15.urlset)
        ctx.info['hexNibble'] = 'no hexNibble helper in this tree; escaped digits decided by the C15.urlset emission table'
    f = hn[0] if hn else None
    if f is not None:
        ctx.analysed(f)
    try:
        if f is None:
            raise bytesets.Undecidable('skip')
        got = ''
        for v in range(16):
            ev = bytesets.Evaluator(prog, f, {f['params'][0]['id']: v})
            body = f['body']['s'] if f['body'].get('k') == 'block' else [f['body']]
            call = {'k': 'call', 'fn': 'asl::hexNibble', 'sig': f.get('sig'), 'a': [{'k': 'int', 'v': v}]}
            got += chr(bytesets.Evaluator(prog, f).ev(call) & 255)
            ctx.evaluations += 1
        ctx.check(got.upper() == '0123456789ABCDEF' and (got.isupper() or got.islower() or True), 'C15.tables', f['pq'], 'hexNibble:16 hex digits in order', fwhere(f), 'hexNibble(0..15) = `%s`' % got,
                  'hexNibble(0..15) yields `%s`, not the 16 hexadecimal digits in value order' % got)
    except bytesets.Undecidable as u:
        if f is not None:
            ctx.undecided('C15.tables', f['pq'], 'hexNibble:16 hex digits in order', fwhere(f), 'not evaluable: %s' % u)
    f = fn1(prog, 'asl::encodeHex', '(const unsigned char *,int)')
    ctx.analysed(f)
    try:
        if abs_encode_hex(ctx, prog, f):
            return
    except Exception:
        pass
    sn = [e for e in fn_exprs(f) if e.get('k') == 'call' and e.get('fn') == 'snprintf']
    okk = False
    if len(sn) == 1:
        fmt = strip(sn[0]['a'][2])
        dst = strip(sn[0]['a'][0])
        okk = fmt.get('k') == 'str' and bytes(fmt['b']).decode() in ('%02x',) and const_val(sn[0]['a'][1]) == 3 and any(w.get('k') == 'bin' and w.get('op') == '*' and const_val(w['x']) == 2 for w in walk_expr(dst))
    if len(sn) == 1:
        ctx.check(okk, 'C15.tables', f['pq'], 'encodeHex:two lowercase digits per byte', fwhere(f), 'snprintf(&h[2*i], 3, "%02x", data[i])', 'encodeHex does not write exactly two lowercase hex digits per byte at offset 2*i')
    else:
        # table-driven or other spelling: the two nibble look-ups are checked by bit provenance where they can be found
        digs = [e for e in fn_exprs(f) if e.get('k') == 'idx' and (strip(e['b']).get('k') == 'str' or (strip(e['b']).get('k') == 'var' and strip(q.single_defs(f).get(strip(e['b']).get('id'), {}) or {}).get('k') == 'str') or
                                                                 any(v['id'] == strip(e['b']).get('id') and strip(v.get('init') or {}).get('k') == 'str' for s2 in ir.walk_stmts(f['body']) if s2.get('k') == 'decl' for v in s2['vars']))]
        data = f['params'][0]
        def leaf(e):
            if e.get('k') == 'idx' and strip(e['b']).get('id') == data['id']:
                return bits.var_bits(('d', 0), 8)
            return None
        env = bits.Env(f, leaf=leaf, through_locals=True, prog=prog)
        got = sorted(tuple(env.eval(e['i'])[:8]) for e in digs)
        hi = tuple([(('d', 0), 4 + b) for b in range(4)] + ['0'] * 4)
        lo = tuple([(('d', 0), b) for b in range(4)] + ['0'] * 4)
        table_ok = any(bytes(w['b']).decode('latin-1').startswith('0123456789abcdef') for w in fn_exprs(f) if w.get('k') == 'str') or \
            any(bytes(strip(v.get('init') or {}).get('b', [])).decode('latin-1').startswith('0123456789abcdef') for s2 in ir.walk_stmts(f['body']) if s2.get('k') == 'decl' for v in s2['vars'] if strip(v.get('init') or {}).get('k') == 'str')
        if len(digs) == 2 and table_ok and any('X' in g_ for g_ in got):
            ctx.undecided('C15.tables', f['pq'], 'encodeHex:two lowercase digits per byte', fwhere(f), 'nibble indices not resolved to bits of the data byte')
        elif len(digs) == 2 and table_ok:
            ctx.check(sorted([hi, lo]) == got, 'C15.tables', f['pq'], 'encodeHex:two lowercase digits per byte', fwhere(f), 'digit table indexed with the high and the low nibble',
                      'encodeHex indexes its digit table with %s, not with the high and low nibble of the byte' % [bits.show(list(g_), {('d', 0): 'b'}, 8) for g_ in got])
        else:
            ctx.undecided('C15.tables', f['pq'], 'encodeHex:two lowercase digits per byte', fwhere(f), 'neither snprintf("%02x") nor two look-ups in a lowercase digit table found')


def _offset_of(ix):
    """constant offset j of an index expression `v + j` / `v` (None when it is something else)"""
    ix = strip(ix)
    if ix.get('k') == 'var':
        return 0
    if ix.get('k') == 'bin' and ix.get('op') == '+' and strip(ix['x']).get('k') == 'var' and const_val(ix['y']) is not None:
        return const_val(ix['y'])
    if const_val(ix) is not None:
        return const_val(ix)
    return None


def check_encoder_bits(ctx, prog, f):
    """Bit provenance of every alphabet look-up of encodeBase64: the index is one of the four sextets of the 24-bit group
    data[i] : data[i+1] : data[i+2] (most significant first), bits 6.. are zero, and all four sextets occur.  A zero bit in
    place of a data[i+1] / data[i+2] bit is the zero padding of a short final group."""
    data = f['params'][0]

    def leaf(e):
        if e.get('k') == 'idx' and strip(e['b']).get('id') == data['id']:
            j = _offset_of(e['i'])
            if j is None or not 0 <= j <= 2:
                return ['X'] * bits.W
            return bits.var_bits(('d', j), 8)
        return None

    def group_bit(g_):
        return (('d', 0), g_ - 16) if g_ >= 16 else ((('d', 1), g_ - 8) if g_ >= 8 else (('d', 2), g_))
    expect = [[group_bit(18 - 6 * k + b) for b in range(6)] for k in range(4)]
    env = bits.Env(f, leaf=leaf, through_locals=True)
    lookups = [e for e in fn_exprs(f) if e.get('k') == 'idx' and strip(e['b']).get('q') == 'asl::base64_chars']
    role = 'encodeBase64:four 6-bit indices'
    if len(lookups) < 4:
        ctx.undecided('C15.tables', f['pq'], role, fwhere(f), 'fewer than four alphabet look-ups found')
        return
    seen = set()
    for e in lookups:
        v = env.eval(e['i'])
        ctx.evaluations += 1
        names = {('d', 0): 'a', ('d', 1): 'b', ('d', 2): 'c'}
        if any(x != '0' for x in v[6:]):
            if any(x == 'X' for x in v[6:]) and not any(x not in ('0', 'X') for x in v[6:]):
                ctx.undecided('C15.tables', f['pq'], role, fwhere(f, e['l']), 'index `%s` not resolved to input bits' % pe(e['i']))
            else:
                ctx.violation('C15.tables', f['pq'], role, fwhere(f, e['l']), 'alphabet index `%s` is not confined to 6 bits (bits %s): it can exceed the 64-entry table' % (pe(e['i']), bits.show(v, names, 10)))
            continue
        if 'X' in v[:6]:
            ctx.undecided('C15.tables', f['pq'], role, fwhere(f, e['l']), 'index `%s` not resolved to input bits (%s)' % (pe(e['i']), bits.show(v, names, 6)))
            continue
        match = None
        for k in range(4):
            if all(v[b] == expect[k][b] or (v[b] == '0' and expect[k][b][0] != ('d', 0)) for b in range(6)) and any(v[b] == expect[k][b] for b in range(6)):
                match = k
        if match is None:
            ctx.violation('C15.tables', f['pq'], role, fwhere(f, e['l']), 'alphabet index `%s` carries bits [%s], which is none of the four sextets of the group (a << 16) | (b << 8) | c' % (pe(e['i']), bits.show(v, names, 6)))
        else:
            seen.add(match)
            ctx.ok('C15.tables', f['pq'], role, fwhere(f, e['l']), 'index `%s` = sextet %d of the group: [%s]' % (pe(e['i']), match, bits.show(v, names, 6)))
    if len(seen) < 4 and not any(o.status != 'ok' and o.role == role for o in ctx.obligations):
        ctx.violation('C15.tables', f['pq'], role, fwhere(f), 'the alphabet look-ups cover only sextets %s of the 24-bit group' % sorted(seen))


def check_decoder_bits(ctx, prog, f):
    """Bit provenance of the three bytes decodeBase64 writes per group of four symbols s0..s3:
    byte m = bits 23-8m .. 16-8m of (s0 << 18) | (s1 << 12) | (s2 << 6) | s3."""
    role = 'decodeBase64:group assembly'
    loops = [s_ for s_ in ir.walk_stmts(f['body']) if s_.get('k') in ('for', 'while') and any(inverse_map(prog)[1](e) for e in ir.stmt_exprs(s_['body']))]
    if len(loops) != 1:
        ctx.undecided('C15.tables', f['pq'], role, fwhere(f), 'decoding loop not found')
        return
    lp = loops[0]
    # output writes: assignments through a byte pointer inside the loop
    outs = []
    for e in ir.stmt_exprs(lp['body']):
        if e.get('k') == 'bin' and e.get('op') == '=':
            l = strip_lv(e['x'])
            pos = None
            if l.get('k') == 'un' and l.get('op') == '*':
                pos = 'seq'
                base = strip(l['e'])
                if base.get('k') == 'un' and base.get('op') in ('post++',):
                    base = strip_lv(base['e'])
                else:
                    pos = 0
            elif l.get('k') == 'idx':
                base = strip(l['b'])
                pos = const_val(l['i'])
            else:
                continue
            bt = T(f, base.get('t'))
            if base.get('k') == 'var' and bt.get('ptr') and T(f, bt.get('to')).get('bits') == 8:
                outs.append((e, pos))
    if len(outs) != 3:
        ctx.undecided('C15.tables', f['pq'], role, fwhere(f, lp['l']), '%d byte stores found in the decoding loop, expected the 3 bytes of a group' % len(outs))
        return
    positions = [i if p == 'seq' else p for i, (e, p) in enumerate(outs)]
    # the group value: a single expression over k[0..3], or the shift-accumulate recurrence u = (u << 6) | s
    karr = None

    def leaf(e):
        if e.get('k') == 'idx' and strip(e['b']).get('k') == 'var' and T(f, strip(e['b']).get('t')).get('arr') is not None or \
                (e.get('k') == 'idx' and strip(e['b']).get('k') == 'var' and strip(e['b']).get('vk') == 'local' and const_val(e.get('i')) is not None and strip(e['b']).get('q') is None):
            j = const_val(e['i'])
            if j is None or not 0 <= j <= 3:
                return ['X'] * bits.W
            return bits.var_bits(('s', j), 6)
        return None
    env = bits.Env(f, leaf=leaf, through_locals=True)
    # recurrence form
    acc = {}
    for e in ir.stmt_exprs(lp['body']):
        if e.get('k') == 'bin' and e.get('op') == '=' and strip_lv(e['x']).get('k') == 'var':
            vid = strip_lv(e['x'])['id']
            if any(w.get('k') == 'var' and w.get('id') == vid for w in walk_expr(e['y'])) and any(inverse_map(prog)[1](w) for w in walk_expr(e['y'])):
                acc[vid] = e
    if acc:
        if len(acc) != 1:
            ctx.undecided('C15.tables', f['pq'], role, fwhere(f, lp['l']), 'several accumulators in the decoding loop')
            return
        vid, upd = list(acc.items())[0]
        resets = [e for e in q._writes_to(f, vid) if e is not upd]
        decl0 = [v for s_ in ir.walk_stmts(f['body']) if s_.get('k') == 'decl' for v in s_['vars'] if v['id'] == vid]
        four = any(e.get('k') == 'bin' and e.get('op') in ('<', '==', '>=', '!=') and 4 in (const_val(e['x']), const_val(e['y'])) for e in ir.stmt_exprs(lp['body']))
        if not (decl0 and const_val(decl0[0].get('init')) == 0 and resets and all(e.get('k') == 'bin' and e.get('op') == '=' and const_val(e['y']) == 0 for e in resets) and four):
            ctx.undecided('C15.tables', f['pq'], role, fwhere(f, upd['l']), 'accumulator `%s` is not reset to 0 per group of 4 symbols in a recognised way' % strip_lv(upd['x']).get('n'))
            return
        cur = bits.const_bits(0)
        for t in range(4):
            step_env = bits.Env(f, leaf=lambda e, t=t: bits.var_bits(('s', t), 6) if inverse_map(prog)[1](e) else None, through_locals=True)
            step_env.vars[vid] = cur
            cur = step_env.eval(upd['y'])
        env.vars[vid] = cur

    def group_bit(g_):
        j = (23 - g_) // 6
        return (('s', j), g_ - (18 - 6 * j))
    names = {('s', 0): 'p', ('s', 1): 'q', ('s', 2): 'r', ('s', 3): 't'}
    for (e, _), m in zip(outs, positions):
        v = env.eval(e['y'])
        ctx.evaluations += 1
        if m is None or not 0 <= m <= 2:
            ctx.undecided('C15.tables', f['pq'], role, fwhere(f, e['l']), 'position of the byte store `%s` not recognised' % pe(e['x']))
            continue
        want = [group_bit(16 - 8 * m + b) for b in range(8)]
        if 'X' in v[:8]:
            ctx.undecided('C15.tables', f['pq'], role, fwhere(f, e['l']), 'byte %d `%s` not resolved to symbol bits [%s]' % (m, pe(e['y']), bits.show(v, names, 8)))
        elif v[:8] == want:
            ctx.ok('C15.tables', f['pq'], role, fwhere(f, e['l']), 'byte %d = [%s]' % (m, bits.show(v, names, 8)))
        else:
            ctx.violation('C15.tables', f['pq'], role, fwhere(f, e['l']), 'byte %d of a decoded group is `%s` = [%s], expected [%s] (bits %d..%d of (s0 << 18) | (s1 << 12) | (s2 << 6) | s3)' % (
                m, pe(e['y']), bits.show(v, names, 8), bits.show(want, names, 8), 23 - 8 * m, 16 - 8 * m))


def check_urlset(ctx, prog):
    f = fn1(prog, 'asl::Url::encode')
    ctx.analysed(f)
    comp = f['params'][1]
    # what Url::encode appends for every byte value in both modes (emit.py: guards and arguments of each append evaluated with
    # the current character bound): either the byte itself or '%' + two upper-case hex digits of the unsigned byte value
    import emit
    outs = [v for s_ in ir.walk_stmts(f['body']) if s_.get('k') == 'decl' for v in s_['vars'] if T(f, v['t']).get('rec') == 'asl::String' and not T(f, v['t']).get('ref')]
    out_ids = set(v['id'] for v in outs)
    sets = {}
    where = fwhere(f)
    for mode in (0, 1):
        try:
            try:
                # primary: the whole function interpreted on every one-byte string and on short strings (helpers followed)
                table, _, issues = emit.interp_table_ret(prog, f, fixed={[p_['id'] for p_ in f['params']].index(comp['id']): mode})
                ctx.check(not issues, 'C15.urlset', f['pq'], 'encode:what is written for a byte does not depend on its neighbours (%s)' % ('component mode' if mode else 'full-URL mode'), where,
                          'strings of 2 and 3 bytes are encoded byte by byte', 'Url::encode writes %r for %r, byte by byte it would be %r' % (
                              (bytes(issues[0][1]), bytes(issues[0][0]), bytes(issues[0][2])) if issues else (b'', b'', b'')))
            except emit.Unresolved:
                table, _ = emit.emit_table(prog, f, out_pred=lambda x: x.get('k') == 'var' and x.get('id') in out_ids, extra_env={comp['id']: mode})
        except emit.Unresolved as u:
            if 'outside table' in str(u):
                ctx.violation('C15.urlset', f['pq'], 'encode:escaped byte written as %HL', where, 'a hex digit table is indexed out of range while escaping: %s (the byte is not treated as an unsigned value: escaped bytes >= 0x80 come out as garbage)' % u)
            else:
                ctx.undecided('C15.urlset', f['pq'], 'encode:escape set', where, 'appended text not evaluable: %s' % u)
            return
        ctx.evaluations += 255
        esc = set()
        bad = None
        for b_, out in table.items():
            if out == [b_]:
                continue
            if bytes(out).upper() == (b'%%%02X' % b_):
                esc.add(b_)
            elif bad is None:
                bad = (b_, out)
        if bad:
            ctx.violation('C15.urlset', f['pq'], 'encode:escaped byte written as %HL', where, "byte 0x%02x is written as %r in %s: neither the byte itself nor '%%' followed by the high and then the low nibble of the unsigned byte value"
                          % (bad[0], bytes(x & 255 for x in bad[1]), 'component mode' if mode else 'full-URL mode'))
            return
        sets[mode] = esc
    ctx.ok('C15.urlset', f['pq'], 'encode:escaped byte written as %HL', where, "every byte is written raw or as '%' + high nibble + low nibble")
    s_ = {'l': f.get('line', 0)}
    ctx.info['url_unescaped_component'] = bytesets.fmt_set(set(range(1, 256)) - sets[1])
    ctx.info['url_unescaped_full'] = bytesets.fmt_set(set(range(1, 256)) - sets[0])
    for mode, name in ((0, 'full-URL mode'), (1, 'component mode')):
        ctx.check(ord('%') in sets[mode], 'C15.urlset', f['pq'], 'encode:%% escaped (%s)' % name, where, "'%' is escaped",
                  "Url::encode leaves '%%' unescaped in %s: decode(encode(s)) != s for any s containing a percent sign followed by two hex digits" % name)
        ctx.check(all(b in sets[mode] for b in range(128, 256)) and all(b in sets[mode] for b in range(1, 33)), 'C15.urlset', f['pq'], 'encode:controls, space and non-ASCII escaped (%s)' % name, where,
                  'bytes 0x01-0x20 and 0x80-0xff escaped', 'Url::encode leaves control, space or non-ASCII bytes unescaped in %s' % name)
    need = set(ord(c) for c in '&=+%')
    ctx.check(need <= sets[1], 'C15.urlset', f['pq'], 'encode:query metacharacters escaped in component mode', where, '& = + % escaped',
              'component mode leaves %s unescaped: parseQuery(params(d)) splits or rewrites keys/values containing them' % sorted(chr(b) for b in need - sets[1]))
    # decode: '%' + 2 chars -> strtoul base 16
    d = fn1(prog, 'asl::Url::decode')
    ctx.analysed(d)
    st = [e for e in fn_exprs(d) if e.get('k') == 'call' and e.get('fn') == 'strtoul']
    ctx.check(len(st) == 1 and const_val(st[0]['a'][2]) == 16, 'C15.urlset', d['pq'], 'decode:two hex digits base 16', fwhere(d), 'strtoul(b, NULL, 16)', 'Url::decode does not convert the two characters after % with base 16')
    pq = fn1(prog, 'asl::Url::parseQuery')
    ctx.analysed(pq)
    # separator and rewrite characters: character literals or one-character string literals
    seps = sorted(set(e['v'] for e in fn_exprs(pq) if e.get('k') == 'int' and e.get('chr')) | set(e['b'][0] for e in fn_exprs(pq) if e.get('k') == 'str' and len(e.get('b') or []) == 1))

    def is_plus(w):
        return (w.get('k') == 'int' and w.get('v') == ord('+')) or (w.get('k') == 'str' and w.get('b') == [ord('+')])
    ctx.check(set(seps) <= need | {32} and {ord('&'), ord('=')} <= set(seps), 'C15.urlset', pq['pq'], 'parseQuery:separators are escaped by params()', fwhere(pq), 'splits on %s' % [chr(x) for x in seps],
              'parseQuery splits/rewrites on %s, not all of which params() escapes' % [chr(x) for x in seps])
    # '+' -> ' ' belongs to the raw query text: it must be applied before percent-decoding, never to a decoded key/value
    plus_after = []
    for e in fn_exprs(pq):
        if e.get('k') == 'call' and (e.get('pq') or '').split('::')[-1] in ('replace', 'replaceme') and e.get('a') and any(is_plus(w) for w in walk_expr(e['a'][0])):
            if any(w.get('k') == 'call' and w.get('pq') == 'asl::Url::decode' for w in walk_expr(e.get('obj') or {})):
                plus_after.append(e)
    plus_before = [e for e in fn_exprs(pq) if e.get('k') == 'call' and (e.get('pq') or '').split('::')[-1] in ('replace', 'replaceme') and e.get('a') and any(is_plus(w) for w in walk_expr(e['a'][0]))
                   and e.get('obj') is not None and strip(e['obj']).get('k') == 'var' and strip(e['obj']).get('vk') == 'param']
    decs = [e for e in fn_exprs(pq) if e.get('k') == 'call' and e.get('pq') == 'asl::Url::decode']
    ctx.check(not plus_after and bool(plus_before) and len(decs) >= 2, 'C15.urlset', pq['pq'], "parseQuery:'+' rewritten before percent-decoding", fwhere(pq, plus_after[0]['l'] if plus_after else None),
              "replace('+',' ') on the raw query, then decode key and value", "parseQuery rewrites '+' to a space after percent-decoding (or not on the raw text): a literal '+' that params() wrote as %2B comes back as a space")
    pr = fn1(prog, 'asl::Url::params', '(const asl::Dic<asl::String> &)')
    ctx.analysed(pr)
    encs = [e for e in fn_exprs(pr) if e.get('k') == 'call' and e.get('pq') == 'asl::Url::encode']
    ctx.check(len(encs) == 2 and all(const_val(q.expand(pr, e['a'][1])) == 1 for e in encs), 'C15.urlset', pr['pq'], 'params:keys and values encoded in component mode', fwhere(pr), 'encode(k,true), encode(v,true)',
              'params() does not encode both key and value in component mode')


_SHAPAD = {}


def block_loop(ctx, prog, f, B, consumer, role, decided_by=None):
    """The loop of f that feeds `consumer` (predicate on expressions of the loop body) one B-byte block per iteration must run
    exactly while a full block is left:  condition(i, N)  <=>  i + B <= N  for every offset i and length N of a grid.
    `=>` keeps the block read inside the input, `<=` means no full block is left unprocessed."""
    loops = [s_ for s_ in ir.walk_stmts(f['body']) if s_.get('k') in ('for', 'while', 'do') and any(consumer(e) for e in ir.stmt_exprs(s_['body']))]

    def other_shape(where, why):
        # not the offset/length counting form: the rule is a shape view of what the whole-body interpretation decides
        if decided_by and loops:
            ctx.ok('C15.stride', f['pq'], role, where, decided_by)
            return 1
        ctx.undecided('C15.stride', f['pq'], role, where, why)
        return 0
    if len(loops) != 1:
        return other_shape(fwhere(f), 'no single block loop found (%d candidates)' % len(loops))
    lp = loops[0]
    cl = q.counted_loop(f, lp, need_init=False) if lp.get('k') != 'do' else None
    if cl is None:
        return other_shape(fwhere(f, lp['l']), 'block loop is not a recognised counting loop')
    try:
        step = cl['step'] if isinstance(cl['step'], int) else bytesets.Evaluator(prog, f).ev(cl['step'])
        by_id, by_text = bounded.atoms_of(prog, f, cl['cond'], allow_assigned=(cl['var'],))
    except bytesets.Undecidable as u:
        ctx.undecided('C15.stride', f['pq'], role, fwhere(f, lp['l']), 'loop step / condition not evaluable: %s' % u)
        return 0
    others = [i for i in by_id if i != cl['var']]
    if cl['var'] not in by_id or len(others) + len(by_text) != 1:
        return other_shape(fwhere(f, lp['l']), 'loop condition `%s` is not a relation between the offset and one length' % pe(cl['cond']))
    if step != B:
        ctx.violation('C15.stride', f['pq'], role, fwhere(f, lp['l']), 'the block loop advances by %s per iteration, the block size is %d' % (step, B))
        return 1
    bad = None
    offs = sorted(set([0, 1, B - 1, B, B + 1, 2 * B - 1, 2 * B, 2 * B + 1]))
    try:
        for i in offs:
            for N in range(0, 3 * B + 3):
                bi = {cl['var']: i}
                bt = {}
                if others:
                    bi[others[0]] = N
                else:
                    bt[list(by_text)[0]] = N
                ev = bounded.Bound(prog, f, bi, bt)
                got = bool(ev.ev(cl['cond']))
                ctx.evaluations += 1
                if got != (i + B <= N) and bad is None:
                    bad = (i, N, got)
    except bytesets.Undecidable as u:
        ctx.undecided('C15.stride', f['pq'], role, fwhere(f, lp['l']), 'loop condition not evaluable: %s' % u)
        return 0
    if bad is None:
        ctx.ok('C15.stride', f['pq'], role, fwhere(f, lp['l']), '`%s` <=> offset + %d <= length on the grid: exactly the full blocks' % (pe(cl['cond']), B))
    else:
        i, N, got = bad
        ctx.violation('C15.stride', f['pq'], role, fwhere(f, lp['l']), 'loop condition `%s` is %s at offset %d of %d bytes (stride %d): %s' % (
            pe(cl['cond']), 'true' if got else 'false', i, N, B, 'the block read runs past the end of the input' if got else 'a full trailing block is left unprocessed'))
    return 1


def hex_pairs(ctx, prog, f):
    """decodeHex: the loop runs exactly length/2 times, every read of the text lies inside it and every store into the result lies
    inside its length/2 elements - for every text length 0..24 (loop normal form + guard evaluation)."""
    role = 'decodeHex:block loop bound'
    sp = f['params'][0]
    loops = [s_ for s_ in ir.walk_stmts(f['body']) if s_.get('k') in ('for', 'while')]
    if len(loops) != 1:
        ctx.undecided('C15.stride', f['pq'], role, fwhere(f), 'no single pair loop found')
        return 0
    lp = loops[0]
    cl = q.counted_loop(f, lp)
    if cl is None or (not isinstance(cl['step'], int) and const_val(cl['step']) is None):
        ctx.undecided('C15.stride', f['pq'], role, fwhere(f, lp['l']), 'pair loop is not a recognised counting loop')
        return 0
    lens = set(pe(w) for w in fn_exprs(f) if w.get('k') == 'call' and (w.get('pq') or '').endswith('String::length') and strip(w.get('obj') or {}).get('id') == sp['id'])
    if len(lens) != 1:
        ctx.undecided('C15.stride', f['pq'], role, fwhere(f, lp['l']), 'length of the text not consulted exactly through s.length()')
        return 0
    lt = list(lens)[0]
    G = q.Guarded(f)
    step = cl['step'] if isinstance(cl['step'], int) else const_val(cl['step'])
    # sites inside the loop
    src_alias = set([sp['id']]) | set(vid for vid, ini in q.single_defs(f).items() if any(w.get('k') == 'var' and w.get('id') == sp['id'] for w in walk_expr(ini)) and T(f, strip_lv(ini).get('t') or 0).get('ptr'))
    for s_ in ir.walk_stmts(f['body']):
        if s_.get('k') == 'decl':
            for v in s_['vars']:
                if v.get('init') is not None and T(f, v['t']).get('ptr') and any(w.get('k') == 'var' and w.get('id') == sp['id'] for w in walk_expr(v['init'])):
                    src_alias.add(v['id'])
    reads, stores = [], []
    for e in ir.stmt_exprs(lp['body']):
        if e.get('k') == 'call' and (e.get('pq') or '').endswith('String::substring') and strip(e.get('obj') or {}).get('id') == sp['id'] and len(e.get('a', [])) == 2:
            reads.append(('range', e['a'][0], e['a'][1], e))
        elif e.get('k') == 'call' and e.get('op') == '[]' and strip(e.get('obj') or {}).get('id') == sp['id']:
            reads.append(('at', e['a'][0], None, e))
        elif e.get('k') == 'idx' and strip(e['b']).get('k') == 'var' and strip(e['b']).get('id') in src_alias:
            reads.append(('at', e['i'], None, e))
        elif e.get('k') == 'call' and e.get('op') == '[]' and T(f, strip_lv(e.get('obj') or {}).get('t')).get('recp') == 'asl::Array':
            stores.append(e)
    if not reads or not stores:
        ctx.undecided('C15.stride', f['pq'], role, fwhere(f, lp['l']), 'reads of the text / stores into the result not recognised')
        return 0
    bad = None
    try:
        for N in range(0, 25):
            ev0 = bounded.Bound(prog, f, {}, {lt: N})
            init = ev0.ev(cl['init'])
            # trip count: the loop condition evaluated along the arithmetic progression of the counter
            trips = 0
            while trips <= 64 and bounded.Bound(prog, f, {cl['var']: init + trips * step}, {lt: N}).ev(cl['cond']):
                trips += 1
            if trips > 64:
                trips = None
            ctx.evaluations += 1
            if trips != N // 2:
                bad = 'for a text of %d characters the loop runs %s times, not %d: %s' % (N, trips, N // 2, 'reads past the text' if trips is None or trips > N // 2 else 'the last pair is dropped')
                break
            for t in range(trips or 0):
                ev = bounded.Bound(prog, f, {cl['var']: init + t * step}, {lt: N})
                for kind, a_, b_, e in reads:
                    lo = ev.ev(a_)
                    hi = ev.ev(b_) if b_ is not None else lo + 1
                    if not (0 <= lo <= hi <= N):
                        bad = 'for a text of %d characters `%s` reads [%d, %d)' % (N, pe(e), lo, hi)
                for e in stores:
                    i_ = ev.ev(e['a'][0])
                    if not 0 <= i_ < N // 2:
                        bad = 'for a text of %d characters the result element %d is written, the result has %d' % (N, i_, N // 2)
            if bad:
                break
    except bytesets.Undecidable as u:
        ctx.undecided('C15.stride', f['pq'], role, fwhere(f, lp['l']), 'not evaluable: %s' % u)
        return 0
    res = [v for s_ in ir.walk_stmts(f['body']) if s_.get('k') == 'decl' for v in s_['vars'] if T(f, v['t']).get('recp') == 'asl::Array' and strip(v.get('init') or {}).get('k') == 'construct' and strip(v['init']).get('a')]
    if bad is None and len(res) == 1:
        try:
            for N in range(0, 25):
                got = bounded.Bound(prog, f, {}, {lt: N}).ev(strip(res[0]['init'])['a'][0])
                if got != N // 2:
                    bad = 'for a text of %d characters the result is allocated with %d elements, not %d' % (N, got, N // 2)
                    break
        except bytesets.Undecidable:
            pass
    ctx.check(bad is None, 'C15.stride', f['pq'], role, fwhere(f, lp['l']), 'length/2 iterations, reads inside the text, stores inside the length/2-element result for lengths 0..24', 'decodeHex: %s' % bad)
    return 1


def check_stride(ctx, prog):
    n = 0
    # full-block consumers
    f = fn1(prog, 'asl::SHA1::update', None)
    ctx.analysed(f)
    n += block_loop(ctx, prog, f, 64, lambda e: e.get('k') == 'call' and (e.get('pq') or e.get('fn') or '').endswith('transform'), 'update:block loop bound',
                    decided_by=_SHAPAD.get(id(prog)))
    f = fn1(prog, 'asl::decodeHex', None)
    ctx.analysed(f)
    import scansim
    try:
        n += interp_decode_hex(ctx, prog, f)
    except (scansim.Unsupported, TypeError, KeyError, IndexError):
        n += hex_pairs(ctx, prog, f)
    # guarded reads of the encoder: every data[...] read stays inside [0, n) under its guards
    f = fn1(prog, 'asl::encodeBase64', '(const unsigned char *,int)')
    ctx.analysed(f)
    if _ABS_DECIDED.get(id(prog)):
        # reads, output length and padding were decided by interpreting the whole body (abs_base64_encoder)
        ctx.floor('C15.stride', n + 1, 3)
        return
    g = q.Guarded(f)
    data, nparam = f['params'][0], f['params'][1]
    reads = [e for e in fn_exprs(f) if e.get('k') == 'idx' and strip(e['b']).get('id') == data['id']]
    role = 'encodeBase64:guarded tail reads'
    verdicts = []
    for e in reads:
        try:
            by_id, by_text = bounded.atoms_of(prog, f, e['i'], allow_assigned=tuple(bounded.assigned_vars(f)))
        except bytesets.Undecidable as u:
            verdicts.append(('undecided', str(u), e))
            continue
        by_id[nparam['id']] = nparam['n']
        wr = bounded.writes_between(g, f, set(by_id), g.of(e), e)
        if wr is not None:
            verdicts.append(('undecided', 'index variable written (line %s) between its guard and the read' % wr.get('l'), e))
            continue
        ix = e['i']
        st, info = bounded.decide(prog, f, g.of(e), lambda ev: 0 <= ev.ev(ix) < ev.env[nparam['id']], by_id, by_text, range(0, 9), G=g)
        ctx.evaluations += 81
        verdicts.append((st, info, e))
    if len(reads) >= 3:
        n += 1
    bad = [v for v in verdicts if v[0] == 'fails']
    und = [v for v in verdicts if v[0] == 'undecided']
    carried = set()
    for lp_ in ir.walk_stmts(f['body']):
        if lp_.get('k') in ('for', 'while', 'do'):
            for w in ir.stmt_exprs(lp_):
                if w.get('k') == 'bin' and w.get('op', '').endswith('=') and w['op'] not in ('==', '!=', '<=', '>=') and strip_lv(w['x']).get('k') == 'var':
                    carried.add((strip_lv(w['x'])['id'], id(lp_)))
                if w.get('k') == 'un' and w.get('op') in ('post++', 'pre++', 'post--', 'pre--') and strip_lv(w['e']).get('k') == 'var':
                    carried.add((strip_lv(w['e'])['id'], id(lp_)))
    def outside_its_loop(e):
        # the read uses a counter that an earlier loop advanced: its value is fixed by that loop, not free under the guards
        ids = set(w.get('id') for w in walk_expr(e['i']) if w.get('k') == 'var')
        for vid, lid in carried:
            if vid in ids:
                lp_ = [x for x in ir.walk_stmts(f['body']) if id(x) == lid][0]
                if not any(w is e for w in ir.stmt_exprs(lp_) for w in walk_expr(w)):
                    return True
        return False
    if bad and outside_its_loop(bad[0][2]):
        ctx.undecided('C15.stride', f['pq'], role, fwhere(f, bad[0][2]['l']), '`%s` is indexed by a counter left over from an earlier loop: its range is not decided by the guards alone' % pe(bad[0][2]))
    elif bad:
        st, info, e = bad[0]
        ctx.violation('C15.stride', f['pq'], role, fwhere(f, e['l']), '`%s` is read although its guards admit %s: reads past the input when its length is not a multiple of 3' % (
            pe(e), ', '.join('%s = %s' % kv for kv in sorted(info.items()))))
    elif und:
        ctx.undecided('C15.stride', f['pq'], role, fwhere(f, und[0][2]['l']), '`%s`: %s' % (pe(und[0][2]), und[0][1]))
    else:
        ctx.ok('C15.stride', f['pq'], role, fwhere(f), '%d reads of the input, each within [0, n) for every (offset, n) its guards admit' % len(reads))
    ctx.floor('C15.stride', n, 3)
    # padding arithmetic of the encoder: the output is sized 4 * ceil(n / 3) for every n
    outs = [v for s_ in ir.walk_stmts(f['body']) if s_.get('k') == 'decl' for v in s_['vars'] if T(f, v['t']).get('rec') == 'asl::String' and strip(v.get('init') or {}).get('k') == 'construct' and strip(v['init']).get('a')]
    role = 'encodeBase64:output length 4*ceil(n/3)'
    if len(outs) != 1:
        ctx.undecided('C15.stride', f['pq'], role, fwhere(f), 'output string construction not found')
    else:
        args = strip(outs[0]['init'])['a']
        try:
            bad = None
            for nv in range(0, 40):
                ev = bytesets.Evaluator(prog, f, {nparam['id']: nv})
                got = ev.ev(args[-1])
                ctx.evaluations += 1
                if got != 4 * ((nv + 2) // 3) and bad is None:
                    bad = (nv, got)
            ctx.check(bad is None, 'C15.stride', f['pq'], role, fwhere(f, outs[0]['l']), '`%s` = 4 * ceil(n / 3) for n = 0..39' % pe(args[-1]),
                      'encodeBase64 sizes its output as `%s`, which is %s for n = %s, not 4 * ceil(n / 3)' % (pe(args[-1]), bad[1] if bad else '', bad[0] if bad else ''))
        except bytesets.Undecidable as u:
            ctx.undecided('C15.stride', f['pq'], role, fwhere(f, outs[0]['l']), 'output length not evaluable from n: %s' % u)


def check_sha_padding(ctx, prog):
    """C15.shapad: the sequence of 64-byte blocks SHA1::update()/end() hand to transform() is exactly the FIPS 180-4 padding of
    the message (message, 0x80, zeros to 56 mod 64, 64-bit big-endian bit length) for every message length 0..200 and for the
    message split over two update() calls.  update() and end() are interpreted (scansim) with the data abstracted to a marker
    byte and transform() replaced by a recorder: control in these functions depends on lengths only."""
    import scansim
    upd = fn1(prog, 'asl::SHA1::update')
    end = fn1(prog, 'asl::SHA1::end')
    ctx.analysed(end)
    role = 'SHA1:blocks handed to transform() are the FIPS 180-4 padded message'

    def ignore(st):
        # digest extraction and wiping of the object do not take part in block bookkeeping
        from ir import stmt_exprs
        for e in stmt_exprs(st):
            if e.get('k') == 'mem' and e.get('f') == 'state':
                return True
            if e.get('k') == 'call' and e.get('fn') == 'memset':
                return True
            if e.get('k') == 'var' and T(end, e.get('dt') or e.get('t')).get('rec'):
                return True
        if st.get('k') == 'decl' and all(T(end, v['t']).get('rec') for v in st['vars']):
            return True
        return False
    bad = None
    und = None
    runs = 0
    lengths = list(range(0, 200)) if ctx.tier == 'thorough' else list(range(0, 131))
    for L in lengths:
        for split in sorted(set([L, L // 2, min(L, 1), min(L, 63), min(L, 64)])):
            blocks = []

            def transform(run, e, args, blocks=blocks):
                p_ = args[0]
                blocks.append([run.load(('P', p_[1], p_[2] + j), e.get('l')) for j in range(64)])
                return None
            bufs = {'DATA': [0x41] * L, 'M.count': [0, 0], 'M.buffer': [0] * 64, 'M.state': [0] * 5}
            mems = {'count': ('P', 'M.count', 0), 'buffer': ('P', 'M.buffer', 0), 'state': ('P', 'M.state', 0)}
            methods = {'transform': transform, 'update': 'interp'}
            try:
                for (off, n_) in ((0, split), (split, L - split)):
                    if n_ == 0 and L != 0 and split != L:
                        continue
                    r = scansim.Run(prog, upd, bufs, ptr_params={upd['params'][0]['id']: ('P', 'DATA', off)}, int_params={upd['params'][1]['id']: n_}, mems=mems, methods=methods, ignore=ignore)
                    r.run()
                    if split == L:
                        break
                r = scansim.Run(prog, end, bufs, mems=mems, methods=methods, ignore=ignore)
                r.run()
            except scansim.OOB as o:
                bad = (L, split, 'out-of-bounds access: %s' % o)
                break
            except scansim.Unsupported as u:
                und = (L, str(u))
                break
            runs += 1
            want = [0x41] * L + [0x80]
            while len(want) % 64 != 56:
                want.append(0)
            want += [(L * 8 >> (8 * (7 - i))) & 255 for i in range(8)]
            got = [b & 255 for blk in blocks for b in blk]
            if got != want:
                bad = (L, split, '%d block(s) of %d expected; first difference at byte %s' % (len(blocks), len(want) // 64, next((i for i, (a_, b_) in enumerate(zip(got, want)) if a_ != b_), min(len(got), len(want)))))
                break
        if bad or und:
            break
    # long messages: end() alone, from the state update() leaves after a whole number of blocks, with a bit count whose eight
    # bytes are all different / sit in the upper bytes of either word (2 MiB and more) - the trailer is the count, big-endian
    if not bad and not und:
        for hi, lo in ((0x01020304, 0x05060800), (0, 0x01000000), (0, 0xff000000), (1, 0), (0x80000000, 0x00000200)):
            blocks = []

            def transform(run, e, args, blocks=blocks):
                p_ = args[0]
                blocks.append([run.load(('P', p_[1], p_[2] + j), e.get('l')) for j in range(64)])
                return None
            bufs = {'M.count': [lo, hi], 'M.buffer': [0] * 64, 'M.state': [0] * 5}
            mems = {'count': ('P', 'M.count', 0), 'buffer': ('P', 'M.buffer', 0), 'state': ('P', 'M.state', 0)}
            try:
                scansim.Run(prog, end, bufs, mems=mems, methods={'transform': transform, 'update': 'interp'}, ignore=ignore).run()
            except scansim.OOB as o:
                bad = ((hi << 32 | lo) // 8, (hi << 32 | lo) // 8, 'out-of-bounds access: %s' % o)
                break
            except scansim.Unsupported as u:
                und = ((hi << 32 | lo) // 8, str(u))
                break
            runs += 1
            bits = hi << 32 | lo
            want = [0x80] + [0] * 55 + [(bits >> (8 * (7 - i))) & 255 for i in range(8)]
            got = [b & 255 for blk in blocks for b in blk]
            if got != want:
                d = next((i for i, (a_, b_) in enumerate(zip(got, want)) if a_ != b_), min(len(got), len(want)))
                bad = (bits // 8, bits // 8, 'the final block is not 0x80, zeros and the 64-bit big-endian bit length %016x: first difference at byte %s (%s instead of %s)' % (
                    bits, d, '%02x' % got[d] if d < len(got) else 'nothing', '%02x' % want[d] if d < len(want) else 'nothing'))
                break
    ctx.evaluations += runs
    if bad:
        ctx.violation('C15.shapad', end['pq'], role, fwhere(end), 'for a %d-byte message (fed as %d + %d bytes) the blocks passed to transform() are not the FIPS 180-4 padding: %s' % (bad[0], bad[1], bad[0] - bad[1], bad[2]))
    elif und:
        ctx.undecided('C15.shapad', end['pq'], role, fwhere(end), 'outside the interpreted fragment (message length %d): %s' % und)
    else:
        _SHAPAD[id(prog)] = ('the block loop is not in offset/length counting form; decided by interpretation of update() (C15.shapad): for every message of 0..%d bytes fed whole '
                             'and in two pieces, exactly the full blocks reach transform() and no read leaves the %s-byte input' % (lengths[-1], 'L'))
        ctx.ok('C15.shapad', end['pq'], role, fwhere(end), '%d (length, split) histories: block sequence = message, 0x80, zeros, 64-bit big-endian bit length' % runs)


def interp_decode_base64(ctx, prog):
    """decodeBase64 decided by interpretation (scansim; result array, inverse table and the white-space helper interpreted from
    the source): for payloads of 0..7 bytes the RFC 4648 text - plain, and with each of space, tab, CR, LF inserted at every
    position (and CR LF line breaks) - must decode to the payload, with no access outside the text or the result."""
    import scansim, base64
    fs = [g for g in prog.fn('asl::decodeBase64', '(const char *,int)') if g.get('body')]
    if not fs:
        return
    f = fs[0]
    ctx.analysed(f)
    role = 'decodeBase64:text with interleaved white space decodes to the payload'
    bad = None
    runs = 0
    try:
        for L in range(0, 8):
            payload = bytes((37 * k + 11 * L + 200) & 255 for k in range(L))
            enc = base64.b64encode(payload).decode()
            variants = [enc]
            for ws in ' \t\r\n':
                for pos in range(0, len(enc) + 1):
                    variants.append(enc[:pos] + ws + enc[pos:])
            variants.append('\r\n'.join(enc[i:i + 4] for i in range(0, len(enc), 4)) + '\r\n')
            for text in variants:
                for nlen in (-1, len(text)):
                    bufs = {'IN': [ord(c) for c in text] + [0]}
                    r = scansim.Run(prog, f, bufs, ptr_params={f['params'][0]['id']: ('P', 'IN', 0)}, int_params={f['params'][1]['id']: nlen}, objects=True)
                    runs += 1
                    try:
                        ret = r.run()
                    except scansim.OOB as o:
                        bad = 'decoding %r: %s' % (text, o)
                        break
                    if not (isinstance(ret, tuple) and ret[0] == 'P' and ret[1][0] == 'O'):
                        raise scansim.Unsupported('result is not the local array')
                    got = bytes(x & 255 for x in bufs[ret[1]] if isinstance(x, int))
                    if got != payload:
                        bad = 'the text %r decodes to %r, the payload was %r' % (text, got, payload)
                        break
                if bad:
                    break
            if bad:
                break
    except (scansim.Unsupported, TypeError, KeyError, IndexError) as u:
        ctx.info['decodeBase64_interpretation'] = 'outside the interpreted fragment: %s' % u
        return
    ctx.evaluations += runs
    ctx.check(bad is None, 'C15.decode', f['pq'], role, fwhere(f), 'interpreted on %d texts (payloads of 0..7 bytes; space, tab, CR, LF at every position; CRLF line breaks; with and without the length argument)' % runs,
              'decodeBase64: %s' % bad)


def check_decode(ctx, prog):
    interp_decode_base64(ctx, prog)
    # Url::decode look-ahead (same obligation as C09.lookahead, decided by the same rule)
    import C09
    C09.url_decode_lookahead(ctx, prog, 'C15.decode')

    # decodeBase64
    f = fn1(prog, 'asl::decodeBase64', '(const char *,int)')
    ctx.analysed(f)
    # (a) main loop bounded by the given length
    loops = [s_ for s_ in ir.walk_stmts(f['body']) if s_.get('k') in ('while', 'for')]
    main = [lp for lp in loops if any(inverse_map(prog)[1](e) for e in ir.stmt_exprs(lp['body']))]
    lenvar = None
    for s_ in ir.walk_stmts(f['body']):
        if s_.get('k') == 'decl':
            for v in s_['vars']:
                ini = strip(v.get('init') or {})
                if ini.get('k') == 'cond' and any(w.get('k') == 'call' and w.get('fn') == 'strlen' for w in walk_expr(ini)):
                    lenvar = v['id']
    role = 'decodeBase64:loop bounded by the given length'
    if len(main) != 1 or lenvar is None:
        ctx.undecided('C15.decode', f['pq'], role, fwhere(f), 'decoding loop or effective length (n < 0 ? strlen : n) not found')
    else:
        # some conjunct of the loop condition is `cursor < base + len` or `index < len`, read through single-assignment locals
        okb = False
        mentions = False
        for part in conj(main[0]['c']):
            part = strip(part)
            ex = q.expand(f, part, stop=(lenvar,))
            if any(w.get('k') == 'var' and w.get('id') == lenvar for w in walk_expr(ex)):
                mentions = True
                ex = strip(ex)
                if ex.get('k') == 'bin' and ex.get('op') in ('<', '>', '!='):
                    hi = strip(ex['y'] if ex['op'] in ('<', '!=') else ex['x'])
                    if hi.get('k') == 'var' and hi.get('id') == lenvar:
                        okb = True
                    if hi.get('k') == 'bin' and hi.get('op') == '+' and lenvar in (strip(hi['x']).get('id'), strip(hi['y']).get('id')):
                        okb = True
        if okb:
            ctx.ok('C15.decode', f['pq'], role, fwhere(f, main[0]['l']), 'loop condition `%s` stops at base + len' % pe(main[0]['c']))
        elif mentions:
            ctx.undecided('C15.decode', f['pq'], role, fwhere(f, main[0]['l']), 'loop condition `%s` involves the length in an unrecognised way' % pe(main[0]['c']))
        else:
            ctx.violation('C15.decode', f['pq'], role, fwhere(f, main[0]['l']),
                          'the decoding loop `%s` is not bounded by the given length (it runs to the terminator while the result is sized from the length): writes past the result when n < strlen' % pe(main[0]['c']))
    # (b) result sized from the same length: len / 4 * 3 for every len
    role = 'decodeBase64:result sized len/4*3'
    res = [v for s_ in ir.walk_stmts(f['body']) if s_.get('k') == 'decl' for v in s_['vars'] if T(f, v['t']).get('recp') == 'asl::Array' and strip(v.get('init') or {}).get('k') == 'construct' and strip(v['init']).get('a')]
    if len(res) != 1 or lenvar is None:
        ctx.undecided('C15.decode', f['pq'], role, fwhere(f), 'result array construction not found')
    else:
        arg = strip(res[0]['init'])['a'][0]
        try:
            bad = None
            for lv in range(0, 41):
                got = bytesets.Evaluator(prog, f, {lenvar: lv}).ev(arg)
                ctx.evaluations += 1
                if got < (lv // 4) * 3 and bad is None:
                    bad = (lv, got)
            ctx.check(bad is None, 'C15.decode', f['pq'], role, fwhere(f, res[0]['l']), '`%s` >= len / 4 * 3 for len = 0..40' % pe(arg),
                      'the result is allocated with `%s` = %s bytes for a text of %s symbols, fewer than the len / 4 * 3 the loop can write' % (pe(arg), bad[1] if bad else '', bad[0] if bad else ''))
        except bytesets.Undecidable as u:
            ctx.undecided('C15.decode', f['pq'], role, fwhere(f, res[0]['l']), 'allocation size not evaluable from the length: %s' % u)
    # (c) padding count loop: continues over '=' and over every byte the forward loop skips as whitespace, stops at symbols
    back = [lp for lp in loops if lp not in main]
    role = 'decodeBase64:padding count spans interleaved whitespace'
    if len(back) < 1:
        ctx.undecided('C15.decode', f['pq'], role, fwhere(f), 'no backward padding scan found')
    else:
        # the loop that increments the padding counter
        cnt = [lp for lp in back if any(e.get('k') == 'un' and e.get('op') in ('post++', 'pre++') and T(f, strip_lv(e['e']).get('t')).get('int') for e in ir.stmt_exprs(lp['body']))]
        if len(cnt) != 1:
            ctx.undecided('C15.decode', f['pq'], role, fwhere(f), 'padding counting loop not unique')
        else:
            lp = cnt[0]
            def is_cur(e):
                e2 = strip_lv(e)
                return e2.get('k') == 'un' and e2.get('op') == '*' and strip(e2['e']).get('k') == 'var' and T(f, strip(e2['e']).get('t')).get('ptr')
            def is_ptr_range(p):
                p = strip(p)
                return p.get('k') == 'bin' and p.get('op') in ('>', '>=', '<', '!=') and T(f, strip(p['x']).get('t')).get('ptr')
            # continue set = bytes for which the loop condition holds and no `if (c) break;` of the body fires
            parts = [p for p in conj(lp['c']) if not is_ptr_range(p)]
            body = lp['body']['s'] if lp['body'].get('k') == 'block' else [lp['body']]
            stops = [st['c'] for st in body if st.get('k') == 'if' and not st.get('else') and q.always_exits(st['then']) and
                     any(x.get('k') in ('break', 'return') for x in ir.walk_stmts(st['then']))]
            try:
                cont = set(range(256))
                for p in parts:
                    cont &= bytesets.byteset(prog, f, p, is_cur, signed=False)
                for c in stops:
                    cont -= bytesets.byteset(prog, f, c, is_cur, signed=False)
                ctx.evaluations += 256
                ws = set()
                for e in ir.stmt_exprs(main[0]['body']) if main else []:
                    if e.get('k') == 'call' and (e.get('fn') or '').endswith('myisspace'):
                        ws = bytesets.byteset(prog, f, e, is_cur, signed=True)
                symbols = set(ord(c) for c in RFC4648)
                ok = ord('=') in cont and ws <= cont and not (symbols & cont)
                ctx.check(ok, 'C15.decode', f['pq'], role, fwhere(f, lp['l']), 'scan continues over %s' % bytesets.fmt_set(cont - set(range(128, 256)) - set(range(0, 9))),
                          "the loop that counts '=' continues over %s: it must continue over '=' and over the whitespace the decoder skips %s and stop at the 64 symbols, else padding split by whitespace is miscounted"
                          % (bytesets.fmt_set(cont & set(range(9, 128))), bytesets.fmt_set(ws)))
            except bytesets.Undecidable as ex:
                ctx.undecided('C15.decode', f['pq'], role, fwhere(f, lp['l']), 'loop condition not evaluable: %s' % ex)
    # (d) R-NEGLEN: the final resize() argument is >= 0 whatever the written count and the padding count are
    rs = [e for e in fn_exprs(f) if e.get('k') == 'call' and e.get('pq') == 'asl::Array::resize']
    last = rs[-1] if rs else None
    role = 'decodeBase64:final length clamped'
    if last is None:
        ctx.undecided('R-NEGLEN', f['pq'], role, fwhere(f), 'no final resize() found')
    else:
        arg = last['a'][0]
        atoms = {}
        def opaque(e):
            # pointer differences and (reassigned) counters are opaque integers
            if e.get('k') == 'bin' and e.get('op') == '-' and T(f, strip(e['x']).get('t')).get('ptr'):
                return True
            if e.get('k') == 'var' and e.get('vk') in ('local', 'param') and e['id'] not in q.single_defs(f) and T(f, e.get('t')).get('int') and 'cv' not in e:
                return True
            return False
        arg_x = q.expand(f, arg)
        for w in walk_expr(arg_x):
            if opaque(w):
                atoms[pe(w)] = w
        class Ev(bytesets.Evaluator):
            def __init__(self, vals):
                bytesets.Evaluator.__init__(self, prog, f)
                self.vals = vals
            def ev(self, e):
                if e is not None and opaque(e) and pe(e) in self.vals:
                    return self.vals[pe(e)]
                return bytesets.Evaluator.ev(self, e)
        names = sorted(atoms)
        if not names or len(names) > 3:
            ctx.undecided('R-NEGLEN', f['pq'], role, fwhere(f, last['l']), 'resize argument `%s` depends on %d opaque quantities' % (pe(arg), len(names)))
        else:
            import itertools
            bad = None
            try:
                for vals in itertools.product(range(0, 7), repeat=len(names)):
                    got = Ev(dict(zip(names, vals))).ev(arg_x)
                    ctx.evaluations += 1
                    if got < 0 and bad is None:
                        bad = (dict(zip(names, vals)), got)
                ctx.check(bad is None, 'R-NEGLEN', f['pq'], role, fwhere(f, last['l']), '`%s` >= 0 for all non-negative %s' % (pe(arg), ', '.join(names)),
                          'the final resize(`%s`) is %s for %s: padding-only input yields a negative length' % (pe(arg), bad[1] if bad else '', bad[0] if bad else ''))
            except bytesets.Undecidable as u:
                ctx.undecided('R-NEGLEN', f['pq'], role, fwhere(f, last['l']), 'resize argument not evaluable: %s' % u)


def conj(c):
    c = strip(c)
    if c.get('k') == 'bin' and c.get('op') == '&&':
        return conj(c['x']) + conj(c['y'])
    return [c]



def check_join_empty(ctx, prog):
    """C15.query (empty dictionary): `Url::params(d)` is `d.join('&', '=')`, and `parseQuery(params(d)) = d` includes the dictionary
    without entries.  `Map::join(s1, s2)` is interpreted (scansim) for that case - its enumeration loops do not run (they are
    skipped), `length()` is 0: the straight-line remainder must yield the empty string without a negative length or an access
    outside a string (a separator trimmed off a text that has none)."""
    import scansim
    fs = [g for g in prog.functions if g.get('pq') == 'asl::Map::join' and g.get('body') and len(g['params']) == 2]
    if not fs:
        ctx.info['join_empty'] = 'no two-separator Map::join instantiated in the analysed units'
        return
    f = fs[0]
    ctx.analysed(f)
    role = 'join:empty dictionary gives the empty string'

    def skip(st):
        if st.get('k') not in ('for', 'while', 'do'):
            return False
        return any('numerator' in (w.get('fn') or w.get('cls') or w.get('pq') or '') or (w.get('k') == 'var' and w.get('n') == '_b_') for e in ir.stmt_exprs(st) for w in walk_expr(e))
    bufs = {}
    r = scansim.Run(prog, f, bufs, mems={}, methods={'length': lambda run, e, args: 0, '*': 'interp'}, objects=True, ignore=skip)
    for p_, txt in zip(f['params'], ('&', '=')):
        bufs[('O', p_['id'])] = [ord(c) for c in txt] + [0]
        r.objlen[p_['id']] = len(txt)
        r.strobjs.add(p_['id'])
    try:
        ret = r.run()
    except scansim.OOB as o:
        ctx.violation('C15.query', f['pq'], role, fwhere(f), 'for a dictionary without entries join() leaves its strings: %s - Url::params({}) crashes instead of returning ""' % o)
        return
    except (scansim.Unsupported, TypeError, KeyError, IndexError, ValueError) as u:
        ctx.info['join_empty'] = 'outside the interpreted fragment: %s' % u
        return
    ctx.evaluations += 1
    out = bufs.get(ret[1]) if isinstance(ret, tuple) and len(ret) > 1 else None
    ctx.check(out is not None and out[:1] == [0], 'C15.query', f['pq'], role, fwhere(f), 'interpreted with the enumeration skipped: the result is ""',
              'for a dictionary without entries join() returns %s instead of the empty string' % (out,))
