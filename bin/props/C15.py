"""C15 - Base64 / hex / percent-encoding / SHA-1: structural clauses decided statically.

 C15.tables   the Base64 alphabet is RFC 4648, the inverse table has 256 entries and inverts it on all 64 symbols, encoder indices
              are masked to 6 bits; the hex nibble table has 16 valid digits indexed by 4-bit values
 C15.urlset   exact byte sets of Url::encode in both modes: '%' is always escaped; in component mode & = + are escaped too; every
              escaped byte is written as '%' + two digits of the nibble table, which strtoul(..,16) inverts; parseQuery splits on
              characters that params() escapes
 C15.stride   block loops: encodeBase64 reads data[i+1], data[i+2] only under i+j < n; decodeHex and SHA1::update consume exactly the
              full blocks (loop bound i + (B-1) < N for stride B)
 C15.decode   Url::decode look-ahead is dominated by the length guard; decodeBase64 stops at the given length, sizes its result from
              the same length, counts '=' padding across interleaved whitespace, and never resizes to a negative length
 SHA-1 = FIPS 180-4 for every message and full Base64 round trips are not decided."""
import os
import ir, q, bytesets
from ir import strip, strip_lv, const_val, T, pe, walk_expr, fn_exprs, AnalysisBroken
from core import fwhere

RFC4648 = 'ABCDEFGHIJKLMNOPQRSTUVWXYZabcdefghijklmnopqrstuvwxyz0123456789+/'


def run(ctx):
    units = [os.path.join(ir.REPO, 'src', x) for x in ('util.cpp', 'Http.cpp', 'SHA1.cpp')]
    if ctx.tier == 'thorough':
        units += [u for u in ir.library_units() if u not in units]
    prog = ir.load_units(units)
    ctx.use_program(prog)
    check_tables(ctx, prog)
    check_urlset(ctx, prog)
    check_stride(ctx, prog)
    check_decode(ctx, prog)
    return __doc__.split('\n\n', 1)[1]


def fn1(prog, name, sig=None):
    fs = [f for f in prog.fn(name, sig) if f.get('body')]
    if not fs:
        raise AnalysisBroken('anchor %s not found' % name)
    return fs[0]


def check_tables(ctx, prog):
    g = prog.globals.get('asl::base64_chars')
    gi = prog.globals.get('asl::base64_chars_inv')
    if not g or not gi:
        raise AnalysisBroken('base64 tables not found: %s' % [k for k in prog.globals if 'base64' in k])
    alpha = bytes(g['init']['b']).decode('latin-1') if g.get('init', {}).get('k') == 'str' else None
    where = '%s:%d' % (g['file'], g['line'])
    ctx.check(alpha == RFC4648, 'C15.tables', 'asl::base64_chars', 'alphabet is RFC 4648', where, '64 symbols', 'Base64 alphabet `%s` is not the RFC 4648 alphabet' % alpha)
    inv = gi.get('vals')
    wherei = '%s:%d' % (gi['file'], gi['line'])
    ctx.check(inv is not None and len(inv) == 256, 'C15.tables', 'asl::base64_chars_inv', 'inverse table has 256 entries', wherei, '256 entries',
              'inverse table has %s entries: a byte >= that index reads out of bounds' % (len(inv) if inv else None))
    if inv and alpha:
        bad = [ch for i, ch in enumerate(alpha) if ord(ch) >= len(inv) or inv[ord(ch)] != i]
        ctx.evaluations += 64
        ctx.check(not bad, 'C15.tables', 'asl::base64_chars_inv', 'inverse table inverts the alphabet', wherei, 'all 64 symbols map back to their index',
                  'inverse table entry for symbol(s) %s does not equal the symbol\'s index in the alphabet' % bad[:8])
    f = fn1(prog, 'asl::encodeBase64', '(const unsigned char *,int)')
    ctx.analysed(f)
    idx = [e for e in fn_exprs(f) if e.get('k') == 'idx' and strip(e['b']).get('q') == 'asl::base64_chars']
    masked = [e for e in idx if strip(e['i']).get('k') == 'bin' and strip(e['i']).get('op') == '&' and const_val(strip(e['i'])['y']) == 0x3f]
    shifts = sorted(const_val(strip(strip(e['i'])['x'])['y']) if strip(strip(e['i'])['x']).get('op') == '>>' else 0 for e in masked)
    ctx.check(len(idx) == 4 and len(masked) == 4 and shifts == [0, 6, 12, 18], 'C15.tables', f['pq'], 'encodeBase64:four 6-bit indices', fwhere(f),
              'indices (u >> 18,12,6,0) & 0x3f', 'encodeBase64 does not index the alphabet with the four 6-bit groups (u >> 18, 12, 6, 0) & 0x3f: shifts %s, %d of %d masked' % (shifts, len(masked), len(idx)))
    # 24-bit group assembly
    ors = [e for e in fn_exprs(f) if e.get('k') == 'bin' and e.get('op') == '<<' and const_val(e['y']) in (16, 8)]
    ctx.check(sorted(set(const_val(e['y']) for e in ors)) == [8, 16], 'C15.tables', f['pq'], 'encodeBase64:24-bit group', fwhere(f), '(a << 16) | (b << 8) | c', 'encodeBase64 does not assemble the 24-bit group as (a << 16) | (b << 8) | c')
    # decode side assembles (k0 << 18) | (k1 << 12) | (k2 << 6) | k3 and splits into >>16, >>8 & 0xff, & 0xff
    f = fn1(prog, 'asl::decodeBase64', '(const char *,int)')
    ctx.analysed(f)
    shl = sorted(set(const_val(e['y']) for e in fn_exprs(f) if e.get('k') == 'bin' and e.get('op') == '<<' and const_val(e['y']) is not None))
    shr = sorted(set(const_val(e['y']) for e in fn_exprs(f) if e.get('k') == 'bin' and e.get('op') == '>>' and const_val(e['y']) is not None))
    ctx.check(shl == [6, 12, 18] and shr == [8, 16], 'C15.tables', f['pq'], 'decodeBase64:group assembly', fwhere(f), '<< 18,12,6 then >> 16,8', 'decodeBase64 group assembly uses shifts << %s and >> %s' % (shl, shr))
    # hex nibble table
    f = fn1(prog, 'asl::hexNibble')
    ctx.analysed(f)
    tab = None
    for s_ in ir.walk_stmts(f['body']):
        if s_.get('k') == 'decl':
            for v in s_['vars']:
                ini = strip(v.get('init') or {})
                if ini.get('k') == 'str':
                    tab = bytes(ini['b']).decode('latin-1')
    okk = tab is not None and len(tab) == 16 and all(int(ch, 16) == i for i, ch in enumerate(tab))
    ctx.check(okk, 'C15.tables', f['pq'], 'hexNibble:16 hex digits in order', fwhere(f), 'table `%s`' % tab, 'hexNibble table `%s` is not the 16 hexadecimal digits in value order' % tab)
    f = fn1(prog, 'asl::encodeHex', '(const unsigned char *,int)')
    ctx.analysed(f)
    sn = [e for e in fn_exprs(f) if e.get('k') == 'call' and e.get('fn') == 'snprintf']
    okk = False
    if len(sn) == 1:
        fmt = strip(sn[0]['a'][2])
        dst = strip(sn[0]['a'][0])
        okk = fmt.get('k') == 'str' and bytes(fmt['b']).decode() in ('%02x',) and const_val(sn[0]['a'][1]) == 3 and any(w.get('k') == 'bin' and w.get('op') == '*' and const_val(w['x']) == 2 for w in walk_expr(dst))
    ctx.check(okk, 'C15.tables', f['pq'], 'encodeHex:two lowercase digits per byte', fwhere(f), 'snprintf(&h[2*i], 3, "%02x", data[i])', 'encodeHex does not write exactly two lowercase hex digits per byte at offset 2*i')


def check_urlset(ctx, prog):
    f = fn1(prog, 'asl::Url::encode')
    ctx.analysed(f)
    ifs = [s_ for s_ in ir.walk_stmts(f['body']) if s_.get('k') == 'if']
    if len(ifs) != 1:
        raise AnalysisBroken('Url::encode: single escape decision not found')
    s_ = ifs[0]
    cvar = None
    for st in ir.walk_stmts(f['body']):
        if st.get('k') == 'decl':
            for v in st['vars']:
                if T(f, v['t']).get('bits') == 8:
                    cvar = v
    comp = f['params'][1]
    if cvar is None:
        raise AnalysisBroken('Url::encode: character variable not found')
    signed = bool(T(f, cvar['t']).get('sg'))
    sets = {}
    for mode in (0, 1):
        try:
            esc = bytesets.byteset(prog, f, s_['c'], lambda e: e.get('k') == 'var' and e.get('id') == cvar['id'], signed=signed, extra_env={comp['id']: mode})
        except bytesets.Undecidable as ex:
            ctx.undecided('C15.urlset', f['pq'], 'encode:escape set', fwhere(f, s_['l']), 'escape condition not evaluable: %s' % ex)
            return
        sets[mode] = esc - {0}
        ctx.evaluations += 256
    ctx.info['url_unescaped_component'] = bytesets.fmt_set(set(range(1, 256)) - sets[1])
    ctx.info['url_unescaped_full'] = bytesets.fmt_set(set(range(1, 256)) - sets[0])
    for mode, name in ((0, 'full-URL mode'), (1, 'component mode')):
        ctx.check(ord('%') in sets[mode], 'C15.urlset', f['pq'], 'encode:%% escaped (%s)' % name, fwhere(f, s_['l']), "'%' is escaped",
                  "Url::encode leaves '%%' unescaped in %s: decode(encode(s)) != s for any s containing a percent sign followed by two hex digits" % name)
        ctx.check(all(b in sets[mode] for b in range(128, 256)) and all(b in sets[mode] for b in range(1, 33)), 'C15.urlset', f['pq'], 'encode:controls, space and non-ASCII escaped (%s)' % name, fwhere(f, s_['l']),
                  'bytes 0x01-0x20 and 0x80-0xff escaped', 'Url::encode leaves control, space or non-ASCII bytes unescaped in %s' % name)
    need = set(ord(c) for c in '&=+%')
    ctx.check(need <= sets[1], 'C15.urlset', f['pq'], 'encode:query metacharacters escaped in component mode', fwhere(f, s_['l']), '& = + % escaped',
              'component mode leaves %s unescaped: parseQuery(params(d)) splits or rewrites keys/values containing them' % sorted(chr(b) for b in need - sets[1]))
    # the escaped form: '%' then hexNibble(c >> 4) then hexNibble(c & 0x0f)
    calls = [e for e in ir.stmt_exprs(s_['then']) if e.get('k') == 'call' and (e.get('fn') or '').endswith('hexNibble')]
    hi = [c for c in calls if strip(c['a'][0]).get('op') == '>>' and const_val(strip(c['a'][0])['y']) == 4]
    lo = [c for c in calls if strip(c['a'][0]).get('op') == '&' and const_val(strip(c['a'][0])['y']) == 0x0f]
    order_ok = len(calls) == 2 and len(hi) == 1 and len(lo) == 1 and calls.index(hi[0]) < calls.index(lo[0]) if calls else False
    pct = [e for e in ir.stmt_exprs(s_['then']) if e.get('k') == 'int' and e.get('chr') and e.get('v') == ord('%')]
    ctx.check(bool(pct) and order_ok and not signed, 'C15.urlset', f['pq'], "encode:escaped byte written as %HL", fwhere(f, s_['l']), "'%' + high nibble + low nibble of the unsigned byte",
              "escaped bytes are not written as '%%' followed by the high and then the low nibble of the unsigned byte value (signed=%s)" % signed)
    # decode: '%' + 2 chars -> strtoul base 16
    d = fn1(prog, 'asl::Url::decode')
    ctx.analysed(d)
    st = [e for e in fn_exprs(d) if e.get('k') == 'call' and e.get('fn') == 'strtoul']
    ctx.check(len(st) == 1 and const_val(st[0]['a'][2]) == 16, 'C15.urlset', d['pq'], 'decode:two hex digits base 16', fwhere(d), 'strtoul(b, NULL, 16)', 'Url::decode does not convert the two characters after % with base 16')
    pq = fn1(prog, 'asl::Url::parseQuery')
    ctx.analysed(pq)
    seps = sorted(set(e['v'] for e in fn_exprs(pq) if e.get('k') == 'int' and e.get('chr')))
    ctx.check(set(seps) <= need | {32} and {ord('&'), ord('=')} <= set(seps), 'C15.urlset', pq['pq'], 'parseQuery:separators are escaped by params()', fwhere(pq), 'splits on %s' % [chr(x) for x in seps],
              'parseQuery splits/rewrites on %s, not all of which params() escapes' % [chr(x) for x in seps])
    # '+' -> ' ' belongs to the raw query text: it must be applied before percent-decoding, never to a decoded key/value
    plus_after = []
    for e in fn_exprs(pq):
        if e.get('k') == 'call' and (e.get('pq') or '').split('::')[-1] in ('replace', 'replaceme') and e.get('a') and any(w.get('k') == 'int' and w.get('v') == ord('+') for w in walk_expr(e['a'][0])):
            if any(w.get('k') == 'call' and w.get('pq') == 'asl::Url::decode' for w in walk_expr(e.get('obj') or {})):
                plus_after.append(e)
    plus_before = [e for e in fn_exprs(pq) if e.get('k') == 'call' and (e.get('pq') or '').split('::')[-1] in ('replace', 'replaceme') and e.get('a') and any(w.get('k') == 'int' and w.get('v') == ord('+') for w in walk_expr(e['a'][0]))
                   and e.get('obj') is not None and strip(e['obj']).get('k') == 'var' and strip(e['obj']).get('vk') == 'param']
    decs = [e for e in fn_exprs(pq) if e.get('k') == 'call' and e.get('pq') == 'asl::Url::decode']
    ctx.check(not plus_after and bool(plus_before) and len(decs) >= 2, 'C15.urlset', pq['pq'], "parseQuery:'+' rewritten before percent-decoding", fwhere(pq, plus_after[0]['l'] if plus_after else None),
              "replace('+',' ') on the raw query, then decode key and value", "parseQuery rewrites '+' to a space after percent-decoding (or not on the raw text): a literal '+' that params() wrote as %2B comes back as a space")
    pr = fn1(prog, 'asl::Url::params', '(const asl::Dic<asl::String> &)')
    ctx.analysed(pr)
    encs = [e for e in fn_exprs(pr) if e.get('k') == 'call' and e.get('pq') == 'asl::Url::encode']
    ctx.check(len(encs) == 2 and all(const_val(e['a'][1]) == 1 for e in encs), 'C15.urlset', pr['pq'], 'params:keys and values encoded in component mode', fwhere(pr), 'encode(k,true), encode(v,true)',
              'params() does not encode both key and value in component mode')


def loop_bound(f, lp):
    """for (...; i + k < N; i += B)  ->  (loop var id, k, N expr, B) or None"""
    c = strip(lp.get('c') or {})
    inc = strip(lp.get('inc') or {})
    if inc.get('k') == 'bin' and inc.get('op') == '+=' and const_val(inc['y']) is not None:
        iv = strip_lv(inc['x'])
        B = const_val(inc['y'])
    else:
        return None
    if c.get('k') != 'bin' or c.get('op') not in ('<', '<='):
        return None
    lhs, rhs = strip(c['x']), c['y']
    k = 0 if c['op'] == '<' else -1          # i + k <= N  ==  i + (k - 1) < N
    if lhs.get('k') == 'bin' and lhs.get('op') == '+' and const_val(lhs['y']) is not None:
        k = const_val(lhs['y'])
        lhs = strip(lhs['x'])
    if lhs.get('k') != 'var' or lhs.get('id') != iv.get('id'):
        return None
    r = strip(rhs)
    # a bound hoisted into a local initialised once (const int last = len - 64)
    if r.get('k') == 'var' and r.get('vk') == 'local':
        inits = [v for s_ in ir.walk_stmts(f['body']) if s_.get('k') == 'decl' for v in s_['vars'] if v['id'] == r['id'] and v.get('init') is not None]
        writes = [e for e in fn_exprs(f) if e.get('k') == 'bin' and e.get('op', '').endswith('=') and e['op'] not in ('==', '!=', '<=', '>=') and strip_lv(e['x']).get('id') == r['id']]
        if len(inits) == 1 and not writes:
            rhs = inits[0]['init']
            r = strip(rhs)
    if r.get('k') == 'bin' and r.get('op') == '-' and const_val(r['y']) is not None:
        k += const_val(r['y'])
        rhs = r['x']
    return iv['id'], k, rhs, B


def check_stride(ctx, prog):
    n = 0
    # full-block consumers
    for name, sig, B in (('asl::SHA1::update', None, 64), ('asl::decodeHex', None, 2)):
        f = fn1(prog, name, sig)
        ctx.analysed(f)
        loops = [s_ for s_ in ir.walk_stmts(f['body']) if s_.get('k') == 'for' and loop_bound(f, s_) and loop_bound(f, s_)[3] == B]
        role = '%s:block loop bound' % f['n']
        if len(loops) != 1:
            ctx.undecided('C15.stride', f['pq'], role, fwhere(f), 'no single loop with stride %d' % B)
            continue
        n += 1
        iv, k, N, B_ = loop_bound(f, loops[0])
        ctx.evaluations += 1
        ctx.check(k == B - 1, 'C15.stride', f['pq'], role, fwhere(f, loops[0]['l']), 'i + %d < %s with stride %d: exactly the full blocks' % (k, pe(N), B),
                  'loop `i + %d < %s` with stride %d: %s' % (k, pe(N), B, 'reads past the end of the input on the last block' if k < B - 1 else 'skips a full trailing block (it is buffered but never processed)'))
    # guarded tail reads
    f = fn1(prog, 'asl::encodeBase64', '(const unsigned char *,int)')
    ctx.analysed(f)
    loops = [s_ for s_ in ir.walk_stmts(f['body']) if s_.get('k') == 'for' and loop_bound(f, s_)]
    if len(loops) == 1:
        n += 1
        iv, k, N, B = loop_bound(f, loops[0])
        g = q.Guarded(f)
        ok = k == 0 and B == 3
        why = '' if ok else 'loop is not `i < n; i += 3`'
        for e in ir.stmt_exprs(loops[0]['body']):
            if e.get('k') == 'idx' and strip(e['b']).get('vk') == 'param':
                ix = strip(e['i'])
                j = 0
                if ix.get('k') == 'bin' and ix.get('op') == '+' and const_val(ix['y']) is not None:
                    j = const_val(ix['y'])
                if j == 0:
                    continue
                guarded = False
                for c, pol, kind in g.of(e):
                    cc = strip(c)
                    if kind == 'cond' and pol is True and cc.get('k') == 'bin' and cc.get('op') == '<' and pe(strip(cc['x'])) == pe(ix) and pe(strip(cc['y'])) == pe(strip(N)):
                        guarded = True
                ctx.evaluations += 1
                if not guarded:
                    ok = False
                    why = 'data[i + %d] is read without the guard i + %d < n: reads past the input when its length is not a multiple of 3' % (j, j)
        ctx.check(ok, 'C15.stride', f['pq'], 'encodeBase64:guarded tail reads', fwhere(f, loops[0]['l']), 'data[i+1], data[i+2] read only under i+j < n', why)
    ctx.floor('C15.stride', n, 3)
    # padding arithmetic of the encoder: len = 4 * ((n + 2) / 3)
    lens = [v for s_ in ir.walk_stmts(f['body']) if s_.get('k') == 'decl' for v in s_['vars'] if v['n'] == 'len' or (v.get('init') is not None and any(const_val(w) == 3 and w.get('k') == 'int' for w in walk_expr(v['init'])))]
    if lens:
        e = strip(lens[0]['init'])
        ok = e.get('k') == 'bin' and e.get('op') == '*' and {const_val(e['x']), const_val(e['y'])} & {4} and any(w.get('k') == 'bin' and w.get('op') == '/' and const_val(w['y']) == 3 and strip(w['x']).get('op') == '+' and const_val(strip(w['x'])['y']) == 2 for w in walk_expr(e))
        ctx.check(bool(ok), 'C15.stride', f['pq'], 'encodeBase64:output length 4*ceil(n/3)', fwhere(f, lens[0]['l']), '4 * ((n + 2) / 3)', 'encodeBase64 sizes its output as `%s`, not 4 * ((n + 2) / 3)' % pe(e))


def check_decode(ctx, prog):
    # Url::decode look-ahead
    f = fn1(prog, 'asl::Url::decode')
    ctx.analysed(f)
    g = q.Guarded(f)
    src = f['params'][0]['id']
    n = 0
    for e in fn_exprs(f):
        if e.get('k') == 'call' and e.get('op') == '[]' and e.get('obj') is not None and strip(e['obj']).get('id') == src:
            ix = strip(e['a'][0])
            j = 0
            if ix.get('k') == 'bin' and ix.get('op') == '+' and const_val(ix['y']) is not None:
                j = const_val(ix['y'])
                ix = strip(ix['x'])
            if j == 0:
                continue
            n += 1
            allowed = None
            for c, pol, kind in g.of(e):
                cc = strip(c)
                # after `if (i > len - m) break;`  :  i <= len - m
                if kind == 'after' and pol is False and cc.get('k') == 'bin' and cc.get('op') in ('>', '>=') and strip(cc['x']).get('id') == ix.get('id'):
                    r = strip(cc['y'])
                    m = 0
                    if r.get('k') == 'bin' and r.get('op') == '-' and const_val(r['y']) is not None:
                        m = const_val(r['y'])
                        r = strip(r['x'])
                    if r.get('k') == 'call' and (r.get('pq') or '').endswith('::length'):
                        allowed = m - (1 if cc['op'] == '>=' else 0)
            ctx.evaluations += 1
            ctx.check(allowed is not None and j <= allowed, 'C15.decode', f['pq'], 'decode:look-ahead q0[i + %d]' % j, fwhere(f, e['l']), 'dominated by i <= length - %s' % allowed,
                      'Url::decode reads q0[i + %d] but the dominating guard only establishes i + %s <= length(): a trailing %% reads past the terminator' % (j, allowed))
    ctx.floor('C15.decode look-ahead', n, 2)

    # decodeBase64
    f = fn1(prog, 'asl::decodeBase64', '(const char *,int)')
    ctx.analysed(f)
    # (a) main loop bounded by the given length
    loops = [s_ for s_ in ir.walk_stmts(f['body']) if s_.get('k') == 'while']
    main = [lp for lp in loops if any(e.get('k') == 'idx' and strip(e['b']).get('q') == 'asl::base64_chars_inv' for e in ir.stmt_exprs(lp['body']))]
    ends = {}
    lenvar = None
    for s_ in ir.walk_stmts(f['body']):
        if s_.get('k') == 'decl':
            for v in s_['vars']:
                ini = strip(v.get('init') or {})
                if ini.get('k') == 'bin' and ini.get('op') == '+' and strip(ini['x']).get('k') == 'var' and strip(ini['y']).get('k') == 'var':
                    ends[v['id']] = (strip(ini['x'])['id'], strip(ini['y'])['id'])
                if ini.get('k') == 'cond' and any(w.get('k') == 'call' and w.get('fn') == 'strlen' for w in walk_expr(ini)):
                    lenvar = v['id']
    okb = False
    if len(main) == 1 and lenvar is not None:
        for part in conj(main[0]['c']):
            part = strip(part)
            if part.get('k') == 'bin' and part.get('op') == '<' and strip(part['y']).get('id') in ends and ends[strip(part['y'])['id']][1] == lenvar:
                okb = True
    ctx.check(okb, 'C15.decode', f['pq'], 'decodeBase64:loop bounded by the given length', fwhere(f, main[0]['l'] if main else None), 'src < src0 + len',
              'the decoding loop is not bounded by the given length (it runs to the terminator while the result is sized from the length): writes past the result when n < strlen')
    # (b) result sized from the same length
    sized = [v for s_ in ir.walk_stmts(f['body']) if s_.get('k') == 'decl' for v in s_['vars'] if v.get('init') is not None and strip(v['init']).get('k') == 'bin' and
             any(w.get('k') == 'var' and w.get('id') == lenvar for w in walk_expr(v['init'])) and any(const_val(w) == 3 for w in walk_expr(v['init'])) and any(const_val(w) == 4 for w in walk_expr(v['init']))]
    ctx.check(bool(sized), 'C15.decode', f['pq'], 'decodeBase64:result sized len/4*3', fwhere(f), 'len / 4 * 3 bytes', 'result is not sized len / 4 * 3 from the scanned length')
    # (c) padding count loop: continues over '=' and over every byte the forward loop skips as whitespace, stops at symbols
    back = [lp for lp in loops if lp not in main]
    role = 'decodeBase64:padding count spans interleaved whitespace'
    if len(back) < 1:
        ctx.undecided('C15.decode', f['pq'], role, fwhere(f), 'no backward padding scan found')
    else:
        # the loop that increments the padding counter
        cnt = [lp for lp in back if any(e.get('k') == 'un' and e.get('op') in ('post++', 'pre++') for e in ir.stmt_exprs(lp['body']))]
        if len(cnt) != 1:
            ctx.undecided('C15.decode', f['pq'], role, fwhere(f), 'padding counting loop not unique')
        else:
            lp = cnt[0]
            def is_cur(e):
                e2 = strip_lv(e)
                return e2.get('k') == 'un' and e2.get('op') == '*' and strip(e2['e']).get('k') == 'var' and T(f, strip(e2['e']).get('t')).get('ptr')
            # drop the pointer-range conjunct (p > src): evaluate the remaining conjuncts
            parts = [p for p in conj(lp['c']) if not (strip(p).get('k') == 'bin' and strip(p).get('op') in ('>', '>=', '<', '!=') and T(f, strip(strip(p)['x']).get('t')).get('ptr'))]
            try:
                cont = set(range(256))
                for p in parts:
                    cont &= bytesets.byteset(prog, f, p, is_cur, signed=False)
                ctx.evaluations += 256
                ws = set()
                for e in ir.stmt_exprs(main[0]['body']) if main else []:
                    if e.get('k') == 'call' and (e.get('fn') or '').endswith('myisspace'):
                        ws = bytesets.byteset(prog, f, e, is_cur, signed=True)
                symbols = set(ord(c) for c in RFC4648)
                ok = ord('=') in cont and ws <= cont and not (symbols & cont)
                ctx.check(ok, 'C15.decode', f['pq'], role, fwhere(f, lp['l']), 'scan continues over %s' % bytesets.fmt_set(cont - set(range(128, 256)) - set(range(0, 9))),
                          "the loop that counts '=' continues over %s: it must continue over '=' and over the whitespace the decoder skips %s and stop at the 64 symbols, else padding split by whitespace is miscounted"
                          % (bytesets.fmt_set(cont & set(range(9, 128))), bytesets.fmt_set(ws)))
            except bytesets.Undecidable as ex:
                ctx.undecided('C15.decode', f['pq'], role, fwhere(f, lp['l']), 'loop condition not evaluable: %s' % ex)
    # (d) R-NEGLEN
    for name in ('asl::decodeBase64',):
        rs = [e for e in fn_exprs(f) if e.get('k') == 'call' and e.get('pq') == 'asl::Array::resize']
        last = rs[-1] if rs else None
        ok = False
        if last is not None:
            a = strip(last['a'][0])
            if a.get('k') == 'call' and (a.get('pq') or '').endswith('max') and 0 in [const_val(x) for x in a['a']]:
                ok = True
            if not any(w.get('k') == 'bin' and w.get('op') == '-' for w in walk_expr(a)):
                ok = True
        ctx.check(ok, 'R-NEGLEN', f['pq'], 'decodeBase64:final length clamped', fwhere(f, last['l'] if last else None), 'resize(max(0, ...))',
                  'the final resize() takes a difference of input-derived terms without clamping at 0: padding-only input yields a negative length')
    dh = fn1(prog, 'asl::decodeHex')
    ctx.analysed(dh)
    ctor = [v for s_ in ir.walk_stmts(dh['body']) if s_.get('k') == 'decl' for v in s_['vars'] if T(dh, v['t']).get('recp') == 'asl::Array']
    ok = bool(ctor) and any(w.get('k') == 'bin' and w.get('op') == '/' and const_val(w['y']) == 2 for w in walk_expr(ctor[0].get('init') or {}))
    writes = [e for e in fn_exprs(dh) if e.get('k') == 'call' and e.get('op') == '[]' and e.get('obj') is not None and ctor and strip(e['obj']).get('id') == ctor[0]['id']]
    okw = bool(writes) and all(strip(w['a'][0]).get('op') == '/' and const_val(strip(w['a'][0])['y']) == 2 for w in writes)
    ctx.check(ok and okw, 'C15.decode', dh['pq'], 'decodeHex:result length/2 indexed i/2', fwhere(dh), 'a(length/2), a[i/2]', 'decodeHex result is not sized length()/2 and indexed i/2')


def conj(c):
    c = strip(c)
    if c.get('k') == 'bin' and c.get('op') == '&&':
        return conj(c['x']) + conj(c['y'])
    return [c]
