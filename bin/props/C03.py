"""C03 - String: structural clauses decided statically.

 R-ALIAS     no String member reads a `const char*` / `const String&` argument (which may be the string itself or a piece of it)
             after the buffer may have been released or moved, except through the offset re-basing idiom; a copy whose source may
             overlap the destination buffer uses memmove
 C03.width   numeric constructors: for every branch of the capacity choice, the widest text the conversion can produce for the
             values admitted on that branch (interval from the threshold constants; printf width of the format) plus the
             terminator fits the capacity alloc() guarantees for that branch, and snprintf's size argument does not exceed it
 R-NEGATE    integer-to-text helpers never negate the minimum value of their type (guarded special case)
 C03.printf  the vsnprintf retry loops of the formatting constructors treat a return value equal to the buffer size as truncated
 C03.keep    every growth path of String::resize that keeps the content copies at least length()+1 bytes (the terminator travels with
             the text): evaluated over a grid of (old length, requested length)
 Agreement with a byte-string model for search/replace/split/trim and the length/NUL invariant of every mutator are not decided."""
import os
import bytesets
import ir, q, alias, cfg as cfgm
from ir import strip, strip_lv, const_val, T, pe, walk_expr, fn_exprs, AnalysisBroken
from core import fwhere


def run(ctx):
    units = [os.path.join(ir.REPO, 'src', 'String.cpp')]
    if ctx.tier == 'thorough':
        units += [u for u in ir.library_units() if not u.endswith('String.cpp')]
    prog = ir.load_units(units)
    ctx.use_program(prog)
    check_alias(ctx, prog)
    check_width(ctx, prog)
    check_numeric_model(ctx, prog)
    check_parse_back(ctx, prog)
    check_negate(ctx, prog)
    check_printf(ctx, prog)
    check_resize_keep(ctx, prog)
    check_search_restart(ctx, prog)
    check_index_of_siblings(ctx, prog)
    check_model(ctx, prog)
    check_trim(ctx, prog)
    check_split_model(ctx, prog)
    check_valist(ctx, prog)
    check_search_model(ctx, prog)
    ctx.floor("C03.inplace", check_inplace_model(ctx, prog), 1)
    ctx.floor('C03.assignlen', check_assign_len(ctx, prog), 1)
    import nullret
    nullret.check(ctx, prog, 'C03', ('String.cpp',))
    import litread
    litread.check(ctx, prog, 'C03', ('String.cpp',))
    import retself
    n = retself.check(ctx, prog, 'R-RETSELF', ('asl::String',))
    ctx.floor('R-RETSELF members', n, 5)
    return __doc__.split('\n\n', 1)[1]


# ------------------------------------------------------------------ R-ALIAS

def string_risk(f, p):
    t = T(f, p['t'])
    if t.get('ptr'):
        to = T(f, t.get('to'))
        return to.get('s', '').replace('const ', '') == 'char'
    if t.get('ref'):
        return T(f, t.get('to')).get('rec') == 'asl::String'
    return False


def check_alias(ctx, prog):
    ac = alias.AliasClass(prog, ctx, 'String', 'asl::String', ('_str',), (), string_risk)
    need = {'asl::String::resize', 'asl::String::append', 'asl::String::assign'}
    if need - ac.inv:
        raise AnalysisBroken('invalidator set of String lost %s' % sorted(need - ac.inv))
    ctx.info['Inv(String)'] = sorted(ac.inv)
    unsafe, n = ac.run('R-ALIAS')
    ctx.floor('R-ALIAS String members x at-risk params', n, 30)
    # overlap: in a member that writes its own buffer from an at-risk pointer parameter which was re-based onto the same buffer,
    # the copy must be memmove when source and destination can overlap (destination offset 0 .. source offset >= 0)
    for f in ac.members:
        if f['n'] not in ('assign',):
            continue
        ctx.analysed(f)
        for j, p in enumerate(f['params']):
            if not string_risk(f, p) or not T(f, p['t']).get('ptr'):
                continue
            rebased = any(e.get('k') == 'bin' and e.get('op') == '=' and strip_lv(e['x']).get('id') == p['id'] for e in fn_exprs(f))
            copies = [e for e in fn_exprs(f) if e.get('k') == 'call' and e.get('fn') in ('memcpy', 'memmove') and any(w.get('k') == 'var' and w.get('id') == p['id'] for w in walk_expr(e['a'][1]))]
            for c in copies:
                ctx.check(c['fn'] == 'memmove' or not rebased and False, 'R-ALIAS', f['pq'], f['n'] + ':overlapping copy', fwhere(f, c['l']),
                          'copy from a source that may lie inside the destination buffer uses memmove',
                          'assign() copies from an argument that may be a piece of the same buffer into the start of that buffer with memcpy (overlap is undefined); memmove is required')


def check_assign_len(ctx, prog):
    """C03.assignlen: assign(p, n) makes the string the n bytes at p - whatever p is.  On every path to a return the new length has
    been recorded (a store to `_len`, or a mutating member of the string called, which records it): a shortcut that returns
    because the *pointer* is the string's own start (`if (b == s0) return;`) forgets that n may be smaller than the length -
    `s.assign(s.data(), k)` must truncate."""
    n = 0
    # members that record a length: a store to _len in their body, or (transitively) a call of such a member on this
    def stores_len(e):
        return e.get('k') == 'bin' and e.get('op') in ('=', '+=', '-=') and strip_lv(e['x']).get('k') == 'mem' and strip_lv(e['x']).get('f') == '_len'
    members = [g for g in prog.functions if g.get('clsp') == 'asl::String' and g.get('body') and not g.get('implicit')]
    setters = set(g['pq'] + (g.get('sig') or '') for g in members if any(stores_len(e) for e in fn_exprs(g)))
    for _ in range(3):
        for g in members:
            if g['pq'] + (g.get('sig') or '') not in setters and any(e.get('k') == 'call' and e.get('clsp') == 'asl::String' and alias.is_this_obj(e) and (e.get('pq') or '') + (e.get('sig') or '') in setters for e in fn_exprs(g)):
                setters.add(g['pq'] + (g.get('sig') or ''))
    for f in prog.fn('asl::String::assign'):
        if not f.get('body') or len(f['params']) != 2 or not T(f, f['params'][0]['t']).get('ptr'):
            continue
        n += 1
        ctx.analysed(f)
        cfg = cfgm.CFG(f)

        def step(nd, st):
            if st or nd.kind != 'ev' or nd.e is None:
                return st
            e = nd.e
            if e.get('k') == 'bin' and e.get('op') in ('=', '+=', '-=') and strip_lv(e['x']).get('k') == 'mem' and strip_lv(e['x']).get('f') == '_len':
                return True
            if e.get('k') == 'call' and e.get('clsp') == 'asl::String' and alias.is_this_obj(e) and (e.get('pq') or '') + (e.get('sig') or '') in setters:
                return True
            return st
        reached, parent = cfgm.dataflow(cfg, False, step)
        exits = reached.get(cfg.exit.id, set())
        role = 'assign(const char *,int):every exit has recorded the new length'
        ctx.check(False not in exits, 'C03.assignlen', f['pq'], role, fwhere(f), 'a store to _len (or a mutating member call) on every path to a return',
                  'assign(p, n) can return without recording the length n (path %s): `s.assign(s.data(), k)` with k < length() leaves the string untruncated - contents and length() disagree with the byte-string model' % cfgm.witness(cfg, parent, cfg.exit.id, False))
    return n


# ------------------------------------------------------------------ C03.width

CAP_TABLE = {}


def capacity(n, space):
    """bytes available after String::alloc(n): read from the table alloc_model() obtained by interpreting alloc() itself"""
    if n in CAP_TABLE:
        return CAP_TABLE[n]
    return space if n < space else max(n + 1, 20)


def alloc_model(ctx, prog):
    """The capacity String::alloc(n) provides, by interpretation (scansim) of alloc() for n = 0..2100 with malloc recorded:
    inline storage (`_size` left 0) gives the bytes of the `_space` member, a heap block gives the size passed to malloc, which
    must also be what `_size` records.  Necessary conditions of every width decision: the capacity exceeds n (room for the
    terminator) and is monotone."""
    import scansim
    fs = [g for g in prog.fn('asl::String::alloc') if g.get('body')]
    if not fs:
        raise AnalysisBroken('String::alloc not found')
    f = fs[0]
    ctx.analysed(f)
    inline = None
    for r in prog.records.values():
        if r['q'].startswith('asl::String::') and r.get('union'):
            for fld in r['fields']:
                if fld['n'] == '_space':
                    inline = T(r, fld['t']).get('n')
    if not inline:
        raise AnalysisBroken('inline buffer of String not found')
    CAP_TABLE.clear()
    bad = und = None
    for n in list(range(0, 80)) + [255, 256, 1023, 1024, 1025, 2047, 2048, 2100]:
        sizes = []

        def malloc(run, e, args, sizes=sizes):
            sizes.append(args[0])
            run.bufs['HEAP'] = [scansim.UNINIT] * max(0, args[0] if isinstance(args[0], int) else 0)
            return ('P', 'HEAP', 0)
        mems = {'_size': 0x5555, '_len': 0}
        r = scansim.Run(prog, f, {}, int_params={f['params'][0]['id']: n}, mems=mems, externs={'malloc': malloc}, methods={'*': 'interp'})
        ctx.evaluations += 1
        try:
            r.run()
        except (scansim.Unsupported, scansim.OOB, TypeError, KeyError) as u:
            und = 'alloc(%d): %s' % (n, u)
            break
        sz = mems.get('_size')
        if sz == 0 and not sizes:
            cap = inline
        elif len(sizes) == 1 and isinstance(sizes[0], int) and sz == sizes[0]:
            cap = sizes[0]
        else:
            bad = 'alloc(%d) leaves _size = %s after malloc calls %s: the recorded size is not the size of the block' % (n, sz, sizes)
            break
        if cap < n + 1:
            bad = 'alloc(%d) provides %d bytes: no room for %d characters and their terminator' % (n, cap, n)
            break
        CAP_TABLE[n] = cap
    space = min([n for n, c in CAP_TABLE.items() if c != inline] or [inline])
    if und:
        ctx.undecided('C03.width', f['pq'], 'alloc:capacity model', fwhere(f), 'outside the interpreted fragment: %s' % und)
        raise AnalysisBroken('String::alloc not interpretable: %s' % und)
    ctx.check(bad is None, 'C03.width', f['pq'], 'alloc:capacity model', fwhere(f), 'interpreted for %d sizes: inline %d bytes below %d, heap blocks of at least n+1 bytes above' % (len(CAP_TABLE), inline, space), bad or '')
    return space


def printf_width(fmt, bits, flt):
    """maximal number of characters a single-conversion format can produce"""
    fmt = fmt.rstrip('\x00')
    if fmt in ('%u',):
        return len(str(2 ** 32 - 1))
    if fmt == '%llu':
        return len(str(2 ** 64 - 1))
    if fmt == '%i' or fmt == '%d':
        return len(str(-2 ** 31))
    if fmt == '%lli' or fmt == '%lld':
        return len(str(-2 ** 63))
    if fmt.startswith('%.') and fmt.endswith('g'):
        p = int(fmt[2:-1])
        exp = 4 if flt == 'float' else 5          # e-45 / e-324
        return 1 + p + 1 + exp
    return None


def interval_width(lo, hi):
    return max(len(str(lo)), len(str(hi)))


def check_width(ctx, prog):
    space = alloc_model(ctx, prog)
    n = 0
    for f in prog.functions:
        if f.get('pq') != 'asl::String::String' or not f.get('body') or len(f['params']) != 1:
            continue
        pt = T(f, f['params'][0]['t'])
        if not (pt.get('int') or pt.get('flt')) or pt.get('bool') or pt.get('s') in ('char',):
            continue
        allocs = [e for e in fn_exprs(f) if e.get('k') == 'call' and e.get('pq') == 'asl::String::alloc']
        convs = [e for e in fn_exprs(f) if e.get('k') == 'call' and (e.get('fn') in ('snprintf', 'sprintf') or e.get('pq') in ('asl::myitoa', 'asl::myltoa'))]
        if not allocs or len(convs) != 1:
            continue
        n += 1
        ctx.analysed(f)
        role = 'String(%s)' % pt['s']
        where = fwhere(f)
        pid = f['params'][0]['id']
        bits, sg = pt.get('bits'), pt.get('sg')
        conv = convs[0]
        # full-range width of the conversion
        if conv.get('pq') in ('asl::myitoa', 'asl::myltoa'):
            cbits = 32 if conv['pq'].endswith('myitoa') else 64
            if bits and bits > cbits:
                ctx.violation('C03.width', f['pq'], role + ':conversion width', where, '%d-bit value converted with the %d-bit helper' % (bits, cbits))
                continue
            full = len(str(-2 ** (bits - 1))) if sg else len(str(2 ** bits - 1))
            fmt = conv['pq']
            size_arg = None
            dest_local = None
        else:
            lit = [a for a in conv['a'] if strip(a).get('k') == 'str']
            fmt = bytes(strip(lit[0])['b']).decode('latin-1') if lit else None
            full = printf_width(fmt, bits, 'float' if pt.get('s') == 'float' else 'double') if fmt else None
            size_arg = conv['a'][1] if conv['fn'] == 'snprintf' else None
            d = strip(conv['a'][0])
            dest_local = d if d.get('k') == 'var' else None
        if full is None:
            ctx.undecided('C03.width', f['pq'], role + ':conversion width', where, 'format `%s` not in the width table' % fmt)
            continue
        ctx.evaluations += 1
        if dest_local is not None:
            # formats into a local array first (String(double)): the local must hold the widest text
            cap = T(f, dest_local.get('dt')).get('n')
            sz = const_val(size_arg) if size_arg is not None else None
            ctx.check(cap is not None and full + 1 <= cap and (sz is None or sz <= cap), 'C03.width', f['pq'], role + ':scratch buffer', where,
                      'widest text %d+1 fits the %s-byte scratch buffer' % (full, cap), 'widest text of `%s` is %d characters + NUL but the scratch buffer holds %s (snprintf size %s)' % (fmt, full, cap, sz))
            continue
        # capacity by evaluation: for representative argument values (type limits, powers of ten and every constant of the
        # constructor, each with its neighbours) the alloc call admitted by its guards is evaluated; the text of that value
        # (exact decimal width for integers, the format's worst case for floating point) plus the NUL must fit its capacity
        import bounded as _b
        G = q.Guarded(f)
        is_int = bool(pt.get('int'))
        if is_int:
            lo = -2 ** (bits - 1) if sg else 0
            hi = 2 ** (bits - 1) - 1 if sg else 2 ** bits - 1
            reps = {lo, hi, 0, 1, -1, lo + 1, hi - 1}
            for k in range(0, 20):
                reps |= {10 ** k - 1, 10 ** k, 10 ** k + 1, -(10 ** k) - 1, -(10 ** k), -(10 ** k) + 1}
            for w in fn_exprs(f):
                if w.get('k') == 'int' and const_val(w) is not None:
                    reps |= {const_val(w) - 1, const_val(w), const_val(w) + 1}
            reps = sorted(x for x in reps if lo <= x <= hi)
        else:
            reps = [0.0, 1.0, -1.0, 1e15, -1e15, 1e300 if pt.get('s') != 'float' else 1e38, -1e-300 if pt.get('s') != 'float' else -1e-38]
        worst = None
        und = None
        for x in reps:
            ev = _b.Bound(prog, f, {pid: x}, {})
            adm = []
            unknown = False
            for a_ in allocs:
                r3 = _b.admitted3(ev, G.of(a_), G)
                if r3 is True:
                    adm.append(a_)
                elif r3 is None:
                    unknown = True
            ctx.evaluations += 1
            if unknown or len(adm) != 1:
                und = 'for the argument %s, %d alloc calls are admitted%s' % (x, len(adm), ' and one is not evaluable' if unknown else '')
                break
            try:
                a = ev.ev(adm[0]['a'][0])
            except bytesets.Undecidable as u:
                und = 'alloc argument `%s` not evaluable for %s: %s' % (pe(adm[0]['a'][0]), x, u)
                break
            wx = len(str(x)) if is_int and fmt in ('asl::myitoa', 'asl::myltoa', '%llu', '%u', '%lli', '%lld', '%i', '%d') else full
            cap = capacity(a, space)
            if wx + 1 > cap and (worst is None):
                worst = (x, wx, a, cap)
        if und:
            ctx.undecided('C03.width', f['pq'], role + ':capacity choice', where, und)
            continue
        ctx.check(worst is None, 'C03.width', f['pq'], role + ':capacity for every argument', where,
                  'text + NUL fits the capacity of the admitted alloc for %d representative arguments (limits, powers of ten, constants of the constructor)' % len(reps),
                  'for the argument %s the text has %d characters + NUL = %d bytes but alloc(%d) guarantees only %d: the conversion writes past the buffer (or is truncated)' % (
                      (worst[0], worst[1], worst[1] + 1, worst[2], worst[3]) if worst else (0, 0, 0, 0, 0)))
    ctx.floor('C03.width numeric constructors', n, 1)   # the constructors that use a recognised converter; all of them are decided by C03.number


def conj(c):
    c = strip(c)
    if c.get('k') == 'bin' and c.get('op') == '&&':
        return conj(c['x']) + conj(c['y'])
    return [c]


# ------------------------------------------------------------------ R-NEGATE

def check_negate(ctx, prog):
    """R-NEGATE: the integer-to-text helpers never negate the minimum value of a signed type.  Every unary minus (or 0 - x)
    applied to a signed operand that reads the argument must be unreachable for x == TMIN (guards evaluated with x bound to
    the extreme values); a magnitude taken in unsigned arithmetic has no such obligation."""
    import bounded
    n = 0
    for name in ('asl::myitoa', 'asl::myltoa'):
        fs = prog.fn(name)
        if not fs:
            raise AnalysisBroken('%s not found' % name)
        f = fs[0]
        ctx.analysed(f)
        n += 1
        p = f['params'][0]
        bits_ = T(f, p['t']).get('bits')
        tmin = -2 ** (bits_ - 1)
        g = q.Guarded(f)
        negs = []
        for e in fn_exprs(f):
            operand = None
            if e.get('k') == 'un' and e.get('op') == '-':
                operand = e['e']
            elif e.get('k') == 'bin' and e.get('op') == '-' and const_val(e['x']) == 0:
                operand = e['y']
            if operand is None:
                continue
            te = T(f, e.get('t'))
            if not te.get('int') or te.get('sg') is False:
                continue            # unsigned arithmetic wraps, it cannot overflow
            if any(w.get('k') == 'var' and w.get('id') == p['id'] for w in walk_expr(operand)):
                negs.append(e)
        role = name.split('::')[-1] + ':negation excludes the minimum value'
        if not negs:
            ctx.ok('R-NEGATE', f['pq'], role, fwhere(f), 'no signed negation of the argument (magnitude taken in unsigned arithmetic)')
            continue
        for e in negs:
            wr = bounded.writes_between(g, f, {p['id']}, g.of(e), e)
            if wr is not None:
                ctx.undecided('R-NEGATE', f['pq'], role, fwhere(f, e['l']), 'the argument is modified between its guard and the negation')
                continue
            st, info = bounded.decide(prog, f, g.of(e), lambda ev: ev.env[p['id']] != tmin, {p['id']: p['n']}, {}, [tmin, tmin + 1, -1, 0, 1, -tmin - 1], G=g)
            ctx.evaluations += 6
            if st == 'undecided':
                ctx.undecided('R-NEGATE', f['pq'], role, fwhere(f, e['l']), info)
            else:
                ctx.check(st == 'holds', 'R-NEGATE', f['pq'], role, fwhere(f, e['l']), '`%s` is reached only when x != %d' % (pe(e), tmin),
                          '%s negates its argument without excluding %d first (undefined, text of the minimum value is garbage)' % (name, tmin))
    ctx.floor('R-NEGATE', n, 2)


# ------------------------------------------------------------------ C03.printf

def check_printf(ctx, prog):
    n = 0
    for f in prog.functions:
        if f.get('clsp') != 'asl::String' or not f.get('body'):
            continue
        calls = [e for e in fn_exprs(f) if e.get('k') == 'call' and e.get('fn') == 'vsnprintf']
        if not calls:
            continue
        ctx.analysed(f)
        for c in calls:
            n += 1
            size = strip(c['a'][1])
            role = '%s:truncation test of the retry loop' % (f['n'] if f['n'] != 'String' else 'String(int, fmt, ...)')
            # the result is stored into a variable:  (n = vsnprintf(...))
            holder = None
            for e in fn_exprs(f):
                if e.get('k') == 'bin' and e.get('op') == '=' and strip(e['y']) is c and strip_lv(e['x']).get('k') == 'var':
                    holder = strip_lv(e['x'])['id']
            if holder is None or size.get('k') != 'var':
                ctx.undecided('C03.printf', f['pq'], role, fwhere(f, c['l']), 'result of vsnprintf not held in a variable compared with the size variable')
                continue
            cmps = [e for e in fn_exprs(f) if e.get('k') == 'bin' and e.get('op') in ('>', '>=', '<', '<=', '==') and
                    {strip(e['x']).get('id'), strip(e['y']).get('id')} == {holder, size['id']}]
            bad = [e for e in cmps if not ((e['op'] == '>=' and strip(e['x']).get('id') == holder) or (e['op'] == '<=' and strip(e['x']).get('id') == size['id']) or
                                           (e['op'] == '<' and strip(e['x']).get('id') == holder))]
            ctx.evaluations += len(cmps)
            ctx.check(bool(cmps) and not bad, 'C03.printf', f['pq'], role, fwhere(f, c['l']), 'n >= size is treated as truncated',
                      'the retry loop compares the vsnprintf result with the buffer size as `%s`: a result equal to the size (output truncated by one character) is accepted as complete' % (pe(bad[0]) if bad else 'nothing'))
    ctx.floor('C03.printf', n, 2)


# ------------------------------------------------------------------ C03.keep

def check_resize_keep(ctx, prog):
    import bytesets
    f = [g for g in prog.fn('asl::String::resize') if g.get('body')]
    if not f:
        raise AnalysisBroken('String::resize not found')
    f = f[0]
    ctx.analysed(f)
    nparam = f['params'][0]
    copies = [e for e in fn_exprs(f) if e.get('k') == 'call' and e.get('fn') in ('memcpy', 'memmove') and len(e.get('a', [])) == 3]
    # a copy made by a file-level helper (`newBuffer(size, src, ncopy)`): the helper's memcpy with the arguments of the call
    for e in fn_exprs(f):
        if e.get('k') == 'call' and e.get('fn') and not e.get('clsp') and e.get('fn') not in ('memcpy', 'memmove'):
            for h in prog.fn(e['fn'], e.get('sig')):
                if not h.get('body') or len(h.get('params') or []) != len(e.get('a') or []):
                    continue
                pidx = dict((p_['id'], j) for j, p_ in enumerate(h['params']))
                for m_ in fn_exprs(h):
                    if m_.get('k') == 'call' and m_.get('fn') in ('memcpy', 'memmove') and len(m_.get('a', [])) == 3:
                        s_ = strip(m_['a'][1])
                        c_ = strip(m_['a'][2])
                        while s_.get('k') == 'cast':
                            s_ = strip(s_['e'])
                        if s_.get('k') == 'var' and s_.get('id') in pidx and c_.get('k') == 'var' and c_.get('id') in pidx:
                            copies.append({'k': 'call', 'fn': m_['fn'], 'l': e.get('l'), 'a': [m_['a'][0], e['a'][pidx[s_['id']]], e['a'][pidx[c_['id']]]]})
    keep_ids = [p_['id'] for p_ in f['params'][1:2]]
    n = 0
    for c in copies:
        src = strip(c['a'][1])
        while src.get('k') == 'cast':
            src = strip(src['e'])
        if not (src.get('k') == 'mem' and src.get('f') in ('_str', '_space')):
            continue
        n += 1
        bad = []
        try:
            for L in range(0, 6):
                for N in range(L + 1, L + 40, 7):
                    class Ev(bytesets.Evaluator):
                        def ev(self, e):
                            if e is not None and e.get('k') == 'mem' and e.get('f') == '_len':
                                return L
                            return bytesets.Evaluator.ev(self, e)
                    got = Ev(prog, f, dict([(nparam['id'], N)] + [(k_, 1) for k_ in keep_ids])).ev(c['a'][2])
                    ctx.evaluations += 1
                    if got < L + 1:
                        bad.append((L, N, got))
            ctx.check(not bad, 'C03.keep', f['pq'], 'resize:kept content includes the terminator (copy from %s)' % src['f'], fwhere(f, c['l']), 'copies >= length()+1 bytes when growing',
                      'growing a string of length %d to %d copies only %d byte(s) `%s` into the new buffer: the terminator is left behind and length() no longer equals the offset of the NUL' % (bad[0] + (pe(c['a'][2]),) if bad else (0, 0, 0, '')))
        except bytesets.Undecidable as ex:
            ctx.undecided('C03.keep', f['pq'], 'resize:kept content includes the terminator (copy from %s)' % src['f'], fwhere(f, c['l']), 'copy length not evaluable: %s' % ex)
    ctx.floor('C03.keep', n, 2)


# ------------------------------------------------------------------ C03.search

def check_model(ctx, prog):
    """C03.model: read-only String operations agree with the byte-string model.  Each member of a table is interpreted
    (scansim: the receiver's text behind str(), String arguments and String results as bounds-checked buffers, the members it
    calls interpreted from their bodies, libc string functions modelled) on every text over a small alphabet up to 4
    characters and every argument combination in range; the result must be what the model gives, and no access may leave
    the strings involved."""
    import scansim, itertools

    def strs(alpha, maxlen):
        for L in range(0, maxlen + 1):
            for t in itertools.product(alpha, repeat=L):
                yield ''.join(t)

    def ucmp(a, b):
        x, y = a.encode('latin-1'), b.encode('latin-1')
        return (x > y) - (x < y)

    def sign(v):
        return (v > 0) - (v < 0)
    WS = ' \t\r\n'
    # name, signature, generator of (args, string-args) per text, reference(text, args, sargs), how to compare
    table = [
        ('substring', '(int,int)const', lambda t: [({0: i, 1: j}, {}) for i in range(len(t) + 1) for j in range(i, len(t) + 1)], lambda t, a, s_: t[a[0]:a[1]], None),
        ('substring', '(int)const', lambda t: [({0: i}, {}) for i in range(len(t) + 1)], lambda t, a, s_: t[a[0]:], None),
        ('substr', '(int,int)const', lambda t: [({0: i, 1: n}, {}) for i in range(-len(t), len(t) + 2) for n in range(0, len(t) + 2)],
         lambda t, a, s_: (lambda i: t[min(i, len(t)):min(min(i, len(t)) + a[1], len(t))])(a[0] + len(t) if a[0] < 0 else a[0]), None),
        ('indexOf', '(char,int)const', lambda t: [({0: ord(c), 1: i0}, {}) for c in 'ab' for i0 in range(len(t) + 1)], lambda t, a, s_: t.find(chr(a[0]), a[1]), None),
        ('lastIndexOf', '(char)const', lambda t: [({0: ord(c)}, {}) for c in 'ab'], lambda t, a, s_: t.rfind(chr(a[0])), None),
        ('startsWith', '(const asl::String &)const', lambda t: [({}, {0: p_}) for p_ in strs('ab', 3) if p_], lambda t, a, s_: int(t.startswith(s_[0])), bool),
        ('endsWith', '(const asl::String &)const', lambda t: [({}, {0: p_}) for p_ in strs('ab', 3) if p_], lambda t, a, s_: int(t.endswith(s_[0])), bool),
        ('contains', '(const asl::String &)const', lambda t: [({}, {0: p_}) for p_ in strs('ab', 3) if p_], lambda t, a, s_: int(s_[0] in t), bool),
        ('compare', '(const asl::String &)const', lambda t: [({}, {0: p_}) for p_ in strs('ab', 3)], lambda t, a, s_: ucmp(t, s_[0]), sign),
        ('operator==', '(const asl::String &)const', lambda t: [({}, {0: p_}) for p_ in strs('ab', 3)], lambda t, a, s_: int(t == s_[0]), bool),
        ('operator<', '(const asl::String &)const', lambda t: [({}, {0: p_}) for p_ in strs('ab', 3)], lambda t, a, s_: int(ucmp(t, s_[0]) < 0), bool),
        ('operator+', '(const asl::String &)const', lambda t: [({}, {0: p_}) for p_ in strs('ab', 2)], lambda t, a, s_: t + s_[0], None),
        ('trimmed', '()const', lambda t: [({}, {})], lambda t, a, s_: t.strip(WS), None),
    ]
    n = 0
    for name, sig, gen, ref, norm in table:
        fs = [g_ for g_ in prog.fn('asl::String::' + name, sig) if g_.get('body')]
        if not fs:
            continue
        f = fs[0]
        alpha = (' a\t\n' if name == 'trimmed' else 'ab')
        role = '%s%s:agrees with the byte-string model' % (name, sig)
        bad = und = None
        runs = 0
        for text in strs(alpha, 4 if name != 'trimmed' else 5):
            for args, sargs in gen(text):
                bufs = {'T': [ord(c) for c in text] + [0]}
                r = scansim.Run(prog, f, bufs, call_ptrs={'str': ('P', 'T', 0)}, methods={'*': 'interp'}, mems={'_len': len(text)}, objects=True)
                for k, v in args.items():
                    r.vars[f['params'][k]['id']] = v
                for k, v in sargs.items():
                    pid = f['params'][k]['id']
                    bufs[('O', pid)] = [ord(c) for c in v] + [0]
                    r.objlen[pid] = len(v)
                    r.strobjs.add(pid)
                runs += 1
                call_txt = '"%s".%s(%s)' % (text.replace('\t', '\\t').replace('\n', '\\n'), name, ', '.join([str(v) for k, v in sorted(args.items())] + ['"%s"' % v for k, v in sorted(sargs.items())]))
                try:
                    ret = r.run()
                except scansim.OOB as o:
                    bad = '%s: %s' % (call_txt, o)
                    break
                except (scansim.Unsupported, TypeError, KeyError, IndexError, ValueError) as u:
                    und = '%s: %s' % (call_txt, u)
                    break
                if isinstance(ret, tuple) and ret[0] == 'P' and isinstance(ret[1], tuple) and ret[1][0] == 'O':
                    out = bufs[ret[1]]
                    got = ''.join(chr(x & 255) for x in out[:out.index(0)]) if 0 in out else None
                elif ret == ('THIS',):
                    got = text
                else:
                    got = ret
                want = ref(text, args, sargs)
                if norm is not None and isinstance(got, int):
                    got, want = norm(got), norm(want)
                if got != want:
                    bad = '%s is %r, the model gives %r' % (call_txt, got, want)
                    break
            if bad or und:
                break
        ctx.evaluations += runs
        if und:
            ctx.info.setdefault('string_model_not_interpreted', []).append(und[:160])
            continue
        n += 1
        ctx.analysed(f)
        ctx.check(bad is None, 'C03.model', f['pq'], role, fwhere(f), 'interpreted on %d (text, argument) combinations' % runs, 'String::%s' % bad)
    ctx.floor('C03.model', n, 6)


def check_index_of_siblings(ctx, prog):
    """C03.search: the String-pattern overloads of indexOf agree with the byte-string model (and hence with their const char*
    sibling): interpreted (scansim, strstr modelled) on every text over {a, b} up to 4 characters, every pattern up to 3 and
    every start offset 0..length."""
    import scansim, itertools
    n = 0
    for f in prog.functions:
        if f.get('pq') != 'asl::String::indexOf' or not f.get('body') or len(f['params']) != 2:
            continue
        pt = T(f, f['params'][0]['t'])
        if T(f, pt.get('to') or 0).get('rec') != 'asl::String':
            continue
        role = 'indexOf%s:position of the first occurrence at or after the start offset' % f['sig']
        bad = None
        runs = 0
        try:
            for L in range(0, 5):
                for text in itertools.product('ab', repeat=L):
                    for M in range(1, 4):
                        for pat in itertools.product('ab', repeat=M):
                            for i0 in range(0, L + 1):
                                pid = f['params'][0]['id']
                                bufs = {'T': [ord(c) for c in text] + [0], ('O', pid): [ord(c) for c in pat] + [0]}
                                r = scansim.Run(prog, f, bufs, int_params={f['params'][1]['id']: i0}, call_ptrs={'str': ('P', 'T', 0)}, methods={'*': 'interp'}, mems={'_len': L}, objects=True)
                                r.objlen[pid] = M
                                r.strobjs.add(pid)
                                runs += 1
                                try:
                                    got = r.run()
                                except scansim.OOB as o:
                                    bad = '"%s".indexOf(String("%s"), %d): %s' % (''.join(text), ''.join(pat), i0, o)
                                    break
                                want = ''.join(text).find(''.join(pat), i0)
                                if got != want:
                                    bad = '"%s".indexOf(String("%s"), %d) is %s, the model gives %d' % (''.join(text), ''.join(pat), i0, got, want)
                                    break
                            if bad:
                                break
                        if bad:
                            break
                    if bad:
                        break
                if bad:
                    break
        except (scansim.Unsupported, TypeError, KeyError, IndexError):
            continue
        n += 1
        ctx.analysed(f)
        ctx.evaluations += runs
        ctx.check(bad is None, 'C03.search', f['pq'], role, fwhere(f), 'interpreted on %d (text, pattern, offset) triples: result = first occurrence at or after the offset, -1 if none' % runs, bad)
    return n


def interp_last_index(ctx, prog, f):
    """lastIndexOf(const char*) decided by interpretation (scansim; indexOf and strstr interpreted / modelled) on every text over
    {a, b} up to 6 characters and every pattern up to 3: the result must be the position of the last occurrence, overlapping
    ones included, and no read may leave the text.  -> 1 when decided, None when the body is outside the interpreted fragment"""
    import scansim, itertools
    if len(f['params']) != 1 or not T(f, f['params'][0]['t']).get('ptr'):
        return None
    role = 'lastIndexOf%s:restart one position after each match' % f['sig']
    bad = None
    runs = 0
    try:
        for L in range(0, 7):
            for text in itertools.product('ab', repeat=L):
                for M in range(1, 4):
                    for pat in itertools.product('ab', repeat=M):
                        bufs = {'T': [ord(c) for c in text] + [0], 'PAT': [ord(c) for c in pat] + [0]}
                        r = scansim.Run(prog, f, bufs, ptr_params={f['params'][0]['id']: ('P', 'PAT', 0)}, call_ptrs={'str': ('P', 'T', 0)},
                                        methods={'indexOf': 'interp'}, mems={'_len': L})
                        runs += 1
                        try:
                            got = r.run()
                        except scansim.OOB as o:
                            bad = '"%s".lastIndexOf("%s"): %s' % (''.join(text), ''.join(pat), o)
                            break
                        want = ''.join(text).rfind(''.join(pat))
                        if got != want:
                            bad = '"%s".lastIndexOf("%s") is %s, the last occurrence is at %d%s' % (''.join(text), ''.join(pat), got, want, ' (occurrences that overlap the previous match are skipped)' if isinstance(got, int) and 0 <= got < want else '')
                            break
                    if bad:
                        break
                if bad:
                    break
            if bad:
                break
    except (scansim.Unsupported, TypeError, KeyError, IndexError):
        return None
    ctx.analysed(f)
    ctx.evaluations += runs
    ctx.check(bad is None, 'C03.search', f['pq'], role, fwhere(f), 'interpreted on %d (text, pattern) pairs over {a,b}: result = position of the last occurrence, overlapping matches included' % runs, bad)
    return 1


def check_search_restart(ctx, prog):
    """C03.search: a scan for the *last* occurrence by repeated indexOf(s, from) restarts one position after each match.  A larger
    step (e.g. the pattern length) skips occurrences that overlap the previous match ("aaa".lastIndexOf("aa") must be 1).
    Decided on the writes of the restart variable inside the loop: the total advance per iteration evaluates to exactly 1."""
    import bytesets
    n = 0
    for f in prog.functions:
        if f.get('pq') != 'asl::String::lastIndexOf' or not f.get('body'):
            continue
        r = interp_last_index(ctx, prog, f)
        if r is not None:
            n += r
            continue
        loops = [s_ for s_ in ir.walk_stmts(f['body']) if s_.get('k') in ('while', 'for', 'do')]
        for lp in loops:
            exprs = list(ir.stmt_exprs(lp['body'])) + list(walk_expr(lp.get('c') or {})) + list(walk_expr(lp.get('inc') or {}))
            searches = [e for e in exprs if e.get('k') == 'call' and (e.get('pq') or '').endswith('String::indexOf') and len(e.get('a', [])) == 2 and strip(e['a'][1]).get('k') == 'var']
            if not searches:
                continue
            n += 1
            ctx.analysed(f)
            iv = strip(searches[0]['a'][1])
            role = 'lastIndexOf%s:restart one position after each match' % f['sig']
            total = 0
            bad = None
            for e in exprs:
                tgt = None
                if e.get('k') == 'un' and e.get('op') in ('post++', 'pre++', 'post--', 'pre--'):
                    tgt = strip_lv(e['e'])
                    d = 1 if '++' in e['op'] else -1
                elif e.get('k') == 'bin' and e.get('op') in ('+=', '-='):
                    tgt = strip_lv(e['x'])
                    try:
                        d = bytesets.Evaluator(prog, f).ev(e['y']) * (1 if e['op'] == '+=' else -1)
                    except bytesets.Undecidable:
                        d = None
                elif e.get('k') == 'bin' and e.get('op') == '=':
                    tgt = strip_lv(e['x'])
                    r = strip(e['y'])
                    if tgt.get('k') == 'var' and tgt.get('id') == iv['id']:
                        if r.get('k') == 'call' and (r.get('pq') or '').endswith('String::indexOf'):
                            continue            # i = indexOf(s, i): the match itself
                        if r.get('k') == 'bin' and r.get('op') == '+' and strip(r['x']).get('id') == iv['id'] and const_val(r['y']) is not None:
                            d = const_val(r['y'])
                        else:
                            d = None
                    else:
                        continue
                else:
                    continue
                if tgt is None or tgt.get('k') != 'var' or tgt.get('id') != iv['id']:
                    continue
                if d is None:
                    bad = 'the restart position `%s` is advanced by `%s`, which is not the constant 1' % (iv.get('n'), pe(e))
                else:
                    total += d
            ctx.evaluations += 1
            if bad is None and total != 1:
                bad = 'the restart position `%s` is advanced by %d per match' % (iv.get('n'), total)
            ctx.check(bad is None, 'C03.search', f['pq'], role, fwhere(f, lp['l']), 'advance of 1 after each match',
                      '%s: an occurrence that overlaps the previous match is skipped, so the position returned is not the last one ("aaa".lastIndexOf("aa") gives 0)' % bad)
    ctx.floor('C03.search', n, 1)


# ------------------------------------------------------------------ C03.trim

def check_trim(ctx, prog, rule='C03.trim'):
    """trimmed() / trim(): the two whitespace scans may stop anywhere their counter conditions allow (the data-dependent
    conjuncts are unknown: an all-blank or blank-free string are both possible), and for every such pair of stop positions,
    for every length 0..5, the cut `substring(i, e)` / the moved byte count must not be negative.  Loops are read through
    their counting normal form; nothing is executed."""
    import bounded, bytesets, itertools
    n = 0
    for name in ('asl::String::trimmed', 'asl::String::trim'):
        for f in prog.fn(name):
            if not f.get('body'):
                continue
            role = '%s:the kept range never has a negative length' % f['n']
            iv = interp_trim(prog, f)
            if iv is not None:
                n += 1
                ctx.analysed(f)
                ctx.evaluations += iv[2]
                ctx.check(iv[0] == 'ok', rule, f['pq'], role, fwhere(f), iv[1], iv[1])
                continue
            loops = [s_ for s_ in (f['body']['s'] if f['body'].get('k') == 'block' else []) if s_.get('k') in ('for', 'while')]
            cls = [q.counted_loop(f, lp, need_init=False) for lp in loops]
            if len(loops) != 2 or any(c is None or not isinstance(c['step'], int) for c in cls):
                ctx.undecided(rule, f['pq'], role, fwhere(f), 'two counting scan loops not recognised')
                continue
            n += 1
            ctx.analysed(f)
            # lengths to check: substring(a, b) -> b - a ; memmove(.., .., count) -> count
            sites = []
            for e in fn_exprs(f):
                if e.get('k') == 'call' and (e.get('pq') or '').endswith('String::substring') and len(e.get('a', [])) == 2:
                    sites.append(('substring', e['a'][0], e['a'][1], e))
                if e.get('k') == 'call' and e.get('fn') in ('memmove', 'memcpy') and len(e.get('a', [])) == 3:
                    sites.append(('count', None, e['a'][2], e))
            if not sites:
                ctx.undecided(rule, f['pq'], role, fwhere(f), 'no cut (substring / memmove) found after the scans')
                continue
            lenbind = lambda L: (lambda e: L if (e.get('k') == 'mem' and e.get('f') == '_len') or (e.get('k') == 'call' and (e.get('pq') or '').endswith('String::length') and not e.get('a')) else None)
            bad = None
            try:
                for L in range(0, 6):
                    # counters declared with their initial value before the scans are live from the start
                    st0 = {}
                    for cl in cls:
                        if cl['loop'].get('init') is None and cl['init'] is not None:
                            try:
                                st0[cl['var']] = bounded.Bound(prog, f, dict(st0), {}, bind=lenbind(L)).ev(cl['init'])
                            except bytesets.Undecidable:
                                pass
                    states = [st0]
                    for cl in cls:
                        nxt = []
                        for st in states:
                            ev0 = bounded.Bound(prog, f, dict(st), {}, bind=lenbind(L))
                            if cl['init'] is None:
                                raise bytesets.Undecidable('initial value of `%s` not found' % cl['name'])
                            v = st[cl['var']] if (cl['loop'].get('init') is None and cl['var'] in st) else ev0.ev(cl['init'])
                            for _ in range(12):
                                env = dict(st)
                                env[cl['var']] = v
                                nxt.append(env)           # a data-dependent break / false conjunct can stop the scan here
                                c = bounded.Bound(prog, f, env, {}, bind=lenbind(L)).ev3(cl['cond'])
                                if c is False:
                                    break
                                v += cl['step']
                            ctx.evaluations += 1
                        states = nxt
                    for st in states:
                        ev = bounded.Bound(prog, f, st, {}, bind=lenbind(L))
                        for kind, a_, b_, e in sites:
                            ln = ev.ev(b_) - (ev.ev(a_) if a_ is not None else 0)
                            if ln < 0 and bad is None:
                                bad = (L, st, ln, e)
            except bytesets.Undecidable as u:
                ctx.undecided(rule, f['pq'], role, fwhere(f), 'scan bounds not evaluable: %s' % u)
                continue
            names = dict((c['var'], c['name']) for c in cls)
            ctx.check(bad is None, rule, f['pq'], role, fwhere(f, bad[3]['l'] if bad else None), 'for lengths 0..5 and every pair of stop positions the kept length is >= 0',
                      '%s: for a string of %d characters the scans can stop at %s and `%s` then has the length %d: a whitespace-only string yields a negative-length copy (memcpy with a negative size)' % (
                          f['q'], bad[0] if bad else 0, ', '.join('%s = %s' % (names.get(k_, k_), v_) for k_, v_ in sorted((bad[1] if bad else {}).items(), key=str)), pe(bad[3]) if bad else '', bad[2] if bad else 0))
    ctx.floor(rule, n, 1)


def check_valist(ctx, prog):
    """C03.valist: a va_list is consumed by the v*printf call it is passed to; formatting again (the retry with a larger buffer)
    needs va_end + va_start (or a va_copy) in between, otherwise the second pass reads whatever follows the arguments.  Typestate
    over the CFG of every String member that declares a va_list: fresh -> consumed by a call taking the list, consumed -> fresh
    by va_start / va_copy; a consuming call in state `consumed` (or after va_end) is the violation."""
    import cfg as cfgm
    n = 0
    for f in prog.functions:
        if f.get('cls') != 'asl::String' or not f.get('body'):
            continue
        lists = [v for s_ in ir.walk_stmts(f['body']) if s_.get('k') == 'decl' for v in s_['vars'] if 'va_list' in (T(f, v['t']).get('s') or '')]
        for v in lists:
            n += 1
            ctx.analysed(f)
            g = cfgm.CFG(f)
            role = '%s%s:va_list %s is restarted before it is formatted again' % (f['n'], f['sig'][:30], v.get('n'))
            bad = []

            def mentions(e):
                return any(w.get('k') == 'var' and w.get('id') == v['id'] for a in e.get('a', []) for w in walk_expr(a))

            def step(nd, st):
                if nd.kind != 'ev' or nd.e is None or nd.e.get('k') != 'call' or not mentions(nd.e):
                    return st
                fn = nd.e.get('fn') or ''
                if fn in ('__builtin_va_start', '__builtin_va_copy', '__builtin_c23_va_start'):
                    first = strip(nd.e['a'][0])
                    while first.get('k') in ('cast', 'paren'):
                        first = strip(first['e'])
                    return 'fresh' if first.get('id') == v['id'] else st
                if fn == '__builtin_va_end':
                    return 'ended'
                if st != 'fresh':
                    bad.append((nd.e.get('l', 0), fn, st))
                return 'consumed'
            reached, _ = cfgm.dataflow(g, 'none', step)
            ctx.evaluations += sum(len(x) for x in reached.values())
            real = [b for b in bad if b[2] in ('consumed', 'ended')]
            if real:
                ctx.violation('C03.valist', f['pq'], role, fwhere(f, real[0][0]), '`%s` formats from the va_list a second time on a path where it was already %s and not restarted (va_end + va_start): the retry with the larger buffer reads '
                              'garbage arguments - the result differs from snprintf for every text that does not fit the first buffer' % (real[0][1], 'consumed by an earlier pass' if real[0][2] == 'consumed' else 'ended'))
            elif bad:
                ctx.undecided('C03.valist', f['pq'], role, fwhere(f, bad[0][0]), 'the va_list is used before a va_start was seen')
            else:
                ctx.ok('C03.valist', f['pq'], role, fwhere(f), 'every formatting pass starts from a fresh va_list on every path')
    ctx.floor('C03.valist members with a va_list', n, 2)


def check_numeric_model(ctx, prog):
    """C03.number: every constructor of String from a number is interpreted whole (scansim: alloc() with malloc modelled as a
    bounds-checked block, the inline buffer as its own block, the digit helpers interpreted, snprintf / strcpy modelled) for
    representative arguments - type limits, 0, +-1, every power of ten with its neighbours, the constants of the constructor.
    The result must be the decimal text of the argument for integer types ("true"/"false" for bool), `_len` must be the offset
    of the terminating NUL, and no store may leave the block alloc() provided."""
    import scansim
    inline = None
    for r in prog.records.values():
        if r['q'].startswith('asl::String::') and r.get('union'):
            for fld in r['fields']:
                if fld['n'] == '_space':
                    inline = T(r, fld['t']).get('n')
    if not inline:
        raise AnalysisBroken('inline buffer of String not found')
    n = 0
    for f in prog.functions:
        if f.get('pq') != 'asl::String::String' or not f.get('body') or len(f['params']) != 1:
            continue
        pt = T(f, f['params'][0]['t'])
        if not (pt.get('int') or pt.get('flt')) or pt.get('ptr') or pt.get('s') in ('char',):
            continue
        ctx.analysed(f)
        role = 'String(%s):text, length and bounds' % pt['s']
        bits, sg = pt.get('bits'), pt.get('sg')
        if pt.get('bool'):
            reps = [0, 1]
        elif pt.get('int'):
            lo = -2 ** (bits - 1) if sg else 0
            hi = 2 ** (bits - 1) - 1 if sg else 2 ** bits - 1
            reps = {lo, hi, 0, 1, -1, lo + 1, hi - 1, 5, -5, 42, -42}
            for k in range(0, 20):
                reps |= {10 ** k - 1, 10 ** k, 10 ** k + 1, -(10 ** k) - 1, -(10 ** k), -(10 ** k) + 1}
            for w in fn_exprs(f):
                if w.get('k') == 'int' and const_val(w) is not None:
                    reps |= {const_val(w) - 1, const_val(w), const_val(w) + 1}
            reps = sorted(x for x in reps if lo <= x <= hi)
        else:
            big = 1e308 if pt.get('s') != 'float' else 1e38          # (the largest finite value printed with 15 digits rounds up past the range)
            reps = [0.0, 1.0, -1.0, 0.5, -2.25e-05, 123456.789, 1e15, -1e15, 1e16, -123456789012345678.0, big, -big, 5e-324 if pt.get('s') != 'float' else 1.401298464324817e-45]
        bad = und = None
        for x in reps:
            bufs = {'SPACE': [scansim.UNINIT] * inline}
            mems = {'_space': ('P', 'SPACE', 0), '_size': 0x5555, '_len': -7}

            def malloc(run, e, args, bufs=bufs):
                if not isinstance(args[0], int) or args[0] < 0:
                    raise scansim.Unsupported('malloc size')
                bufs['HEAP'] = [scansim.UNINIT] * args[0]
                return ('P', 'HEAP', 0)
            r = scansim.Run(prog, f, bufs, mems=mems, externs={'malloc': malloc}, methods={'*': 'interp'}, objects=True)
            r.vars[f['params'][0]['id']] = x
            ctx.evaluations += 1
            try:
                r.run()
            except scansim.OOB as o:
                bad = 'String(%s) of %r writes outside the storage alloc() provided: %s' % (pt['s'], x, o)
                break
            except (scansim.Unsupported, TypeError, KeyError, IndexError, OverflowError, ValueError) as u:
                und = 'argument %r: %s' % (x, u)
                break
            buf = bufs['SPACE'] if mems.get('_size') == 0 else bufs.get('HEAP', [])
            txt = []
            for c in buf:
                if c == 0:
                    break
                txt.append(c)
            else:
                bad = 'String(%s) of %r leaves no terminating NUL inside its %d-byte storage' % (pt['s'], x, len(buf))
                break
            if not all(isinstance(c, int) for c in txt):
                bad = 'String(%s) of %r leaves uninitialised bytes before the terminator' % (pt['s'], x)
                break
            text = ''.join(chr(c & 255) for c in txt)
            if mems.get('_len') != len(txt):
                bad = 'String(%s) of %r holds "%s" (%d characters) but length() is %s' % (pt['s'], x, text, len(txt), mems.get('_len'))
                break
            if pt.get('bool'):
                want = 'true' if x else 'false'
            elif pt.get('int'):
                want = str(x)
            else:
                want = None
                try:
                    back = float(text)
                except ValueError:
                    bad = 'String(%s) of %r is "%s", which is not a number' % (pt['s'], x, text)
                    break
                if x != 0 and abs(back - x) > abs(x) * 1e-6 or (x == 0 and back != 0):
                    bad = 'String(%s) of %r is "%s"' % (pt['s'], x, text)
                    break
            if want is not None and text != want:
                bad = 'String(%s) of %d is "%s", expected "%s"' % (pt['s'], x, text, want)
                break
        if und:
            ctx.undecided('C03.number', f['pq'], role, fwhere(f), 'outside the interpreted fragment: %s' % und)
        else:
            n += 1
            ctx.check(bad is None, 'C03.number', f['pq'], role, fwhere(f), 'interpreted for %d representative arguments' % len(reps), bad or '')
    ctx.floor('C03.number numeric constructors interpreted', n, 6)


def interp_trim(prog, f):
    """trimmed() / trim() interpreted (scansim) on every text over {space, tab, newline, CR, VT, 'a'} up to 4 characters: the result (the
    returned String, or the receiver's own text and `_len` for the in-place form) is the text without its leading and trailing
    white space, and no access - in particular no copy with a negative count - leaves the strings.
    -> ('ok' | 'bad', text, runs) | None when the body is outside the interpreted fragment"""
    import scansim, itertools
    WS = ' \t\r\n'
    runs = 0
    for L in range(0, 5):
        for t in itertools.product(' a\t\n\x0b\r', repeat=L):
            text = ''.join(t)
            bufs = {'T': [ord(c) for c in text] + [0]}
            mems = {'_len': len(text)}
            r = scansim.Run(prog, f, bufs, call_ptrs={'str': ('P', 'T', 0), 'data': ('P', 'T', 0)}, methods={'*': 'interp'}, mems=mems, objects=True)
            runs += 1
            shown = text.replace('\t', '\\t').replace('\n', '\\n').replace('\x0b', '\\v').replace('\r', '\\r')
            try:
                ret = r.run()
            except scansim.OOB as o:
                return 'bad', '"%s".%s(): %s (a white-space-only string yields a negative-length copy)' % (shown, f['n'], o), runs
            except (scansim.Unsupported, TypeError, KeyError, IndexError, ValueError):
                return None
            if isinstance(ret, tuple) and ret[0] == 'P' and isinstance(ret[1], tuple) and ret[1][0] == 'O':
                out = bufs[ret[1]]
                got = ''.join(chr(x & 255) for x in out[:out.index(0)]) if 0 in out else None
            elif ret == ('THIS',) or ret is None:
                n_ = mems.get('_len')
                if not isinstance(n_, int) or n_ < 0 or n_ >= len(bufs['T']) or bufs['T'][n_] != 0:
                    return 'bad', '"%s".%s() leaves length() = %s, which is not the offset of the terminating NUL' % (shown, f['n'], n_), runs
                got = ''.join(chr(x & 255) for x in bufs['T'][:n_])
            else:
                return None
            if got != text.strip(WS):
                esc = lambda x: x.replace('\t', '\\t').replace('\n', '\\n').replace('\x0b', '\\v').replace('\r', '\\r')
                return 'bad', '"%s".%s() gives "%s", the model (white space = space, tab, CR, LF) gives "%s"' % (shown, f['n'], esc(got), esc(text.strip(WS))), runs
    return 'ok', 'interpreted on %d texts: the result is the text without leading / trailing white space, every copy has a non-negative count' % runs, runs


def check_split_model(ctx, prog):
    """C03.split: split() agrees with the byte-string model.  `split(sep, out)` is interpreted (scansim; the output array as a
    list that receives the appended pieces) on every text over {a, b, ','} up to 5 characters with the separators ",", ",,",
    "ab" and "a": the pieces must be those of the model (text.split(sep): a trailing separator yields a final empty piece), so
    that joining them with the separator gives the text back.  The white-space overload is interpreted on texts over
    {space, tab, 'a', 'b'} against the model's split on runs of white space."""
    import scansim, itertools
    n = 0
    for sig, alpha, seps in (('(const asl::String &,asl::Array<asl::String> &)const', 'ab,', (',', ',,', 'ab', 'a')), ('(asl::Array<asl::String> &)const', ' a\tb', (None,))):
        fs = [g for g in prog.fn('asl::String::split', sig) if g.get('body')]
        if not fs:
            continue
        f = fs[0]
        ctx.analysed(f)
        role = 'split%s:pieces of the byte-string model' % sig
        bad = und = None
        runs = 0
        for L in range(0, 6):
            for t in itertools.product(alpha, repeat=L):
                text = ''.join(t)
                for sep in seps:
                    bufs = {'T': [ord(c) for c in text] + [0]}
                    r = scansim.Run(prog, f, bufs, call_ptrs={'str': ('P', 'T', 0)}, methods={'*': 'interp'}, mems={'_len': len(text)}, objects=True)
                    out = []
                    if sep is not None:
                        pid = f['params'][0]['id']
                        bufs[('O', pid)] = [ord(c) for c in sep] + [0]
                        r.objlen[pid] = len(sep)
                        r.strobjs.add(pid)
                        r.listsinks[f['params'][1]['id']] = out
                        want = text.split(sep)
                    else:
                        r.listsinks[f['params'][0]['id']] = out
                        want = text.split()
                    runs += 1
                    shown = '"%s".split(%s)' % (text.replace('\t', '\\t'), '"%s"' % sep if sep is not None else '')
                    try:
                        r.run()
                    except scansim.OOB as o:
                        bad = '%s: %s' % (shown, o)
                        break
                    except (scansim.Unsupported, TypeError, KeyError, IndexError, ValueError) as u:
                        und = '%s: %s' % (shown, u)
                        break
                    got = [''.join(chr(c & 255) for c in x) for x in out]
                    if got != want:
                        bad = '%s gives %s, the model gives %s%s' % (shown, got, want, (': joined with the separator the pieces give "%s", not the text' % sep.join(got)) if sep is not None and sep.join(got) != text else '')
                        break
                if bad or und:
                    break
            if bad or und:
                break
        ctx.evaluations += runs
        if und:
            ctx.undecided('C03.split', f['pq'], role, fwhere(f), 'outside the interpreted fragment: %s' % und)
        else:
            n += 1
            ctx.check(bad is None, 'C03.split', f['pq'], role, fwhere(f), 'interpreted on %d (text, separator) pairs' % runs, bad or '')
    n += check_split_dic(ctx, prog)
    ctx.floor('C03.split overloads interpreted', n, 1)


def check_split_dic(ctx, prog, rule='C03.split'):
    """split(sep1, sep2) -> dictionary (the routine behind Url::parseQuery and form bodies) interpreted on every text over
    {a, b, '=', '&'} up to 6 characters with ("&", "=") and on a few longer ones with two-character separators: a pair
    contributes key = text before the FIRST sep2 and value = everything after it (a value may contain sep2: base64 padding, nested
    URLs); pairs without sep2 or with an empty key contribute nothing; a later pair with the same key wins."""
    import scansim, itertools
    fs = [g for g in prog.fn('asl::String::split', '(const asl::String &,const asl::String &)const') if g.get('body')]
    if not fs:
        return 0
    f = fs[0]
    ctx.analysed(f)
    role = 'split(sep1, sep2):keys and values of the byte-string model'

    def model(text, s1, s2):
        d = {}
        for pair in text.split(s1):
            j = pair.find(s2)
            if j > 0:
                d[pair[:j]] = pair[j + len(s2):]
        return d
    cases = []
    for L in range(0, 7):
        for t in itertools.product('ab=&', repeat=L):
            t = ''.join(t)
            if L <= 4 or (t.count('=') >= 1 and t.count('a') + t.count('b') <= 3):
                cases.append((t, '&', '='))
    cases += [('a::1;;b::2::3;;::x;;c', ';;', '::'), ('k=v==&token=YWJj==&u=/a?b=c', '&', '=')]
    bad = und = None
    runs = 0
    for text, s1, s2 in cases:
        bufs = {'T': [ord(c) for c in text] + [0]}
        r = scansim.Run(prog, f, bufs, call_ptrs={'str': ('P', 'T', 0)}, methods={'*': 'interp'}, mems={'_len': len(text)}, objects=True)
        for k, sep in ((0, s1), (1, s2)):
            pid = f['params'][k]['id']
            bufs[('O', pid)] = [ord(c) for c in sep] + [0]
            r.objlen[pid] = len(sep)
            r.strobjs.add(pid)
        runs += 1
        shown = '"%s".split("%s", "%s")' % (text, s1, s2)
        try:
            ret = r.run()
        except scansim.OOB as o:
            bad = '%s: %s' % (shown, o)
            break
        except (scansim.Unsupported, TypeError, KeyError, IndexError, ValueError) as u:
            und = '%s: %s' % (shown, u)
            break
        if not (isinstance(ret, tuple) and ret[0] == 'DICT' and ret[1] in r.dicts):
            und = '%s: result is not a modelled dictionary' % shown
            break
        got = dict((''.join(chr(c & 255) for c in k), ''.join(chr(c & 255) for c in v)) for k, v in r.dicts[ret[1]].items())
        want = model(text, s1, s2)
        if got != want:
            bad = '%s gives %s, the model gives %s: the application sees parameters that are not the ones sent' % (shown, got, want)
            break
    ctx.evaluations += runs
    if und:
        ctx.undecided(rule, f['pq'], role, fwhere(f), 'outside the interpreted fragment: %s' % und)
        return 0
    ctx.check(bad is None, rule, f['pq'], role, fwhere(f), 'interpreted on %d texts' % runs, bad or '')
    return 1


def check_parse_back(ctx, prog):
    """C03.parse: the second half of the integer identities - the decimal text of a value converted back gives the value.  The
    conversion members (`operator int`, `operator unsigned`, `operator Long` / `toLong()`, with the helpers they call interpreted
    and glibc's atoi / atol modelled) are interpreted on the decimal text of representative values of their type: limits, 0,
    +-1, powers of ten and their neighbours; for `toLong()` also the texts of 64-bit unsigned values (read back through the
    same routine and reinterpreted, which is how ULong round-trips).  Arithmetic is two's-complement as on the build target."""
    import scansim
    targets = [('operator int', 32, True), ('operator unsigned int', 32, False), ('operator long long', 64, True), ('toLong', 64, True), ('toLong', 64, False)]
    n = 0
    for name, bits, sg in targets:
        fs = [g for g in prog.fn('asl::String::' + name) if g.get('body')]
        if not fs:
            continue
        f = fs[0]
        ctx.analysed(f)
        role = '%s:%s text converted back' % (name, 'signed' if sg else 'unsigned')
        lo = -2 ** (bits - 1) if sg else 0
        hi = 2 ** (bits - 1) - 1 if sg else 2 ** bits - 1
        reps = {lo, hi, 0, 1, lo + 1, hi - 1, 7, 42}
        if sg:
            reps |= {-1, -7, -42}
        for k in range(0, 20):
            reps |= {10 ** k - 1, 10 ** k, 10 ** k + 1, -(10 ** k) - 1, -(10 ** k), -(10 ** k) + 1}
        reps = sorted(x for x in reps if lo <= x <= hi)
        bad = und = None
        for x in reps:
            text = str(x)
            bufs = {'T': [ord(c) for c in text] + [0]}
            r = scansim.Run(prog, f, bufs, call_ptrs={'str': ('P', 'T', 0)}, methods={'*': 'interp'}, mems={'_len': len(text)}, objects=True)
            ctx.evaluations += 1
            try:
                got = r.run()
            except scansim.OOB as o:
                bad = '"%s" converted back reads outside the string: %s' % (text, o)
                break
            except (scansim.Unsupported, TypeError, KeyError, ValueError) as u:
                und = '"%s": %s' % (text, u)
                break
            if not isinstance(got, int):
                und = '"%s": result %r' % (text, got)
                break
            got &= (1 << bits) - 1
            if got != x & ((1 << bits) - 1):
                back = got - (1 << bits) if sg and got >= 1 << (bits - 1) else got
                bad = 'the text "%s" of the %d-bit %s value %d converts back to %d' % (text, bits, 'signed' if sg else 'unsigned', x, back)
                break
        if und:
            ctx.undecided('C03.parse', f['pq'], role, fwhere(f), 'outside the interpreted fragment: %s' % und)
        else:
            n += 1
            ctx.check(bad is None, 'C03.parse', f['pq'], role, fwhere(f), 'interpreted on the decimal texts of %d representative values' % len(reps), bad or '')
    ctx.floor('C03.parse conversions interpreted', n, 3)



def check_inplace_model(ctx, prog):
    """C03.inplace: replaceme(a, b) - the in-place sibling of replace(char, char) - is interpreted (scansim) on every text over
    {a, b, c} up to 4 characters sitting in a buffer with stale bytes behind its terminator: afterwards the buffer holds the
    model's text.replace(a, b) (every position, the first and the last included), the terminator and the stale bytes are
    untouched, and nothing outside the buffer was accessed."""
    import scansim, itertools
    fs = [g for g in prog.fn('asl::String::replaceme', '(char,char)') if g.get('body')]
    if not fs:
        return 0
    f = fs[0]
    ctx.analysed(f)
    role = 'replaceme(char,char):the text afterwards is the model\'s replace, byte for byte'
    bad = und = None
    runs = 0
    for L in range(0, 5):
        for t in itertools.product('abc', repeat=L):
            text = ''.join(t)
            for a_, b_ in (('a', 'x'), ('b', 'a'), ('c', 'c'), ('x', 'a')):
                stale = 'ab'
                bufs = {'T': [ord(c) for c in text] + [0] + [ord(c) for c in stale]}
                r = scansim.Run(prog, f, bufs, int_params={f['params'][0]['id']: ord(a_), f['params'][1]['id']: ord(b_)},
                                call_ptrs={'str': ('P', 'T', 0), 'data': ('P', 'T', 0)}, methods={'*': 'interp'}, mems={'_len': L}, objects=True)
                runs += 1
                call = '"%s".replaceme(%r, %r)' % (text, a_, b_)
                try:
                    r.run()
                except scansim.OOB as o:
                    bad = '%s accesses bytes outside the string: %s' % (call, o)
                    break
                except (scansim.Unsupported, TypeError, KeyError, IndexError, ValueError) as u:
                    und = '%s: %s' % (call, u)
                    break
                want = [ord(c) for c in text.replace(a_, b_)] + [0] + [ord(c) for c in stale]
                if bufs['T'] != want:
                    got = ''.join(chr(c) if isinstance(c, int) and 32 <= c < 127 else '\\x%02x' % c if isinstance(c, int) else '?' for c in bufs['T'][:L])
                    bad = '%s leaves "%s", the model gives "%s"%s' % (call, got, text.replace(a_, b_), '' if bufs['T'][L:] == want[L:] else ' (and the terminator or the bytes behind it were changed)')
                    break
            if bad or und:
                break
        if bad or und:
            break
    ctx.evaluations += runs
    if und and not bad:
        ctx.info['inplace_replaceme'] = 'outside the interpreted fragment: %s' % und
        return 0
    ctx.check(bad is None, 'C03.inplace', f['pq'], role, fwhere(f), 'interpreted on %d (text, a, b) cases' % runs, bad or '')
    return 1


def check_search_model(ctx, prog):
    """C03.find: the search members agree with the byte-string model and read only the text.  indexOf(char, from),
    indexOf(text, from), lastIndexOf(char) and lastIndexOf(text) are interpreted (scansim) on every text over {a, b} up to 4
    characters that sits in a buffer with two stale bytes behind its terminator (what a shortened String leaves there), for
    every start offset 0..length: the result is Python's find / rfind on the text, and no read passes the buffer."""
    import scansim, itertools
    cases = (('asl::String::indexOf', '(char,int)const', 'c'), ('asl::String::indexOf', '(const char *,int)const', 's'),
             ('asl::String::lastIndexOf', '(char)const', 'rc'), ('asl::String::lastIndexOf', '(const char *)const', 'rs'),
             ('asl::String::startsWith', '(const char *)const', 'sw'), ('asl::String::endsWith', '(const char *)const', 'ew'))
    n = 0
    for name, sig, kind in cases:
        fs = [g for g in prog.fn(name, sig) if g.get('body')]
        if not fs:
            continue
        f = fs[0]
        ctx.analysed(f)
        role = '%s%s:result of the byte-string model, reads inside the text' % (f['n'], sig)
        bad = und = None
        runs = 0
        needles = ('a', 'b', 'x') if kind in ('c', 'rc') else ('a', 'ab', 'ba', 'x', 'bx') if kind in ('s', 'rs') else ('', 'a', 'b', 'ab', 'ba', 'abab', 'bbbbb', 'aaaaaaaaaaaaaaaaaaaa')
        for L in range(0, 5):
            for t in itertools.product('ab', repeat=L):
                text = ''.join(t)
                for nd in needles:
                    for i0 in (range(0, L + 1) if kind in ('c', 's') else (None,)):
                        for stale in ('xb', 'ax'):
                            bufs = {'T': [ord(c) for c in text] + [0] + [ord(c) for c in stale]}
                            if kind in ('s', 'rs', 'sw', 'ew'):
                                bufs['N'] = [ord(c) for c in nd] + [0]
                            pp = {f['params'][0]['id']: ('P', 'N', 0)} if kind in ('s', 'rs', 'sw', 'ew') else {}
                            ip = {f['params'][0]['id']: ord(nd)} if kind in ('c', 'rc') else {}
                            if i0 is not None:
                                ip[f['params'][1]['id']] = i0
                            r = scansim.Run(prog, f, bufs, ptr_params=pp, int_params=ip, call_ptrs={'str': ('P', 'T', 0), 'data': ('P', 'T', 0)}, methods={'*': 'interp'}, mems={'_len': L}, objects=True)
                            runs += 1
                            call = '"%s"%s.%s(%s%s)' % (text, ' (followed by stale "%s")' % stale, f['n'], repr(nd), '' if i0 is None else ', %d' % i0)
                            try:
                                got = r.run()
                            except scansim.OOB as o:
                                bad = '%s reads outside the string: %s' % (call, o)
                                break
                            except (scansim.Unsupported, TypeError, KeyError, IndexError, ValueError) as u:
                                und = str(u)
                                break
                            want = text.find(nd, i0) if i0 is not None else text.rfind(nd) if kind in ('rc', 'rs') else int(text.startswith(nd)) if kind == 'sw' else int(text.endswith(nd))
                            got = int(got) if kind in ('sw', 'ew') and isinstance(got, (int, bool)) else got
                            if got != want:
                                bad = '%s returns %s, the model gives %d (length %d): bytes behind the terminator take part in the search' % (call, got, want, L)
                                break
                        if bad or und:
                            break
                    if bad or und:
                        break
                if bad or und:
                    break
            if bad or und:
                break
        ctx.evaluations += runs
        if und and not bad:
            ctx.info['search_' + f['n'] + sig] = 'outside the interpreted fragment: %s' % und
            continue
        n += 1
        ctx.check(bad is None, 'C03.find', f['pq'], role, fwhere(f), 'interpreted on %d (text, needle, offset) cases' % runs, bad or '')
    ctx.floor('C03.find', n, 2)
