"""C04 - Var: structural clauses decided statically.

 R-TAG       the heap-owning tags are read from isPod()'s mask; copy(), free(), the copy switch of operator=(const Var&) and
             clone() each handle exactly those tags, every case acting on the union member that belongs to its tag (sibling
             agreement tag -> member); operator== has a case or a pre-switch branch for every value-carrying enumerator
 R-ALIAS     no Var member reads a `const Var&` argument (which may be an element or property of *this) after *this's
             containers were released or modified; forwarding to Array<Var>/Dic<Var> members is checked against their summaries
 C04.clone   clone() detaches each container (dup) BEFORE re-assigning every child from child.clone()
 C04.inline  every copy into the inline short-string buffer is dominated by a length guard that keeps length+1 within it
 Value semantics of accessors and the numeric equality lattice are not decided."""
import os
import ir, q, alias, bounded
from ir import strip, strip_lv, const_val, T, pe, walk_expr, fn_exprs, AnalysisBroken
from core import fwhere
import C01

UNION_FIELDS = ('_s', '_a', '_o', '_ss')


def run(ctx):
    units = [os.path.join(ir.REPO, 'src', 'Var.cpp'), os.path.join(ir.VERIF, 'drivers', 'inst_containers.cpp')]
    lib = [u for u in ir.library_units() if ctx.tier == 'thorough' and not u.endswith('Var.cpp')]
    prog = ir.load_units(units + lib, force_inst=[units[1]])
    ctx.use_program(prog)
    tags = heap_tags(ctx, prog)
    check_tags(ctx, prog, tags)
    check_alias(ctx, prog)
    check_clone(ctx, prog, tags)
    check_inline(ctx, prog)
    check_accessors(ctx, prog)
    check_strshare(ctx, prog)
    check_release(ctx, prog, tags)
    check_numeq(ctx, prog)
    check_streq(ctx, prog)
    check_numeq_model(ctx, prog)
    check_strrep(ctx, prog)
    check_container_handles(ctx, prog)
    check_ranges(ctx, prog)
    check_tostring(ctx, prog)
    ctx.floor('C04.neq', check_neq(ctx, prog), 1)
    # a Var object is a Dic<Var>: keys enter the sorted array through the key search only (shared rule C02.map)
    import C02
    C02.check_map(ctx, prog)
    # the element lifetime rules of Array, on the instantiations Var's containers use (Array<Var>, Array<char>, the Dic storage):
    # removing / inserting children must construct and destroy each child exactly once
    n_l = C01.check_lifetime(ctx, prog)
    ctx.floor('C01.lifetime members used by Var', n_l, 3)
    return __doc__.split('\n\n', 1)[1]


def var_fn(prog, name, sig=None):
    fs = [f for f in prog.fn('asl::Var::' + name, sig) if f.get('body')]
    if not fs:
        raise AnalysisBroken('anchor asl::Var::%s%s not found' % (name, sig or ''))
    return fs[0]


def heap_tags(ctx, prog):
    """enumerator values v with (v & mask) != 0 where isPod() is `(_type & mask) == 0`"""
    f = var_fn(prog, 'isPod')
    ctx.analysed(f)
    mask = None
    for e in fn_exprs(f):
        if e.get('k') == 'bin' and e.get('op') == '&' and const_val(e['y']) is not None:
            mask = const_val(e['y'])
    if mask is None:
        raise AnalysisBroken('isPod() mask not recognised')
    en = prog.enums.get('asl::Var::Type')
    if not en:
        raise AnalysisBroken('enum asl::Var::Type not found')
    tags = {}
    for c in en['consts']:
        if c['v'] & mask:
            tags.setdefault(c['v'], []).append(c['n'])
    ctx.info['heap_tags'] = tags
    ctx.info['enumerators'] = en['consts']
    if len(tags) < 3:
        raise AnalysisBroken('fewer than three heap-owning tags found: %s' % tags)
    return tags


def switch_on_type(f, prog=None):
    """dispatches on the _type member, in source order: [(stmt, {tag value | 'default': [statements of that arm]})].
    A dispatch is a `switch (_type)` or an if / else-if chain of at least two arms whose conditions test _type; the
    tag values of an arm of a chain are found by evaluating its condition with _type bound to each enumerator."""
    out = []
    in_chain = set()
    for s_ in ir.walk_stmts(f['body']):
        if s_.get('k') == 'if' and id(s_) not in in_chain and prog is not None:
            arms = []
            cur = s_
            while isinstance(cur, dict) and cur.get('k') == 'if' and type_mems(cur['c'], f):
                in_chain.add(id(cur))
                arms.append((q.expand(f, cur['c']), cur['then']))
                cur = cur.get('else')
                while isinstance(cur, dict) and cur.get('k') == 'block' and len(cur['s']) == 1 and cur['s'][0].get('k') == 'if':
                    cur = cur['s'][0]
            if len(arms) >= 2:
                texts = set(pe(m) for c, _ in arms for m in type_mems(c))
                if len(texts) == 1:
                    text = texts.pop()
                    en = prog.enums['asl::Var::Type']
                    cases = {}
                    taken = set()
                    for c, body in arms:
                        stmts = body['s'] if body.get('k') == 'block' else [body]
                        for v in sorted(set(x['v'] for x in en['consts'])):
                            if v in taken:
                                continue
                            r = bounded.Bound(prog, f, {}, {text: v}).ev3(c)
                            if r is not False:
                                cases.setdefault(v, []).extend(stmts)
                            if r is True:
                                taken.add(v)
                    if cur is not None:
                        cases['default'] = cur['s'] if cur.get('k') == 'block' else [cur]
                    out.append((s_, cases))
            continue
        if s_.get('k') != 'switch':
            continue
        if not type_mems(s_['c']):
            continue
        cases = {}
        cur = []
        body = s_['body']['s'] if s_['body'].get('k') == 'block' else [s_['body']]
        for st in body:
            x = st
            labels = []
            while x.get('k') in ('case', 'default'):
                labels.append('default' if x['k'] == 'default' else x.get('v'))
                x = x['sub']
            if labels:
                cur = labels
                for l in labels:
                    cases.setdefault(l, [])
            for l in cur:
                cases[l].append(x)
        out.append((s_, cases))
    return out


def type_mems(c, f=None):
    """the reads of the _type tag in c; with f given also through a local that only names it (`const Type t = _type;`)"""
    if f is not None:
        c = q.expand(f, c)
    return [w for w in walk_expr(c) if w.get('k') == 'mem' and w.get('f') == '_type']


def members_touched(stmts):
    s_ = set()
    for st in stmts:
        for e in ir.stmt_exprs(st):
            if e.get('k') == 'mem' and e.get('f') in UNION_FIELDS and 'asl::Var' in (e.get('fq') or ''):
                s_.add(e['f'])
    return s_


def check_tags(ctx, prog, tags):
    mapping_votes = {}
    targets = [('copy', None, 'construct'), ('free', None, 'destroy'), ('operator=', '(const asl::Var &)', 'construct'), ('clone', None, 'dup')]
    n = 0
    for name, sig, _ in targets:
        f = var_fn(prog, name, sig)
        ctx.analysed(f)
        sws = switch_on_type(f, prog)
        if not sws:
            # the dispatch may be left to another of the four (operator= written as `memcpy(..); if (!isPod()) copy(v);`)
            via = [t_ for t_, _, _ in targets if t_ != name and any(w.get('k') == 'call' and w.get('pq') == 'asl::Var::' + t_ and alias.is_this_obj(w) for w in fn_exprs(f))]
            if via:
                n += 1
                ctx.ok('R-TAG', f['pq'], name + ':dispatch', fwhere(f), 'no switch of its own: the per-tag work is done by %s(), which is checked' % via[0])
            else:
                ctx.undecided('R-TAG', f['pq'], name + ':dispatch', fwhere(f), 'no switch on the type tag')
            continue
        sw, cases = sws[-1]
        handled = set(v for v in cases if v != 'default' and members_touched(cases[v]))
        need = set(tags)
        n += 1
        ctx.evaluations += len(cases)
        ctx.check(handled == need, 'R-TAG', f['pq'], name + ':handles exactly the heap-owning tags', fwhere(f, sw['l']),
                  'cases %s' % sorted(handled), '%s() handles tags %s but the heap-owning tags (isPod mask) are %s: a missing tag leaks or shares storage, an extra one frees a non-owned member'
                  % (name, sorted(handled), sorted(need)))
        for v in handled & need:
            mt = members_touched(cases[v]) - {'_ss'}
            mapping_votes.setdefault(v, {})[name] = mt
    for v, votes in sorted(mapping_votes.items()):
        sets = list(votes.values())
        agree = all(s_ == sets[0] and len(s_) == 1 for s_ in sets)
        ctx.check(agree, 'R-TAG', 'asl::Var', 'tag %s -> union member agreement' % '/'.join(tags[v]), fwhere(var_fn(prog, 'free')),
                  'all of copy/free/operator=/clone act on %s for this tag' % sorted(sets[0]),
                  'copy/free/operator=/clone disagree on the union member owned by tag %s: %s' % (tags[v], dict((k, sorted(x)) for k, x in votes.items())))
    ctx.floor('R-TAG dispatch functions', n, 4)
    # operator==: every enumerator value except NONE has a case or a pre-switch equality branch
    f = var_fn(prog, 'operator==', '(const asl::Var &)const')
    ctx.analysed(f)
    en = prog.enums['asl::Var::Type']
    vals = sorted(set(c['v'] for c in en['consts'] if c['n'] != 'NONE'))
    covered = set()
    for sw, cases in switch_on_type(f, prog):
        covered |= set(v for v in cases if v != 'default')
    for e in fn_exprs(f):
        if e.get('k') == 'bin' and e.get('op') == '==' and strip_lv(e['x']).get('f') == '_type' and const_val(e['y']) is not None:
            covered.add(const_val(e['y']))
    missing = [v for v in vals if v not in covered]
    ctx.check(not missing, 'R-TAG', f['pq'], 'operator==:every value-carrying tag compared', fwhere(f), 'covers %s' % sorted(covered),
              'operator== has no case for tag value(s) %s: such Vars never compare equal to themselves' % missing)


def check_neq(ctx, prog):
    """C04.neq: `a != b` is the negation of `a == b` - containers compare their elements with `!=` (Array, Map), so an inequality
    that answers from anything else than the equality (a tag comparison in front of it: INT 1 and NUMBER 1.0 have different
    tags and are equal) makes arrays and objects of equal numbers unequal.  Every `operator!=` of Var that calls `operator==` on
    the same operands is evaluated as a truth table over its atoms: its value is `!(==)` whatever the other atoms are."""
    import itertools
    n = 0
    seen = set()
    for f in prog.functions:
        if f.get('cls') != 'asl::Var' or f.get('n') != 'operator!=' or not f.get('body') or f.get('implicit') or len(f['params']) != 1:
            continue
        key = (f.get('file'), f.get('line'))
        if key in seen:
            continue
        rets = [s_ for s_ in ir.walk_stmts(f['body']) if s_.get('k') == 'return' and s_.get('e') is not None]
        if len(rets) != 1 or len(list(ir.walk_stmts(f['body']))) > 2:
            continue
        atoms = {}

        def ev(e, env):
            e = strip(e)
            while e.get('k') in ('paren', 'cast'):
                e = strip(e['e'])
            if e.get('k') == 'bin' and e.get('op') in ('&&', '||'):
                x, y = ev(e['x'], env), ev(e['y'], env)
                return (x and y) if e['op'] == '&&' else (x or y)
            if e.get('k') == 'un' and e.get('op') == '!':
                return not ev(e['e'], env)
            t = pe(e)
            is_eq = e.get('k') == 'call' and (e.get('pq') or '').endswith('::operator==') and (e.get('obj') is not None and alias.is_this_obj(e)) and \
                strip(e['a'][0]).get('k') == 'var' and strip(e['a'][0]).get('id') == f['params'][0]['id']
            atoms[t] = is_eq
            return env.get(t, False)
        ev(rets[0]['e'], {})
        eqs = [t for t, q_ in atoms.items() if q_]
        if len(eqs) != 1:
            continue
        seen.add(key)
        n += 1
        ctx.analysed(f)
        names = sorted(atoms)
        bad = None
        for vals in itertools.product((False, True), repeat=len(names)):
            env = dict(zip(names, vals))
            if ev(rets[0]['e'], env) != (not env[eqs[0]]):
                bad = env
                break
        role = 'operator!=%s:the negation of operator==' % (f.get('sig') or '')
        ctx.check(bad is None, 'C04.neq', f['pq'], role, fwhere(f), 'truth table over %d atom(s): the value is !(%s) in every row' % (len(names), eqs[0]),
                  'operator!=%s does not answer from the equality alone: with %s it returns %s although `%s` is %s - two values that are equal (an INT and a NUMBER of the same value have different tags) are also reported as different, and arrays / objects, which compare their elements with !=, become unequal' % (
                      f.get('sig') or '', ', '.join('`%s` %s' % (k_, 'true' if v_ else 'false') for k_, v_ in sorted((bad or {}).items()) if k_ != eqs[0]), 'true' if bad and ev(rets[0]['e'], bad) else 'false', eqs[0], 'true' if bad and bad[eqs[0]] else 'false'))
    return n


def var_risk(f, p):
    t = T(f, p['t'])
    if 'initializer_list<asl::Var::Obj>' in (t.get('s') or ''):
        return True           # the entries of an object literal hold `const Var&`: `v = {{"k", v["k"]}}` refers into the receiver
    if not t.get('ref'):
        return False
    return T(f, t.get('to')).get('rec') == 'asl::Var'


def check_alias(ctx, prog):
    # summaries of the containers Var forwards to
    ac_arr = alias.AliasClass(prog, ctx, 'Array', 'asl::Array', ('_a',), (), C01.array_risk)
    unsafe_arr, _ = ac_arr.run('R-ALIAS', report=False)
    def map_risk(f, p):
        t = T(f, p['t'])
        return bool(t.get('ref')) and T(f, t.get('to')).get('recp') in ('asl::Map', 'asl::Dic') and f.get('n') == 'operator='
    ac_map = alias.AliasClass(prog, ctx, 'Map', 'asl::Map', (), ('a',), map_risk)
    unsafe_map, _ = ac_map.run('R-ALIAS', extern_summaries=unsafe_arr, report=False)
    ext = dict(unsafe_arr)
    ext.update(unsafe_map)
    ctx.info['unsafe_container_summaries'] = sorted('%s#%d' % k for k in ext)
    av = alias.AliasClass(prog, ctx, 'Var', 'asl::Var', (), ('_a', '_o'), var_risk, extra_invalidators=('asl::Var::free',))
    if 'asl::Var::free' not in av.inv or 'asl::Var::operator=' not in av.inv:
        raise AnalysisBroken('invalidator set of Var lost free/operator=: %s' % sorted(av.inv))
    ctx.info['Inv(Var)'] = sorted(av.inv)
    unsafe, n = av.run('R-ALIAS', extern_summaries=ext)
    ctx.floor('R-ALIAS Var members', n, 6)


def check_clone(ctx, prog, tags):
    f = var_fn(prog, 'clone')
    ctx.analysed(f)
    sws = switch_on_type(f, prog)
    if not sws:
        return
    sw, cases = sws[-1]
    for v, names in sorted(tags.items()):
        stmts = cases.get(v, [])
        flat = []
        for st in stmts:
            flat.extend(list(ir.walk_stmts(st)))
        # position of the dup() call and of the child loop
        dup_pos = loop_pos = None
        deep = False
        for i, st in enumerate(stmts):
            es = list(ir.stmt_exprs(st))
            if dup_pos is None and any(e.get('k') == 'call' and (e.get('pq') or '').split('::')[-1] == 'dup' for e in es) and st.get('k') == 'expr':
                dup_pos = i
            if st.get('k') in ('for', 'while') or any(x.get('k') in ('for', 'while') for x in ir.walk_stmts(st)):
                if loop_pos is None:
                    loop_pos = i
                if any(e.get('k') == 'call' and e.get('pq') == 'asl::Var::operator=' and any(w.get('k') == 'call' and w.get('pq') == 'asl::Var::clone' for a in e.get('a', []) for w in walk_expr(a)) for e in es):
                    deep = True
        role = 'clone:tag %s' % '/'.join(names)
        where = fwhere(f, stmts[0]['l'] if stmts else sw['l'])
        is_container = '_s' not in members_touched(stmts)
        ctx.check(dup_pos is not None, 'C04.clone', f['pq'], role + ':detach', where, 'the copy is detached with dup()', 'clone() does not dup() the storage of tag %s: the clone shares it with the original' % names)
        if is_container:
            ctx.check(deep, 'C04.clone', f['pq'], role + ':children cloned', where, 'every child re-assigned from child.clone()',
                      'clone() does not re-assign every child of a %s from child.clone(): nested containers stay shared (shallow clone)' % names)
            ctx.check(dup_pos is not None and loop_pos is not None and dup_pos < loop_pos, 'C04.clone', f['pq'], role + ':detach before cloning children', where,
                      'dup() precedes the child loop', 'clone() clones the children before detaching the container: the loop writes into storage still shared with the original, '
                      'and the later dup() re-shares every nested container')
        ctx.evaluations += 3


def check_inline(ctx, prog):
    """memcpy/strcpy into the inline short-string member: size must be bounded by a dominating guard."""
    n = 0
    for f in prog.functions:
        if f.get('clsp') != 'asl::Var' or not f.get('body'):
            continue
        sites = []
        for e in fn_exprs(f):
            if e.get('k') == 'call' and e.get('fn') in ('memcpy', 'strcpy', 'memmove') and e.get('a'):
                d = strip(e['a'][0])
                if d.get('k') == 'mem' and d.get('f') == '_ss':
                    sites.append((e, d))
        if not sites:
            continue
        ctx.analysed(f)
        g = q.Guarded(f)
        for e, d in sites:
            n += 1
            cap = T(f, d.get('t')).get('n') or T(f, d.get('dt')).get('n')
            role = '%s%s:copy into inline buffer' % (f['n'], f['sig'])
            where = fwhere(f, e['l'])
            if e['fn'] == 'strcpy' or cap is None:
                ctx.undecided('C04.inline', f['pq'], role, where, 'unbounded copy into the inline buffer or unknown capacity')
                continue
            size = e['a'][2]
            cv = const_val(size)
            if cv is not None:
                ctx.check(cv <= cap, 'C04.inline', f['pq'], role, where, 'copies %d bytes into %d' % (cv, cap), 'copies %d bytes into the %d-byte inline buffer' % (cv, cap))
                continue
            # decide by evaluation: bind the quantities the size depends on (the string length) to every value of a
            # grid reaching well past the buffer, drop the points a dominating guard excludes, and require size <= cap
            ctx.evaluations += 1
            try:
                by_id, by_text = bounded.atoms_of(prog, f, size)
            except bounded.Undecidable as u:
                ctx.undecided('C04.inline', f['pq'], role, where, str(u))
                continue
            import cfg as cfgm
            fcfg = cfgm.CFG(f)
            st, info = bounded.decide(prog, f, g.of(e), lambda ev: ev.ev(size) <= cap, by_id, by_text, range(0, cap + 40), G=g, confirm=lambda ev: bounded.reaches(fcfg, ev, e))
            if st == 'undecided':
                ctx.undecided('C04.inline', f['pq'], role, where, 'size `%s`: %s' % (pe(size), info))
            elif st == 'holds' and info == 0:
                ctx.undecided('C04.inline', f['pq'], role, where, 'no grid point reaches the copy: guards contradictory?')
            elif st == 'holds':
                ctx.ok('C04.inline', f['pq'], role, where, 'for every length the dominating guards admit (%d grid points), `%s` <= %d' % (info, pe(size), cap))
            else:
                ctx.violation('C04.inline', f['pq'], role, where, 'the dominating guards admit %s, for which `%s` exceeds the %d-byte inline buffer (a string of exactly that length overruns it)' % (
                    ', '.join('%s = %s' % kv for kv in sorted(info.items())), pe(size), cap))
    ctx.floor('C04.inline copy sites', n, 2)


def conjuncts(c):
    c = strip(c)
    if c.get('k') == 'bin' and c.get('op') == '&&':
        return conjuncts(c['x']) + conjuncts(c['y'])
    return [c]


# ------------------------------------------------------------------ numeric accessors / string buffer sharing

def _range(t):
    b = t.get('bits')
    if not b:
        return None
    return (-(1 << (b - 1)), (1 << (b - 1)) - 1) if t.get('sg', True) else (0, (1 << b) - 1)


def number_chains(prog, f, number_tag, dval, depth=0):
    """For a Var conversion operator: the integral types a stored double (`_d` = dval, tag NUMBER) passes through on its way to
    the result, on every return path whose guards admit that tag and value.  -> list of chains (innermost first)"""
    G = q.Guarded(f)
    chains = []
    for s_ in ir.walk_stmts(f['body']):
        if s_.get('k') != 'return' or s_.get('e') is None:
            continue

        def bind(e):
            if e.get('k') == 'mem' and e.get('f') == '_type':
                return number_tag
            if e.get('k') == 'mem' and e.get('f') == '_d':
                return dval
            return None
        ev = bounded.Bound(prog, f, {}, {}, bind=bind)
        if not bounded.admitted(ev, G.stmt_guards.get(id(s_), ()), G):
            continue
        # conditional operator arms: follow the arm the value selects
        def descend(e, chain):
            while isinstance(e, dict):
                k = e.get('k')
                if k in ('cast', 'temp', 'paren'):
                    if k == 'cast':
                        t = T(f, e.get('t'))
                        if t.get('int') and not t.get('bool') and e.get('ck') in ('FloatingToIntegral', 'IntegralCast'):
                            chain = chain + [t]
                    e = e['e']
                    continue
                if k == 'construct' and len(e.get('a', [])) == 1:
                    e = e['a'][0]
                    continue
                if k == 'cond':
                    r = ev.ev3(e['c'])
                    if r is not False:
                        descend(e['x'], list(chain))
                    if r is not True:
                        descend(e['y'], list(chain))
                    return
                if k == 'mem' and e.get('f') == '_d':
                    chains.append(list(reversed(chain)))
                    return
                if k == 'call' and (e.get('pq') or '').startswith('asl::Var::operator ') and depth < 3:
                    cands = [g_ for g_ in prog.fn(e.get('fn'), e.get('sig')) if g_.get('body')]
                    if cands:
                        rt = T(cands[0], cands[0].get('ret'))
                        for sc in number_chains(prog, cands[0], number_tag, dval, depth + 1):
                            chains.append(sc + ([rt] if rt.get('int') else []) + list(reversed(chain)))
                    return
                return
        descend(s_['e'], [])
    return chains


def check_accessors(ctx, prog):
    """C04.accessor: a number stored as a double (tag NUMBER: every value a 32-bit int cannot hold, e.g. unsigned >= 2^31, Long,
    ULong) is read back by `operator T()` without passing through an integer type that cannot hold it.  For each value of a
    grid of doubles inside T's range, the return paths admitted for (NUMBER, value) are followed through casts and nested
    Var conversion operators; every intermediate integral type must contain the value."""
    number_tag = q.enum_value(prog, 'asl::Var::Type', 'NUMBER')
    n = 0
    grid = [0.0, 1.0, 2147483647.0, 2147483648.0, 3000000000.0, 4294967295.0, 4294967296.0, 1e15, 9223372036854774784.0, 9223372036854775808.0, 1.5e19, -1.0, -2147483648.0, -2147483649.0, -1e15]
    for f in prog.functions:
        if f.get('clsp') != 'asl::Var' or not (f.get('n') or '').startswith('operator ') or not f.get('body') or f.get('params'):
            continue
        rt = T(f, f.get('ret'))
        if not rt.get('int') or rt.get('bool') or (rt.get('bits') or 0) < 32:
            continue
        n += 1
        ctx.analysed(f)
        role = '%s:stored doubles reach the result through wide enough types' % f['n']
        want = _range(rt)
        bad = None
        seen_any = False
        for d in grid:
            if not want[0] <= d <= want[1]:
                continue
            chains = number_chains(prog, f, number_tag, d)
            ctx.evaluations += 1
            if chains:
                seen_any = True
            for ch in chains:
                for t in ch:
                    r = _range(t)
                    if r is not None and not r[0] <= d <= r[1] and bad is None:
                        bad = (t, d)
        if not seen_any:
            ctx.undecided('C04.accessor', f['pq'], role, fwhere(f), 'no return path from the stored double recognised for tag NUMBER')
            continue
        ctx.check(bad is None, 'C04.accessor', f['pq'], role, fwhere(f), 'every grid value inside the range of %s stays representable along its conversion chain' % rt.get('s'),
                  '%s converts the stored double %.17g through `%s`, which cannot hold it: a Var built from that %s value (stored as NUMBER) does not report it back'
                  % (f['q'], bad[1] if bad else 0, bad[0].get('s') if bad else '', rt.get('s')))
    ctx.floor('C04.accessor integral conversion operators', n, 4)


def _owner(m):
    """the object a (possibly anonymous-union) member access belongs to: 'this' or the base expression"""
    b = m.get('b')
    while isinstance(b, dict):
        b = strip_lv(b)
        if b.get('k') == 'mem' and not b.get('f'):
            b = b.get('b')
            continue
        return b
    return {'k': 'this'}


def check_strshare(ctx, prog):
    """C04.strshare: Var's heap string buffer (`_s`, an Array<char>) is rewritten in place by the string assignment operators;
    therefore no Var member may create it as a handle copy of another Var's buffer (handle copies share storage)."""
    sharing = []
    mutators = []
    for f in prog.functions:
        if f.get('clsp') != 'asl::Var' or not f.get('body'):
            continue
        for e in fn_exprs(f):
            if e.get('k') == 'construct' and e.get('copy') and 'asl::Array<char>' in (e.get('cls') or '') and e.get('a'):
                src = e['a'][0]
                if any(w.get('k') == 'mem' and w.get('f') == '_s' and _owner(w).get('k') != 'this' for w in walk_expr(src)):
                    sharing.append((f, e))
        dups = [e for e in fn_exprs(f) if e.get('k') == 'call' and (e.get('pq') or '').endswith('::dup') and any(w.get('k') == 'mem' and w.get('f') == '_s' for w in walk_expr(e.get('obj') or {}))]
        for e in fn_exprs(f):
            if e.get('k') == 'call' and e.get('fn') in ('memcpy', 'strcpy', 'memmove') and e.get('a'):
                d = e['a'][0]
                if any(w.get('k') == 'mem' and w.get('f') == '_s' and _owner(w).get('k') == 'this' for w in walk_expr(d)) and not dups and f.get('kind') not in ('ctor',) and f.get('n') != 'copy':
                    mutators.append((f, e))
    ctx.evaluations += len(mutators) + len(sharing)
    if not mutators:
        ctx.undecided('C04.strshare', 'asl::Var', 'string buffer is not shared between Vars', '', 'no in-place writer of the string buffer found (anchor lost?)')
        return
    if sharing:
        f, e = sharing[0]
        m = mutators[0][0]
        ctx.violation('C04.strshare', f['pq'], 'string buffer is not shared between Vars', fwhere(f, e.get('l')),
                      '%s creates the string buffer as a handle copy of another Var\'s buffer (`%s`): the copies share storage, and %s (and %d more writer(s)) rewrites it in place without detaching, so changing one Var changes or frees the text of its copies'
                      % (f['q'], pe(e), m['q'] + m['sig'], len(mutators) - 1))
    else:
        ctx.ok('C04.strshare', 'asl::Var', 'string buffer is not shared between Vars', fwhere(mutators[0][0]), 'no Var member copy-constructs the buffer from another Var; %d in-place writers' % len(mutators))


# ------------------------------------------------------------------ C04.release

def check_release(ctx, prog, tags):
    """C04.release: no member of Var overwrites the representation (a `memcpy` over *this or an assignment to `_type`) while
    the object still owns heap storage.  For every such site and every heap-owning tag t, path-sensitive reachability in the
    CFG with `_type` bound to t on entry (branch conditions - including isPod() and comparisons of `_type` - evaluated): the
    site must not be reachable without passing a call of free() (or a delegation to another assignment).  A reachable site is
    a leak of the string / array / object the Var held."""
    import cfg as cfgm
    n = 0
    for f in prog.functions:
        if f.get('clsp') != 'asl::Var' or not f.get('body') or f.get('kind') in ('ctor', 'dtor') or f['n'] in ('free', 'Var', '~Var'):
            continue
        if f['q'].split('::')[-1] in ('Var', '~Var', 'free'):
            continue
        sites = []
        for e in fn_exprs(f):
            if e.get('k') == 'call' and e.get('fn') == 'memcpy' and strip(e['a'][0]).get('k') == 'this':
                sites.append((e, 'memcpy over *this'))
            if e.get('k') == 'bin' and e.get('op') == '=':
                l = strip_lv(e['x'])
                if l.get('k') == 'mem' and l.get('f') == '_type' and strip_lv(l.get('b') or {'k': 'this'}).get('k') == 'this':
                    sites.append((e, 'assignment to _type'))
        if not sites:
            continue
        try:
            g = cfgm.CFG(f)
        except Exception as ex:
            ctx.undecided('C04.release', f['pq'], f['n'] + ':representation overwritten only after release', fwhere(f), 'CFG not built: %s' % ex)
            continue

        def releases(node):
            for x in walk_expr(node.e or {}):
                if x.get('k') == 'call' and (x.get('pq') or '') in ('asl::Var::free', 'asl::Var::operator=', 'asl::Var::clear'):
                    return True
            return False
        ctx.analysed(f)

        def reachable(h, gh, target, tv, depth=0):
            """target (a site of h) can run while *this holds tag tv: reachable in h from its entry without a release, and - for a
            private helper, which only other members can call - h itself is called in such a state by one of them"""
            def bind(x, tv=tv):
                if x.get('k') == 'mem' and x.get('f') == '_type' and strip_lv(x.get('b') or {'k': 'this'}).get('k') == 'this':
                    return tv
                return None
            ev = bounded.Bound(prog, h, {}, {}, bind=bind)
            ctx.evaluations += 1
            if not bounded.reaches(gh, ev, target, avoid=releases):
                return False
            if h.get('acc') not in ('private', 'protected') or depth >= 2:
                return True
            callers = []
            for g2 in prog.functions:
                if g2.get('clsp') != 'asl::Var' or not g2.get('body') or g2 is h:
                    continue
                for c in fn_exprs(g2):
                    if c.get('k') == 'call' and c.get('pq') == h['pq'] and (c.get('sig') in (None, h.get('sig'))) and (c.get('obj') is None or strip_lv(c['obj']).get('k') == 'this'):
                        callers.append((g2, c))
            if not callers:
                return True
            for g2, c in callers:
                if g2.get('kind') == 'ctor':
                    continue            # a constructor has no previous content
                try:
                    cg = cfgm.CFG(g2)
                except Exception:
                    return True
                if reachable(g2, cg, c, tv, depth + 1):
                    return True
            return False
        for e, what in sites:
            n += 1
            role = '%s%s:%s only after release' % (f['n'], f.get('sig', ''), what)
            bad = None
            for tv, names in sorted(tags.items()):
                if reachable(f, g, e, tv):
                    bad = (tv, names)
                    break
            ctx.check(bad is None, 'C04.release', f['pq'], role, fwhere(f, e.get('l')), 'not reachable with a heap-owning tag unless free() ran first',
                      '%s: the %s at line %s is reachable while the Var still holds a %s (no free() on that path): the string / container it owned is leaked' % (
                          f['q'] + f.get('sig', ''), what, e.get('l'), '/'.join(bad[1]) if bad else ''))
    ctx.floor('C04.release', n, 5)


# ------------------------------------------------------------------ C04.numeq

def check_numeq(ctx, prog):
    """C04.numeq: the numeric comparison overloads operator==(int / double / float) compare numerically.  Each overload is
    interpreted (scansim) with the tag and the active union member bound, for a grid of stored values x argument values:
    the result must be (stored value == argument) in exact arithmetic, and false for every non-numeric tag."""
    import scansim, struct
    en = dict((c['n'], c['v']) for c in prog.enums['asl::Var::Type']['consts'])
    ints = [0, 1, -1, 3, -3, 7, 2 ** 31 - 1, -2 ** 31, 2 ** 24 + 1]
    dbls = [0.0, 0.5, 3.0, 3.5, -0.75, -3.0, 2.5e9, 7.0, 16777217.0, 1e-3]
    f32 = lambda v: struct.unpack('f', struct.pack('f', v))[0]
    n = 0
    # the overloads the Var-to-Var comparison delegates its numeric case to (the property speaks about comparing Vars; an
    # overload that only user code calls with a raw number is outside it)
    vv = [g for g in prog.fn('asl::Var::operator==', '(const asl::Var &)const') if g.get('body')]
    used = set()
    for g in vv:
        for c in fn_exprs(g):
            if c.get('k') == 'call' and c.get('pq') == 'asl::Var::operator==' and c.get('sig') != g.get('sig'):
                used.add(c.get('sig'))
    ctx.info['numeric_overloads_used_by_var_equality'] = sorted(x for x in used if x)
    for f in prog.functions:
        if f.get('pq') != 'asl::Var::operator==' or not f.get('body') or len(f['params']) != 1 or f.get('sig') not in used:
            continue
        pt = T(f, f['params'][0]['t'])
        if pt.get('bool') or not (pt.get('int') or pt.get('flt')) or pt.get('ptr') or pt.get('ref'):
            continue
        n += 1
        ctx.analysed(f)
        role = 'operator==(%s):numeric equality' % pt.get('s')
        if pt.get('int'):
            others = [v for v in ints if -2 ** (pt['bits'] - 1) <= v < 2 ** (pt['bits'] - 1)]
        elif pt.get('s') == 'float':
            others = [f32(v) for v in dbls] + [float(v) for v in ints if f32(float(v)) == float(v)]
        else:
            others = dbls + [float(v) for v in ints]
        bad = und = None
        runs = 0
        for tname, member, vals in (('INT', '_i', ints), ('NUMBER', '_d', dbls + [float(v) for v in ints]), ('FLOAT', '_d', [f32(v) for v in dbls])):
            if tname not in en:
                continue
            for sv in vals:
                for ov in others:
                    r = scansim.Run(prog, f, {}, mems={'_type': en[tname], member: sv}, methods={'*': 'interp'})
                    r.vars[f['params'][0]['id']] = ov
                    runs += 1
                    try:
                        got = r.run()
                    except (scansim.Unsupported, scansim.OOB, TypeError) as u:
                        und = 'tag %s, stored %r, argument %r: %s' % (tname, sv, ov, u)
                        break
                    want = int(sv == ov)
                    if (1 if got else 0) != want:
                        bad = 'a Var holding the %s %r compares %s to the %s %r' % (tname, sv, 'equal' if got else 'unequal', pt.get('s'), ov)
                        break
                if bad or und:
                    break
            if bad or und:
                break
        if not (bad or und):
            for tname in ('NONE', 'NUL', 'BOOL', 'STRING', 'SSTRING', 'ARRAY', 'OBJ'):
                if tname not in en:
                    continue
                r = scansim.Run(prog, f, {}, mems={'_type': en[tname]}, methods={'*': 'interp'})
                r.vars[f['params'][0]['id']] = others[0]
                runs += 1
                try:
                    got = r.run()
                except (scansim.Unsupported, scansim.OOB, TypeError) as u:
                    und = 'tag %s: %s' % (tname, u)
                    break
                if got:
                    bad = 'a Var of type %s compares equal to the number %r' % (tname, others[0])
                    break
        ctx.evaluations += runs
        if und:
            ctx.undecided('C04.numeq', f['pq'], role, fwhere(f), 'outside the interpreted fragment: %s' % und)
        else:
            ctx.check(bad is None, 'C04.numeq', f['pq'], role, fwhere(f), 'interpreted for %d (tag, stored value, argument) combinations: result = exact numeric equality' % runs,
                      'Var::operator==(%s): %s' % (pt.get('s'), bad))
    ctx.floor('C04.numeq', n, 1)


# ------------------------------------------------------------------ C04.streq

def check_streq(ctx, prog):
    """C04.streq: two Vars holding strings compare equal exactly when their characters are equal, whichever representation
    (inline buffer / heap buffer) each side uses.  operator==(const Var&) is interpreted (scansim) with both operands modelled -
    tag, inline buffer, heap buffer object - for every pair of texts of length 0..9 over {a, b} prefixes in all four
    representation combinations (a heap buffer may hold a short text after an in-place reassignment)."""
    import scansim
    fs = [g_ for g_ in prog.fn('asl::Var::operator==', '(const asl::Var &)const') if g_.get('body')]
    if not fs:
        return
    f = fs[0]
    en = dict((c['n'], c['v']) for c in prog.enums['asl::Var::Type']['consts'])
    if 'STRING' not in en or 'SSTRING' not in en:
        return
    ctx.analysed(f)
    role = 'operator==(const Var&):string equality over both representations'
    texts = ['', 'a', 'ab', 'abababa', 'abababb', 'abababab', 'ababababa', 'b']
    inline_cap = 0
    for r_ in prog.records.values():
        if r_['q'].startswith('asl::Var'):
            for fld in r_.get('fields', []):
                if fld['n'] == '_ss':
                    inline_cap = max(inline_cap, T(r_, fld['t']).get('n') or 0)
    if not inline_cap:
        ctx.undecided('C04.streq', f['pq'], role, fwhere(f), 'inline buffer size not found')
        return
    bad = und = None
    runs = 0
    pid = f['params'][0]['id']
    for t1 in texts:
        for t2 in texts:
            for rep1 in ('SSTRING', 'STRING'):
                for rep2 in ('SSTRING', 'STRING'):
                    if (rep1 == 'SSTRING' and len(t1) >= inline_cap) or (rep2 == 'SSTRING' and len(t2) >= inline_cap):
                        continue
                    bufs = {}
                    mems = {'_type': en[rep1]}
                    rec = {'_type': en[rep2]}
                    for side, rep, txt, store in (('L', rep1, t1, mems), ('R', rep2, t2, rec)):
                        chars = [ord(c) for c in txt] + [0]
                        if rep == 'SSTRING':
                            bufs[('SS', side)] = chars + [0x55] * (inline_cap - len(chars))
                            store['_ss'] = ('P', ('SS', side), 0)
                        else:
                            bufs[('O', 'heap' + side)] = chars       # Array<char> with the terminator as its last element
                            store['_s'] = ('P', ('O', 'heap' + side), 0)
                    r = scansim.Run(prog, f, bufs, mems=mems, methods={'*': 'interp'}, objects=True)
                    r.recs['other'] = rec
                    r.vars[pid] = ('R', 'other')
                    r.objlen['heapL'] = len(t1) + 1
                    r.objlen['heapR'] = len(t2) + 1
                    runs += 1
                    try:
                        got = r.run()
                    except (scansim.Unsupported, scansim.OOB, TypeError, KeyError) as u:
                        und = '%s "%s" == %s "%s": %s' % (rep1, t1, rep2, t2, u)
                        break
                    if bool(got) != (t1 == t2):
                        bad = 'a Var holding "%s" (%s) compares %s to a Var holding "%s" (%s)' % (t1, 'inline' if rep1 == 'SSTRING' else 'heap buffer', 'equal' if got else 'unequal', t2, 'inline' if rep2 == 'SSTRING' else 'heap buffer')
                        break
                if bad or und:
                    break
            if bad or und:
                break
        if bad or und:
            break
    ctx.evaluations += runs
    if und:
        ctx.undecided('C04.streq', f['pq'], role, fwhere(f), 'outside the interpreted fragment: %s' % und)
    else:
        ctx.check(bad is None, 'C04.streq', f['pq'], role, fwhere(f), 'interpreted for %d (text, text, representation, representation) combinations' % runs, 'Var::operator==: %s' % bad)


def check_strrep(ctx, prog):
    """C04.strrep: every member of Var that creates or rewrites the string representation leaves it well formed: the tag is
    STRING or SSTRING, the tagged buffer holds exactly the characters of the assigned text followed by the terminating NUL every
    accessor relies on (`toString()`, `length()`, `operator==` read `_s->data()` as a C string of `_s->length() - 1` characters).
    Each writer - constructors from text, `Var(Type)`, `operator=` from text or from another Var, `copy()` - is interpreted
    (scansim) with the heap buffer as an object of uninitialised bytes, for texts on both sides of the inline limit, every
    previous state of the target and both representations of a Var argument."""
    import scansim
    en = dict((c['n'], c['v']) for c in prog.enums['asl::Var::Type']['consts'])
    if 'STRING' not in en or 'SSTRING' not in en:
        raise AnalysisBroken('Var::STRING / Var::SSTRING not found')
    inline_cap = 0
    for r_ in prog.records.values():
        if r_['q'].startswith('asl::Var'):
            for fld in r_.get('fields', []):
                if fld['n'] == '_ss':
                    inline_cap = max(inline_cap, T(r_, fld['t']).get('n') or 0)
    if not inline_cap:
        raise AnalysisBroken('inline buffer of Var not found')
    texts = ['', 'a', 'abc', 'abcdef', 'abcdefg', 'abcdefgh', 'abcdefghi', 'abcdefghijklmnopqrstuvw']
    texts = [t for t in texts] + ['x' * (inline_cap - 1), 'x' * inline_cap]
    writers = []
    for f in prog.functions:
        if f.get('cls') != 'asl::Var' or not f.get('body'):
            continue
        hit = False
        for e in fn_exprs(f):
            if e.get('k') == 'call' and e.get('obj') is not None:
                o = strip_lv(e['obj'])
                while o.get('k') == 'call' and o.get('op') == '->' and o.get('obj') is not None:
                    o = strip_lv(o['obj'])
                if o.get('k') == 'mem' and o.get('f') == '_s' and scansim._on_this(o) and (e.get('pq') or '').split('::')[-1] in ('construct', 'resize'):
                    hit = True
        if hit:
            writers.append(f)
    # members that write it through a helper of Var (operator=(const char*) -> setChars(p, n)) are writers too
    direct = set(id(f) for f in writers)

    def var_callees(g_):
        out = []
        for e in fn_exprs(g_):
            if e.get('k') == 'call' and (e.get('fn') or '').startswith('asl::Var::'):
                out += [h_ for h_ in prog.fn(e.get('fn'), e.get('sig')) if h_.get('body')]
        return out
    changed = True
    via = set(direct)           # function objects by identity: ids are only unique within one translation unit
    while changed:
        changed = False
        for f in prog.functions:
            if f.get('cls') == 'asl::Var' and f.get('body') and id(f) not in via and any(id(h_) in via for h_ in var_callees(f)):
                via.add(id(f))
                changed = True
    for f in prog.functions:
        if f.get('cls') == 'asl::Var' and id(f) in via and id(f) not in direct and len(f['params']) == 1 and (T(f, f['params'][0]['t']).get('s') or '') in ('const char *', 'const asl::String &'):
            writers.append(f)
    n_dec = 0
    helpers, driven = [], []
    for f in writers:
        ctx.analysed(f)
        role = '%s%s:string representation written' % (f['n'], f['sig'])
        kinds = []
        for p_ in f['params']:
            kinds.append(prog_type_text(f, p_['t']))
        is_ctor = f['n'] == 'Var'
        # the previous states of the target (constructors start from raw storage)
        prevs = [None] if is_ctor else [('NONE', ''), ('SSTRING', 'old'), ('STRING', 'previouslyheldtext')]
        if f['n'] == 'copy':
            prevs = ['tagged']          # copy(v) runs after the tag was taken from v
        cases = []
        if len(kinds) == 1 and kinds[0] in ('const char *',):
            cases = [('cstr', t) for t in texts]
        elif len(kinds) == 1 and kinds[0] in ('const asl::String &', 'asl::String'):
            cases = [('string', t) for t in texts]
        elif len(kinds) == 1 and kinds[0] in ('const asl::Var &',):
            cases = [('var', t, rep) for t in texts for rep in ('SSTRING', 'STRING') if not (rep == 'SSTRING' and len(t) >= inline_cap)]
        elif len(kinds) == 1 and kinds[0] in ('asl::Var::Type',):
            cases = [('type', '', rep) for rep in ('SSTRING', 'STRING')]
        else:
            helpers.append((f, role, kinds))
            continue
        driven.append(f)
        bad = und = None
        runs = 0
        skipped = []
        for case in cases:
            for prev in prevs:
                bufs = {('SS', 'L'): [scansim.UNINIT] * inline_cap}
                mems = {'_ss': ('P', ('SS', 'L'), 0)}
                if prev == 'tagged':
                    # copy(v) completes a bitwise copy of v: tag, inline bytes and (shared) heap handle are already v's
                    mems['_type'] = en[case[2]]
                    if case[2] == 'SSTRING':
                        ch_ = [ord(c) for c in case[1]] + [0]
                        bufs[('SS', 'L')] = ch_ + [scansim.UNINIT] * (inline_cap - len(ch_))
                    else:
                        mems['_s'] = ('P', ('O', 'heapR'), 0)
                elif prev is not None:
                    mems['_type'] = en.get(prev[0], 0)
                    chars = [ord(c) for c in prev[1]] + [0]
                    if prev[0] == 'SSTRING':
                        bufs[('SS', 'L')] = chars + [scansim.UNINIT] * (inline_cap - len(chars))
                    elif prev[0] == 'STRING':
                        bufs[('O', 'm:_s')] = chars
                        mems['_s'] = ('P', ('O', 'm:_s'), 0)
                r = scansim.Run(prog, f, bufs, mems=mems, methods={'*': 'interp'}, objects=True)
                if prev is not None and prev != 'tagged' and prev[0] == 'STRING':
                    r.objlen['m:_s'] = len(prev[1]) + 1
                pid = f['params'][0]['id']
                text = case[1]
                chars = [ord(c) for c in text] + [0]
                if case[0] == 'cstr':
                    bufs['T'] = chars
                    r.vars[pid] = ('P', 'T', 0)
                elif case[0] == 'string':
                    bufs[('O', pid)] = chars
                    r.objlen[pid] = len(text)
                    r.strobjs.add(pid)
                elif case[0] == 'type':
                    r.vars[pid] = en[case[2]]
                else:
                    rec = {'_type': en[case[2]]}
                    if case[2] == 'SSTRING':
                        bufs[('SS', 'R')] = chars + [scansim.UNINIT] * (inline_cap - len(chars))
                        rec['_ss'] = ('P', ('SS', 'R'), 0)
                    else:
                        bufs[('O', 'heapR')] = list(chars)
                        rec['_s'] = ('P', ('O', 'heapR'), 0)
                        r.objlen['heapR'] = len(chars)
                    r.recs['other'] = rec
                    r.vars[pid] = ('R', 'other')
                runs += 1
                desc = '%s%s with %s"%s"%s' % (f['n'], f['sig'], (case[2] + ' ') if len(case) > 2 else '', text, '' if prev in (None, 'tagged') else ' assigned to a Var holding %s' % (prev[0] if prev[0] == 'NONE' else '%s "%s"' % prev))
                try:
                    r.run()
                except scansim.OOB as o:
                    if isinstance(o.buf, tuple) and o.buf and o.buf[0] == 'V':
                        # the access left the one-cell box of an address-taken variable (`memcpy(this, &v, sizeof(v))` copies a whole
                        # object through its address): a limit of the object model, not an access outside a string buffer
                        skipped.append('%s: %s' % (desc, o))
                        continue
                    bad = '%s: %s' % (desc, o)
                    break
                except (scansim.Unsupported, TypeError, KeyError, AttributeError) as u:
                    # a combination that runs through code outside the interpreted fragment (a temporary Var, a container
                    # branch) is left out; the writer is decided on the combinations that could be interpreted
                    skipped.append('%s: %s' % (desc, u))
                    continue
                tag = mems.get('_type')
                if tag == en['STRING']:
                    pv = mems.get('_s')
                    got = bufs.get(pv[1]) if isinstance(pv, tuple) and pv[0] == 'P' and pv[2] == 0 else None
                    if got is None:
                        bad = '%s: tagged STRING but no heap buffer was constructed' % desc
                    elif got != chars:
                        bad = '%s: the heap buffer holds %s, not the %d characters and their terminating NUL (accessors read it as a C string of length()-1 characters)' % (desc, show_bytes(got), len(text))
                elif tag == en['SSTRING']:
                    got = bufs[('SS', 'L')][:len(chars)]
                    if len(chars) > inline_cap or got != chars:
                        bad = '%s: the inline buffer holds %s, not the text and its terminating NUL' % (desc, show_bytes(bufs[('SS', 'L')]))
                else:
                    bad = '%s: the target is left with tag %s, not a string' % (desc, tag)
                if bad:
                    break
            if bad or und:
                break
        ctx.evaluations += runs
        done = runs - len(skipped)
        if bad is None and done == 0:
            ctx.undecided('C04.strrep', f['pq'], role, fwhere(f), 'outside the interpreted fragment: %s' % (skipped[0] if skipped else 'no combination'))
        else:
            n_dec += 1
            ctx.check(bad is None, 'C04.strrep', f['pq'], role, fwhere(f), 'interpreted for %d of %d (text, representation, previous state) combinations%s: tag, buffer length, characters and terminator as the accessors expect' % (
                done, runs, (' (the others run through a temporary Var or a container branch, e.g. %s)' % skipped[0][:120]) if skipped else ''), bad or '')
    # a writer that cannot be driven from outside (a helper taking a pointer and a length, say) is interpreted as part of the
    # writers that call it; one that no driven writer reaches stays undecided
    reach = set()
    work = list(driven)
    while work:
        g_ = work.pop()
        if id(g_) in reach:
            continue
        reach.add(id(g_))
        for e in fn_exprs(g_):
            if e.get('k') == 'call' and (e.get('cls') == 'asl::Var' or (e.get('fn') or '').startswith('asl::Var::')):
                for h_ in prog.fn(e.get('fn'), e.get('sig')):
                    if h_.get('body') and id(h_) not in reach:
                        work.append(h_)
    for f, role, kinds in helpers:
        if id(f) in reach:
            ctx.ok('C04.strrep', f['pq'], role, fwhere(f), 'helper with parameters (%s): interpreted as part of the writers that call it' % ', '.join(kinds))
        else:
            ctx.undecided('C04.strrep', f['pq'], role, fwhere(f), 'writer with parameters (%s) is not driven and no driven writer calls it' % ', '.join(kinds))
    ctx.floor('C04.strrep writers of the string representation', len(driven), 4)


def show_bytes(b):
    out = []
    for x in b[:12]:
        out.append('?' if not isinstance(x, int) else ('\\0' if x == 0 else chr(x & 255) if 32 <= (x & 255) < 127 else '\\x%02x' % (x & 255)))
    return '[%s%s] (%d bytes)' % (''.join(out), '...' if len(b) > 12 else '', len(b))


def prog_type_text(f, t):
    return T(f, t).get('s') or ''


def check_container_handles(ctx, prog):
    """C04.handles: a Var's array / dictionary is reached through a shared handle, so only the copy operations may give a Var a
    handle on another Var's container, and a Var that is assigned a foreign container builds a fresh one.
      (a) who may share: `_a.construct(*v._a)` / `_o.construct(*v._o)` - a handle copy of another Var's container - occurs only in
          copy() and operator=(const Var&), the operations whose documented meaning is sharing (everything else - extend(), the
          typed constructors - builds its own container and copies elements, so that later changes stay private);
      (b) assignment from a typed container (`operator=(const Array<T>&)`, `operator=(const Dic<T>&)`): on every path the member
          that is filled was constructed in this call before its first mutation (typestate over the CFG: construct -> fresh;
          resize / append / set / element write while not fresh = the elements of a container that other Vars may share are
          overwritten in place and its storage may move under them)."""
    import cfg as cfgm
    allowed = {('copy', '(const asl::Var &)'), ('operator=', '(const asl::Var &)')}
    n_sites = 0
    for f in prog.functions:
        if f.get('cls') != 'asl::Var' or not f.get('body'):
            continue
        for e in fn_exprs(f):
            if not (e.get('k') == 'call' and e.get('clsp') == 'asl::StaticSpace' and (e.get('pq') or '').endswith('construct') and e.get('a')):
                continue
            fld = strip_lv(e['obj']).get('f')
            if fld not in ('_a', '_o'):
                continue
            src = strip(e['a'][0])
            other = [w for w in walk_expr(src) if w.get('k') == 'mem' and w.get('f') == fld and not scansim_on_this(w)]
            if not other:
                continue
            n_sites += 1
            ctx.analysed(f)
            role = '%s%s:handle on another Var\'s container only in the copy operations' % (f['n'], f['sig'])
            ctx.check((f['n'], f['sig']) in allowed, 'C04.handles', f['pq'], role, fwhere(f, e.get('l')), '`%s` in a copy operation' % pe(e)[:60],
                      '%s%s takes a handle on the argument\'s container (`%s`) instead of building its own: both Vars then share one storage - a later insertion through either changes the other and, when the storage grows, leaves the other dangling' % (f['n'], f['sig'], pe(e)[:60]))
    ctx.floor('C04.handles container handle copies', n_sites, 2)
    n = 0
    MUT = ('resize', 'reserve', 'set', 'append', 'insert', 'remove', 'clear', 'operator<<', 'operator[]')
    for f in prog.functions:
        if f.get('cls') != 'asl::Var' or not f.get('body') or f['n'] != 'operator=' or len(f['params']) != 1:
            continue
        pt = T(f, f['params'][0]['t'])
        to = T(f, pt.get('to')) if pt.get('ref') else {}
        if to.get('recp') not in ('asl::Array', 'asl::Dic', 'asl::Map') or (to.get('rec') or '') in ('asl::Array<asl::Var>', 'asl::Dic<asl::Var>'):
            continue
        n += 1
        ctx.analysed(f)
        g = cfgm.CFG(f)
        stale = []

        def member_of(e):
            o = strip_lv(e.get('obj') or {})
            while o.get('k') == 'call' and o.get('op') in ('->', '*') and o.get('obj') is not None:
                o = strip_lv(o['obj'])
            while o.get('k') in ('un', 'paren', 'cast') and o.get('e') is not None:
                o = strip_lv(o['e'])
                while o.get('k') == 'call' and o.get('op') in ('->', '*') and o.get('obj') is not None:
                    o = strip_lv(o['obj'])
            return o.get('f') if o.get('k') == 'mem' and scansim_on_this(o) else None

        def step(nd, st):
            if nd.kind != 'ev' or nd.e is None or nd.e.get('k') != 'call':
                return st
            e = nd.e
            fld = member_of(e)
            if fld not in ('_a', '_o'):
                return st
            nm = (e.get('pq') or '').split('::')[-1]
            if e.get('clsp') == 'asl::StaticSpace' and nm == 'construct':
                return st | frozenset([fld])
            if e.get('clsp') == 'asl::StaticSpace':
                return st
            if (nm in MUT or e.get('op') in ('[]', '<<')) and 'const' not in (e.get('sig') or '').split(')')[-1] and fld not in st:
                stale.append((e.get('l', 0), pe(e)[:50]))
            return st
        reached, _ = cfgm.dataflow(g, frozenset(), step)
        ctx.evaluations += sum(len(x) for x in reached.values())
        role = 'operator=%s:the container that is filled was built in this call' % f['sig']
        ctx.check(not stale, 'C04.handles', f['pq'], role, fwhere(f, stale[0][0] if stale else None), 'every mutation of the member follows its construct() on every path',
                  'operator=%s can reach `%s` without having constructed a fresh container in this call: the elements of a container that other Vars may share are overwritten in place (they change too) and a longer array moves the storage under them' % (f['sig'], stale[0][1] if stale else ''))
    ctx.floor('C04.handles typed container assignments', n, 2)


def scansim_on_this(m):
    import scansim
    return scansim._on_this(m)


def check_numeq_model(ctx, prog):
    """C04.numeq (model): two Vars holding numbers compare equal exactly when the numbers are equal, whichever numeric
    representation (INT, NUMBER, FLOAT) either side uses, and in both directions.  operator==(const Var&) is interpreted
    (scansim) with both operands modelled - tag plus the union member of that tag - for all pairs over the values 0, 2, -7, 2.5,
    4.0 in every representation that can hold them; the conversion and the scalar comparison it delegates to are interpreted on
    the operands they are called on."""
    import scansim
    fs = [g_ for g_ in prog.fn('asl::Var::operator==', '(const asl::Var &)const') if g_.get('body')]
    if not fs:
        return
    f = fs[0]
    en = dict((c['n'], c['v']) for c in prog.enums['asl::Var::Type']['consts'])
    if not all(k in en for k in ('INT', 'NUMBER', 'FLOAT')):
        return
    ctx.analysed(f)
    role = 'operator==(const Var&):numeric equality over all representations'
    vals = [0, 2, -7, 2.5, 4.0, 4]
    reps = []
    for v in vals:
        if isinstance(v, int):
            reps.append(('INT', {'_i': v}, v))
        reps.append(('NUMBER', {'_d': float(v)}, v))
        reps.append(('FLOAT', {'_d': float(v)}, v))
    bad = und = None
    runs = 0
    pid = f['params'][0]['id']
    for t1, m1, v1 in reps:
        for t2, m2, v2 in reps:
            mems = dict(m1)
            mems['_type'] = en[t1]
            rec = dict(m2)
            rec['_type'] = en[t2]
            r = scansim.Run(prog, f, {}, mems=mems, methods={'*': 'interp'}, objects=True)
            r.recs['other'] = rec
            r.vars[pid] = ('R', 'other')
            runs += 1
            try:
                got = r.run()
            except (scansim.Unsupported, scansim.OOB, TypeError, KeyError) as u:
                und = '%s %s == %s %s: %s' % (t1, v1, t2, v2, u)
                break
            if bool(got) != (float(v1) == float(v2)):
                bad = 'a Var holding %s as %s compares %s to a Var holding %s as %s%s' % (v1, t1, 'equal' if got else 'unequal', v2, t2, ' (the comparison in the other direction is decided separately: equality is not symmetric)' if float(v1) == float(v2) else '')
                break
        if bad or und:
            break
    ctx.evaluations += runs
    if und:
        ctx.undecided('C04.numeq', f['pq'], role, fwhere(f), 'outside the interpreted fragment: %s' % und)
    else:
        ctx.check(bad is None, 'C04.numeq', f['pq'], role, fwhere(f), 'interpreted for %d (value, representation) pairs' % runs, 'Var::operator==: %s' % bad)



def check_ranges(ctx, prog):
    """C04.range: a Var member that removes a range (i, n) from its array forwards it to Array::remove only when the guards
    on the way establish 0 <= i, n > 0 and i + n <= length().  Array::remove itself does not check: a negative start
    (the -1 a failed search returns) destroys and shifts memory in front of the first element, over the array header.
    Decided by evaluating the guards of the call site on a grid of (i, n, length)."""
    import bounded, bytesets
    n = 0
    for f in prog.functions:
        if f.get('cls') != 'asl::Var' or not f.get('body'):
            continue
        for e in fn_exprs(f):
            if not (e.get('k') == 'call' and (e.get('pq') or '') == 'asl::Array::remove' and len(e.get('a') or []) == 2 and e.get('obj') is not None):
                continue
            o = strip_lv(e['obj'])
            while (o.get('k') in ('un', 'paren', 'cast') and o.get('e')) or (o.get('k') == 'call' and o.get('obj') is not None and (o.get('fn') or '').split('::')[-1] in ('operator->', 'operator*')):
                o = strip_lv(o['e'] if o.get('k') != 'call' else o['obj'])
            if not (o.get('k') == 'mem' and o.get('f') == '_a'):
                continue
            if not all(strip_lv(a).get('k') == 'var' and strip_lv(a).get('vk') == 'param' for a in e['a']):
                continue
            n += 1
            ctx.analysed(f)
            role = '%s%s:range forwarded to Array::remove is inside the array' % (f['n'], f.get('sig') or '')
            g = q.Guarded(f)
            try:
                by_id, by_text = {}, {}
                guards = []
                arg_ids = set(strip_lv(a)['id'] for a in e['a'])
                split = []
                for c, pol, kind in g.of(e):
                    if isinstance(c, dict) and kind != 'case' and pol:
                        split += [(ci, True, kind) for ci in conjuncts(c)]
                    else:
                        split.append((c, pol, kind))
                for gd in split:
                    c, pol, kind = gd
                    if isinstance(c, dict) and kind != 'case':
                        bi, bt = bounded.atoms_of(prog, f, c)
                        if not (set(bi) <= arg_ids and all('length' in t for t in bt)):
                            continue            # a guard on something else (the type tag): says nothing about the range
                        by_id.update(bi)
                        by_text.update(bt)
                        guards.append(gd)
                for a in e['a']:
                    by_id[strip_lv(a)['id']] = strip_lv(a).get('n')
            except bytesets.Undecidable as u:
                ctx.undecided('C04.range', f['pq'], role, fwhere(f, e['l']), 'guards not evaluable: %s' % u)
                continue
            lens = [t for t in by_text if 'length' in t]
            others = [t for t in by_text if t not in lens]
            ia, na = strip_lv(e['a'][0])['id'], strip_lv(e['a'][1])['id']
            if len(lens) != 1 or others or set(by_id) != set((ia, na)):
                ctx.undecided('C04.range', f['pq'], role, fwhere(f, e['l']), 'the guards depend on more than the two arguments and the array length (%s)' % sorted(list(by_text) + list(by_id.values())))
                continue
            lt = lens[0]
            st, info = bounded.decide(prog, f, tuple(guards), lambda ev: ev.by_text[lt] < 0 or 0 <= ev.env[ia] and ev.env[na] > 0 and ev.env[ia] + ev.env[na] <= ev.by_text[lt], by_id, by_text, range(-3, 6), G=g)
            ctx.evaluations += 9 ** 3
            if st == 'holds':
                ctx.ok('C04.range', f['pq'], role, fwhere(f, e['l']), 'guards imply 0 <= i, n > 0, i + n <= length() on the grid (%s points reach the call)' % info)
            elif st == 'fails':
                ctx.violation('C04.range', f['pq'], role, fwhere(f, e['l']), 'the guards let %s through to Array::remove(i, n): elements outside [0, length()) are destroyed and moved (a negative start runs over the array header)' % ', '.join('%s = %s' % kv for kv in sorted(info.items())))
            else:
                ctx.undecided('C04.range', f['pq'], role, fwhere(f, e['l']), str(info))
    ctx.floor('C04.range', n, 1)



def check_tostring(ctx, prog):
    """C04.tostring: a number reports its value back through toString().  `Var::toString()` is interpreted (scansim; the result
    String with the room it is constructed / resized with, snprintf writing at most the size it is given and returning the
    untruncated length) for INT, FLOAT and NUMBER Vars holding the extremes and values whose text is long (15 significant digits
    plus sign and exponent): no write or length outside the result, and the text read back as a number is the value (to the
    digits the conversion prints)."""
    import scansim
    fs = [g for g in prog.fn('asl::Var::toString') if g.get('body')]
    if not fs:
        return
    f = fs[0]
    ctx.analysed(f)
    role = 'toString:numbers are formatted inside the result and read back as the value'
    cases = []
    for tname, vals in (('INT', (0, 7, -1, 2147483647, -2147483648)),
                        ('FLOAT', (0.5, -3.25, 16777216.0, 1.17549435e-38, -3.40282347e+38, 0.1)),
                        ('NUMBER', (0.5, -0.0, 3.14159265358979, 1.0 / 3, -1.23456789012345e-100, 1.7976931348623157e+308, -2.2250738585072014e-308, 123456789012345.0, -98765432109876.5))):
        tv = q.enum_value(prog, 'asl::Var::Type', tname)
        if tv is None:
            continue
        for v in vals:
            cases.append((tname, tv, v))
    bad = und = None
    runs = 0
    for tname, tv, v in cases:
        bufs = {}
        mems = {'_type': tv, '_i': v if tname == 'INT' else 0, '_d': float(v) if tname != 'INT' else 0.0}
        r = scansim.Run(prog, f, bufs, mems=mems, methods={'*': 'interp'}, objects=True)
        runs += 1
        try:
            ret = r.run()
        except scansim.OOB as o:
            bad = 'Var(%r) of type %s: %s (the text does not fit the room the result String has: its length field then exceeds the buffer)' % (v, tname, o)
            break
        except (scansim.Unsupported, TypeError, KeyError, IndexError, ValueError) as u:
            und = 'Var(%r) of type %s: %s' % (v, tname, u)
            break
        if not (isinstance(ret, tuple) and ret[0] == 'P' and ret[1] in bufs):
            und = 'result of toString() is not the local string'
            break
        out = bufs[ret[1]]
        text = ''.join(chr(x & 255) for x in out[:out.index(0)]) if 0 in out else None
        try:
            back = float(text)
        except (TypeError, ValueError):
            bad = 'Var(%r) of type %s gives the text %r, which is not a number' % (v, tname, text)
            break
        want = float(v) if tname == 'INT' else float('%.7g' % v) if tname == 'FLOAT' else float('%.15g' % v)
        if back != want:
            bad = 'Var(%r) of type %s gives the text %r, which reads back as %r' % (v, tname, text, back)
            break
    ctx.evaluations += runs
    if und and not bad:
        ctx.undecided('C04.tostring', f['pq'], role, fwhere(f), 'outside the interpreted fragment: %s' % und)
    else:
        ctx.check(bad is None, 'C04.tostring', f['pq'], role, fwhere(f), 'interpreted for %d numeric Vars (extremes, long mantissas, exponents)' % runs, bad or '')
