"""C12 - shared handles and atomic counters: the protocol shape that makes every interleaving safe.

 R-RC.a  AtomicCount ++/-- are the atomic read-modify-write builtins and return their result; the raw count is private
 R-RC.b  every destruction of a shared object is control-dependent on the value RETURNED by the decrement being zero
 R-RC.c  copy constructors take exactly one reference, destructors drop exactly one, assignments one each, on every path
 R-RC.d  assignments acquire before they release (or an identity guard separates the objects)
 R-RC.e  a freshly allocated shared object ends its constructor with count 1
 R-RC.f  a member that replaces the storage of a shared object is dominated by a uniqueness test
 R-LOCK  every member of Atomic<T> that touches the value holds a Lock on the object's mutex around every such access
 (thorough) LLVM-IR cross-check: atomicInc/atomicDec lower to seq_cst atomicrmw and AtomicCount ++/-- contain no plain store

With (a)-(e) every interleaving of threads working on their own handles keeps count = number of live handles, so exactly
one thread observes zero and destroys; the rules decide that the code has this shape, not the interleavings themselves."""
import os, subprocess, tempfile, shutil, re
import ir, q, rc
from ir import strip, strip_lv, const_val, T, pe, walk_expr, fn_exprs, AnalysisBroken
from core import fwhere

DRIVERS = ['inst_handles.cpp', 'inst_containers.cpp']


def run(ctx):
    units = [os.path.join(ir.VERIF, 'drivers', d) for d in DRIVERS + (['inst_containers_thorough.cpp'] if ctx.tier == 'thorough' else [])]
    lib = ir.library_units() if ctx.tier == 'thorough' else []
    fixture = os.path.join(ir.VERIF, 'fixtures', 'rc_bad.cpp')
    prog = ir.load_units(units + lib, force_inst=units)
    ctx.use_program(prog)

    n = rc.check_primitive(ctx, prog)
    ctx.floor('R-RC.a', n, 5)
    total = 0
    for fam in ('Array', 'HashMap', 'Shared', 'SmartObject'):
        k = rc.check_family(ctx, prog, fam)
        ctx.info.setdefault('special_members', {})[fam] = k
        total += k
        rc.check_core_copies(ctx, prog, fam)
    ctx.floor('R-RC.b-e special members', total, 40)
    nrel = 0
    for fam in ('Array', 'HashMap'):
        nrel += rc.check_relocation(ctx, prog, fam)
    ctx.floor('R-RC.f relocating members', nrel, 3)

    rc.check_discarded_decrement(ctx, prog, ('asl::Array', 'asl::HashMap', 'asl::Map', 'asl::Shared', 'asl::SharedCore', 'asl::SmartObject', 'asl::SmartObject_', 'asl::Stack', 'asl::Queue', 'asl::Set', 'asl::Dic'))

    check_atomic_lock(ctx, prog)

    # positive control: a deliberately broken handle class must be flagged by b, c, d and e
    fprog = ir.load_units([fixture], force_inst=[fixture])
    fctx = type(ctx)(ctx.prop, ctx.tier, ctx.seed)
    rc.FAMILIES['Fixture'] = {'handle': 'fixture::BadHandle', 'family': ['fixture::BadHandle', 'fixture::Core'], 'storage': '_p', 'relocators_exempt': None}
    rc.check_family(fctx, fprog, 'Fixture')
    fired = set(o.rule for o in fctx.obligations if o.status == 'violation')
    for r in ('R-RC.b', 'R-RC.c', 'R-RC.d', 'R-RC.e'):
        ctx.control('fixtures/rc_bad.cpp:' + r, r in fired)
    del rc.FAMILIES['Fixture']

    if ctx.tier == 'thorough':
        ir_crosscheck(ctx)
    return __doc__.split('\n\n', 1)[1]


def check_atomic_lock(ctx, prog):
    """R-LOCK on every instantiated member of Atomic<T> that references _x."""
    members = [f for f in prog.functions if f.get('clsp') == 'asl::Atomic' and not f.get('implicit')]
    n = 0
    RMW = ('operator+=', 'operator-=', 'operator*=', 'operator/=', 'operator%=', 'operator|=', 'operator&=', 'operator^=', 'operator<<=', 'operator>>=', 'operator++', 'operator--')
    for f in members:
        if f.get('kind') in ('ctor', 'dtor') or not f.get('body'):
            continue            # not (or no longer) shared
        acc = lock_regions(f)
        inst = f['q'] + f['sig']
        if not acc and f.get('n') in RMW:
            # composed of other (separately locked) members: the read and the write-back are two critical sections
            ctx.analysed(f)
            ctx.violation('R-LOCK', f['pq'], f['n'] + f['sig'] + ':read-modify-write in one critical section', fwhere(f),
                          '%s does not update the value directly under one Lock but through other members (each locking on its own): an update by another thread between the read and the write-back is lost (instantiation %s)' % (f['pq'], f['q']))
            continue
        if not acc:
            continue
        if f.get('n') == 'operator*' and not any(e.get('k') == 'call' and (e.get('pq') or '').endswith('Atomic::locked') for e in fn_exprs(f)):
            ctx.ok('R-LOCK', f['pq'], 'operator*' + f['sig'] + ':documented unsynchronised access', fwhere(f), 'documented exception: returns a reference, caller locks', nontrivial=False)
            continue
        if f.get('n') == 'locked':
            continue            # hands out the guard itself
        n += 1
        ctx.analysed(f)
        ctx.evaluations += len(acc)
        unlocked = [l for l, r in acc if r is None]
        regions = set(r for l, r in acc if r is not None)
        if unlocked:
            ctx.violation('R-LOCK', f['pq'], f['n'] + f['sig'] + ':lock scope', fwhere(f, unlocked[0]),
                          '%s reads/writes the value at line %d while no guard on the mutex of the object is alive (a guard declared later, in an inner block, or a temporary guard that ended with an earlier full expression): concurrent updates are lost (instantiation %s)' % (f['pq'], unlocked[0], f['q']))
        elif f.get('n') in RMW and len(regions) > 1:
            ctx.violation('R-LOCK', f['pq'], f['n'] + f['sig'] + ':read-modify-write in one critical section', fwhere(f),
                          '%s reads and writes the value under %d separate lock acquisitions: an update by another thread in between is lost (instantiation %s)' % (f['pq'], len(regions), f['q']))
        else:
            ctx.ok('R-LOCK', f['pq'], f['n'] + f['sig'] + ':lock scope', fwhere(f), 'every access to the value lies in the lifetime of one guard on the mutex (%d access(es))' % len(acc))
    ctx.floor('R-LOCK Atomic members', n, 40)
    # the mutex the guards lock exists before any thread can use the object: a member of type Mutex (constructed with the object),
    # not something created on first use by an unsynchronised conversion - two first users would lock two different mutexes
    recs = [r for r in prog.records if r.startswith('asl::Atomic<')]
    lazy = None
    for rq in recs:
        for fl in prog.records[rq].get('fields', []):
            ft = T(prog.records[rq], fl['t'])
            if 'utex' in fl['n'] and ft.get('rec') and ft.get('rec') != 'asl::Mutex' and not ft.get('ref') and not ft.get('ptr'):
                for g in prog.functions:
                    if g.get('cls') == ft['rec'] and g.get('body') and (g.get('n') or '').startswith('operator') and 'Mutex' in (g.get('n') or ''):
                        if any(w.get('k') == 'new' or (w.get('k') == 'bin' and w.get('op') == '=' and strip_lv(w['x']).get('k') == 'mem') for w in fn_exprs(g)):
                            lazy = lazy or (rq, fl['n'], ft['rec'], g)
    ctx.check(lazy is None, 'R-LOCK', 'asl::Atomic', 'mutex:constructed with the object', fwhere(lazy[3]) if lazy else '', 'the guards lock a Mutex member that exists from construction',
              'the mutex of %s is a `%s` (member `%s`) whose conversion to Mutex& creates or assigns the mutex on first use, outside any lock: two threads making the first access lock two different mutexes and their updates are lost' % (
                  lazy[0] if lazy else '', lazy[2] if lazy else '', lazy[1] if lazy else ''))
    # Lock and Locked pair lock()/unlock()
    for cls, field in (('asl::Lock', '_m'), ('asl::Locked', 'x')):
        ctors = [f for f in prog.functions if f.get('clsp') == cls and f.get('kind') == 'ctor' and not f.get('implicit') and not f.get('copyctor')]
        dtors = [f for f in prog.functions if f.get('clsp') == cls and f.get('kind') == 'dtor' and not f.get('implicit')]
        if not ctors or not dtors:
            raise AnalysisBroken('%s constructor/destructor not found' % cls)
        for f in ctors:
            calls = [e.get('pq') for e in fn_exprs(f) if e.get('k') == 'call']
            ctx.check(calls.count('asl::Mutex::lock') == 1 and 'asl::Mutex::unlock' not in calls, 'R-LOCK', f['pq'], 'ctor' + f['sig'] + ':locks once', fwhere(f),
                      'constructor locks the mutex exactly once', '%s constructor does not lock the mutex exactly once' % cls)
        for f in dtors:
            calls = [e.get('pq') for e in fn_exprs(f) if e.get('k') == 'call']
            ctx.check(calls.count('asl::Mutex::unlock') == 1 and 'asl::Mutex::lock' not in calls, 'R-LOCK', f['pq'], 'dtor:unlocks once', fwhere(f),
                      'destructor unlocks exactly once', '%s destructor does not unlock the mutex exactly once' % cls)


def lock_regions(f):
    """Where a member of Atomic<T> touches the protected value and which lock covers it.  A *named* guard - a local of type
    Lock constructed from the object's mutex, or Locked<T> constructed from the object - holds the mutex from its declaration
    to the end of its block; a *temporary* guard (the result of locked(), a Lock / Locked temporary) holds it to the end of the
    full expression.  The value is touched through `_x`, through `*guard` / `*locked()`, and through a reference local bound
    to one of these.  -> (accesses: [(line, region id or None)], notes); region None = no lock held at that access."""
    GUARDS = ('asl::Lock', 'asl::Locked')
    accesses = []
    aliases = {}        # reference local -> True: refers to the protected value

    def gtype(t):
        tt = T(f, t)
        return tt.get('recp') in GUARDS or (tt.get('rec') or '').split('<')[0] in GUARDS

    def is_guard_var(e):
        e = strip_lv(e)
        return e.get('k') == 'var' and gtype(e.get('dt') or e.get('t'))

    def temp_guard(e):
        # a guard object created inside this full expression
        for x in walk_expr(e):
            if x.get('k') == 'call' and (x.get('pq') or '').endswith('Atomic::locked'):
                return True
            if x.get('k') in ('construct', 'temp') and gtype(x.get('t')) and x.get('k') == 'construct':
                return True
        return False

    def touches(e):
        for x in walk_expr(e):
            if x.get('k') == 'mem' and x.get('f') == '_x' and strip_lv(x.get('b') or {'k': 'this'}).get('k') == 'this':
                yield x
            elif x.get('k') == 'call' and x.get('op') == '*' and x.get('obj') is not None and (is_guard_var(x['obj']) or temp_guard(x['obj'])):
                yield x
            elif x.get('k') == 'call' and (x.get('pq') or '').endswith('::operator*') and x.get('obj') is not None and (is_guard_var(x['obj']) or temp_guard(x['obj'])):
                yield x
            elif x.get('k') == 'var' and x.get('id') in aliases:
                yield x

    def full_expr(e, named, stmt_id):
        region = named if named is not None else (('tmp', stmt_id) if temp_guard(e) else None)
        for x in touches(e):
            accesses.append((x.get('l', 0), region))

    def visit(s, named):
        if not isinstance(s, dict):
            return named
        k = s.get('k')
        if k == 'block':
            cur = named
            for x in s['s']:
                cur = visit(x, cur)
            return named
        if k == 'decl':
            cur = named
            for v in s['vars']:
                ini = v.get('init')
                if gtype(v['t']):
                    if ini is not None and any(m.get('k') == 'mem' and m.get('f') == '_mutex' for m in walk_expr(ini)) or (ini is not None and any(m.get('k') == 'this' for m in walk_expr(ini))):
                        cur = ('named', v['id'])
                    continue
                if ini is not None:
                    full_expr(ini, cur, id(s))
                    if T(f, v['t']).get('ref') and any(True for _ in touches(ini)):
                        aliases[v['id']] = True
            return cur
        for e in ir.stmt_own_exprs(s):
            full_expr(e, named, id(e))
        for c in ir.stmt_children(s):
            visit(c, named)
        return named
    visit(f['body'], None)
    return accesses


def lock_encloses(f, refs):
    """Every reference to _x lies after a `Lock v(_mutex)` declaration in the same or an enclosing block."""
    ref_ids = set(id(r) for r in refs)
    state = {'ok': True, 'why': ''}

    def exprs_of(s):
        for e in ir.stmt_own_exprs(s):
            for x in walk_expr(e):
                yield x

    def visit(s, locked):
        if not isinstance(s, dict):
            return locked
        k = s.get('k')
        if k == 'block':
            cur = locked
            for x in s['s']:
                cur = visit(x, cur)
            return locked
        if k == 'decl':
            cur = locked
            for v in s['vars']:
                # references in the initialiser are evaluated before the lock is taken
                if v.get('init') is not None:
                    for x in walk_expr(v['init']):
                        if id(x) in ref_ids and not cur:
                            state['ok'] = False
                            state['why'] = 'reads/writes _x at line %d without holding a Lock on _mutex' % x.get('l', 0)
                if v.get('dtorp') in ('asl::Lock::~Lock',) and v.get('init') is not None and any(
                        m.get('k') == 'mem' and m.get('f') == '_mutex' for m in walk_expr(v['init'])):
                    cur = True
            return cur
        for x in exprs_of(s):
            if id(x) in ref_ids and not locked:
                state['ok'] = False
                state['why'] = 'reads/writes _x at line %d without holding a Lock on _mutex' % x.get('l', 0)
        for c in ir.stmt_children(s):
            visit(c, locked)
        return locked
    visit(f['body'], False)
    return state['ok'], state['why']


def ir_crosscheck(ctx):
    """LLVM-IR counterpart of R-RC.a (thorough tier): compile the handles driver to IR (never run) and inspect the lowering."""
    tmp = tempfile.mkdtemp(prefix='aslir_')
    try:
        src = os.path.join(tmp, 'u.cpp')
        open(src, 'w').write('#include <asl/atomic.h>\nint inc(asl::AtomicCount& c){return ++c;}\nint dec(asl::AtomicCount& c){return --c;}\n')
        out = os.path.join(tmp, 'u.ll')
        p = subprocess.run(['clang++', '-std=c++11', '-DASL_STATIC', '-I' + os.path.join(ir.REPO, 'include'), '-O0', '-S', '-emit-llvm', src, '-o', out, '-w'],
                           stdout=subprocess.PIPE, stderr=subprocess.PIPE, universal_newlines=True)
        if p.returncode != 0:
            raise AnalysisBroken('IR cross-check unit does not compile: ' + p.stderr[-500:])
        txt = open(out).read()
        funcs = dict((m.group(1), m.group(2)) for m in re.finditer(r'define[^@]*@(\S+?)\((?:.|\n)*?\{\n((?:.|\n)*?)\n\}', txt))
        for prim, op in (('_Z9atomicIncPVi', 'add'), ('_Z9atomicDecPVi', 'sub')):
            body = funcs.get(prim)
            if body is None:
                raise AnalysisBroken('IR cross-check: %s not emitted' % prim)
            has = re.search(r'atomicrmw\s+(?:volatile\s+)?%s\s.*seq_cst' % op, body) is not None
            plain = re.search(r'store (?:volatile )?i32 [^,]+, i32\* %[0-9]+', body)
            ctx.check(has, 'R-RC.a.ir', prim, 'atomicrmw %s seq_cst' % op, '/repo/include/asl/atomic.h:0', 'lowers to atomicrmw %s seq_cst' % op,
                      '%s does not lower to a seq_cst atomicrmw %s' % (prim, op))
        for name, body in funcs.items():
            if 'AtomicCount' in name and ('ppEv' in name or 'mmEv' in name):
                stores_n = [l for l in body.split('\n') if re.search(r'store (volatile )?i32', l)]
                ctx.check(not stores_n, 'R-RC.a.ir', name, 'no plain store to the count', '/repo/include/asl/atomic.h:0', 'operator contains no plain i32 store',
                          'AtomicCount operator contains a plain store to an i32: %s' % stores_n)
    finally:
        shutil.rmtree(tmp, ignore_errors=True)
