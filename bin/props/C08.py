"""C08 - UTF-8/16/32 conversions and case mapping: structural clauses decided statically.

 R-SCAN       every converter / counter that walks a NUL-terminated buffer tests each byte it has consumed against NUL before it
              consumes the next one (cursor never steps over the terminator); the code-point enumerator never reports a length
              that exceeds 1 + the number of following bytes it has tested non-zero
 C08.layout   bit-provenance evaluation of every encoder branch and decoder branch: branch thresholds / lead patterns and the
              position of every payload bit equal the RFC 3629 table (hence encoders and decoders agree); surrogate constants agree
 C08.outbuf   every fixed-size local buffer handed to an encoder holds the maximal output for the unit count passed plus the NUL;
              heap destinations are sized 4 bytes per code
 C08.case     case tables: size covers the largest index the guards admit, ASCII rows are the C-locale mapping in one byte, no row is
              longer than the UTF-8 form of its index (mapping never grows), the cut-over row is the identity, and case-insensitive
              comparison never short-cuts on byte lengths
 Exhaustive losslessness over all scalar values is not re-proved (it follows from C08.layout for well-formed input)."""
import os
import ir, q, cfg as cfgm, bits
from ir import strip, strip_lv, const_val, T, pe, walk_expr, fn_exprs, AnalysisBroken
from core import fwhere


def run(ctx):
    units = [os.path.join(ir.REPO, 'src', 'String.cpp'), os.path.join(ir.REPO, 'src', 'unicodedata.cpp')]
    extra = [os.path.join(ir.REPO, 'src', x) for x in ('Xml.cpp', 'Xdl.cpp')]
    if ctx.tier == 'thorough':
        extra = [u for u in ir.library_units() if u not in units]
    prog = ir.load_units(units + extra)
    ctx.use_program(prog)
    check_scan(ctx, prog)
    check_term(ctx, prog)
    check_layout(ctx, prog)
    check_outbuf(ctx, prog)
    check_case(ctx, prog)
    check_count(ctx, prog)
    check_nocase(ctx, prog)
    check_case_bytes(ctx, prog)
    return __doc__.split('\n\n', 1)[1]


def fn1(prog, name, sig=None):
    fs = [f for f in prog.fn(name, sig) if f.get('body')]
    if not fs:
        raise AnalysisBroken('anchor %s not found' % name)
    return fs[0]


# ------------------------------------------------------------------ R-SCAN

def truth_at_zero(c, vid):
    """Value of condition c when variable vid is 0 (None if it depends on anything else)."""
    c = strip(c)
    k = c.get('k')
    if k == 'var':
        return (False if c.get('id') == vid else None)
    if k == 'un' and c.get('op') == '!':
        v = truth_at_zero(c['e'], vid)
        return None if v is None else (not v)
    if k == 'bin':
        op = c['op']
        if op in ('&&', '||'):
            a, b = truth_at_zero(c['x'], vid), truth_at_zero(c['y'], vid)
            if op == '&&':
                if a is False or b is False:
                    return False
                if a is True and b is True:
                    return True
                return None
            if a is True or b is True:
                return True
            if a is False and b is False:
                return False
            return None
        if op in ('==', '!=', '<', '>', '<=', '>='):
            x, y = strip(c['x']), strip(c['y'])
            def val(e):
                if e.get('k') == 'var' and e.get('id') == vid:
                    return 0
                return const_val(e)
            a, b = val(x), val(y)
            if a is None or b is None:
                return None
            return {'==': a == b, '!=': a != b, '<': a < b, '>': a > b, '<=': a <= b, '>=': a >= b}[op]
    return None


def cursor_advance(e, cur_id):
    """e consumes one element through the cursor:  *u++  (returns True) ; ++u / u++ alone / u += k also advance."""
    if e.get('k') == 'un' and e.get('op') in ('post++', 'pre++') and strip_lv(e['e']).get('id') == cur_id:
        return True
    if e.get('k') == 'bin' and e.get('op') == '+=' and strip_lv(e['x']).get('id') == cur_id:
        return True
    return False


def check_scan(ctx, prog):
    """R-SCAN by exhaustive interpretation over abstract strings (scansim): every string of byte-class representatives up
    to the longest sequence (+1 in the thorough tier), terminated, is fed to the scanner; reading past the terminator is
    the violation.  The enumerator step must report a length that does not step over the terminator."""
    import scansim
    maxlen = 5 if ctx.tier == 'thorough' else 4
    targets = [('asl::utf8toUtf32', 8), ('asl::utf8toUtf16', 8), ('asl::utf16toUtf8', 32), ('asl::utf32toUtf8', 32), ('asl::String::count', 8)]
    n = 0
    for name, width in targets:
        f = fn1(prog, name)
        ctx.analysed(f)
        n += 1
        role = f['n'] + ':never reads past the terminator'
        ptr_in = [p_ for p_ in f['params'] if T(f, p_['t']).get('ptr') and T(f, T(f, p_['t']).get('to')).get('const')]
        ptr_out = [p_ for p_ in f['params'] if T(f, p_['t']).get('ptr') and not T(f, T(f, p_['t']).get('to')).get('const')]
        ints = [p_ for p_ in f['params'] if T(f, p_['t']).get('int')]
        try:
            reps, nconds = scansim.byte_classes(prog, f, signed=True, width=width)
        except Exception as ex:
            ctx.undecided('R-SCAN', f['pq'], role, fwhere(f), 'byte classes not computable: %s' % ex)
            continue
        if width > 8:
            reps = [r for r in reps if r <= 0x10ffff]
            ml = 2 if len(reps) > 20 else 3
        else:
            ml = maxlen
        bad = None
        und = None
        runs = 0
        for s_ in scansim.strings(reps, ml):
            bufs = {'IN': list(s_) + [0], 'OUT': []}
            r = scansim.Run(prog, f, bufs, ptr_params=dict([(p_['id'], ('P', 'IN', 0)) for p_ in ptr_in[:1]] + [(p_['id'], ('P', 'OUT', 0)) for p_ in ptr_out[:1]]),
                            int_params=dict((p_['id'], 1 << 20) for p_ in ints), call_ptrs={'str': ('P', 'IN', 0)}, growable=('OUT',))
            runs += 1
            try:
                r.run()
            except scansim.OOB as o:
                bad = (s_, o)
                break
            except scansim.Unsupported as u:
                und = (s_, u)
                break
        ctx.evaluations += runs
        if bad:
            ctx.violation('R-SCAN', f['pq'], role, fwhere(f, bad[1].line), '%s: on the input [%s] + terminator the scan performs a %s: a truncated sequence at the end of the buffer makes it read past the terminator' % (
                f['q'], ' '.join('%02x' % (x & (0xff if width == 8 else 0xffffffff)) for x in bad[0]), bad[1]))
        elif und:
            ctx.undecided('R-SCAN', f['pq'], role, fwhere(f), 'outside the interpreted fragment on input [%s]: %s' % (' '.join('%02x' % (x & 0xff) for x in und[0]), und[1]))
        else:
            ctx.ok('R-SCAN', f['pq'], role, fwhere(f), '%d abstract strings (length <= %d over %d element classes from %d conditions): no read past the terminator' % (runs, ml, len(reps), nconds))
    # code-point enumerator: operator* must not report a length that steps over the terminator
    f = fn1(prog, 'asl::String::Enumerator::operator*')
    ctx.analysed(f)
    n += 1
    role = 'operator*:reported length within verified bytes'
    reps, nconds = scansim.byte_classes(prog, f, signed=True)
    bad = und = None
    runs = 0
    for s_ in scansim.strings(reps, 4):
        if not s_:
            continue
        bufs = {'IN': list(s_) + [0]}
        r = scansim.Run(prog, f, bufs, mem_ptrs={'u': ('P', 'IN', 0)}, mems={'n': 0})
        runs += 1
        try:
            r.run()
        except scansim.OOB as o:
            bad = (s_, 'reads past the terminator: %s' % o)
            break
        except scansim.Unsupported as u:
            und = (s_, u)
            break
        nv = r.mems.get('n')
        if not isinstance(nv, int) or nv < 1 or nv > len(s_):
            bad = (s_, 'sets n=%s although only %d byte(s) precede the terminator: operator++ then steps over the terminator' % (nv, len(s_)))
            break
    ctx.evaluations += runs
    if bad:
        ctx.violation('R-SCAN', f['pq'], role, fwhere(f), 'Enumerator::operator* on [%s] + terminator %s' % (' '.join('%02x' % (x & 0xff) for x in bad[0]), bad[1]))
    elif und:
        ctx.undecided('R-SCAN', f['pq'], role, fwhere(f), 'outside the interpreted fragment: %s' % (und[1],))
    else:
        ctx.ok('R-SCAN', f['pq'], role, fwhere(f), '%d abstract strings: 1 <= n <= bytes before the terminator, no read past it' % runs)
    inc = fn1(prog, 'asl::String::Enumerator::operator++')
    # operator++ interpreted: the cursor moves by exactly the length operator* left in n
    ctx.analysed(inc)
    moved = und_ = None
    for nv in (1, 2, 3, 4):
        ri = scansim.Run(prog, inc, {'IN': [0x41] * 8 + [0]}, mem_ptrs={'u': ('P', 'IN', 1)}, mems={'n': nv}, methods={'*': 'interp'})
        ctx.evaluations += 1
        try:
            ri.run()
        except (scansim.Unsupported, scansim.OOB, TypeError, KeyError) as u_:
            und_ = str(u_)
            break
        after = ri.mems.get('u')
        if after != ('P', 'IN', 1 + nv):
            moved = (nv, after)
            break
    if und_:
        ctx.undecided('R-SCAN', inc['pq'], 'operator++:advances by n', fwhere(inc), 'outside the interpreted fragment: %s' % und_)
    else:
        ctx.check(moved is None, 'R-SCAN', inc['pq'], 'operator++:advances by n', fwhere(inc), 'interpreted for n = 1..4: the cursor moves by n',
                  'Enumerator::operator++ does not advance by exactly the length computed by operator* (n = %s: cursor at %s)' % (moved or (0, 0)))
    ctx.floor('R-SCAN', n, 6)


def check_term(ctx, prog):
    """C08.term: the converters read their source up to a terminator or for `n` units.  Whether `n` alone bounds the reads is
    decided per converter by interpretation (scansim) on an unterminated source with n = 0 and n = 1; where it does not
    (the converters test the unit before the count), every call site must pass n >= 1 or a source that is known to be
    terminated (a String, a buffer a converter has just filled, an array that had 0 appended)."""
    import scansim, bounded, bytesets
    convs = {}
    for name in ('asl::utf32toUtf8', 'asl::utf16toUtf8', 'asl::utf8toUtf16', 'asl::utf8toUtf32'):
        f = fn1(prog, name)
        ptr_in = [p_ for p_ in f['params'] if T(f, p_['t']).get('ptr') and T(f, T(f, p_['t']).get('to')).get('const')]
        ptr_out = [p_ for p_ in f['params'] if T(f, p_['t']).get('ptr') and not T(f, T(f, p_['t']).get('to')).get('const')]
        ints = [p_ for p_ in f['params'] if T(f, p_['t']).get('int')]
        safe = {}
        for nval, src in ((0, []), (1, [0x41])):
            r = scansim.Run(prog, f, {'IN': list(src), 'OUT': []}, ptr_params=dict([(ptr_in[0]['id'], ('P', 'IN', 0)), (ptr_out[0]['id'], ('P', 'OUT', 0))]),
                            int_params=dict((p_['id'], nval) for p_ in ints), growable=('OUT',))
            try:
                r.run()
                safe[nval] = True
            except scansim.OOB:
                safe[nval] = False
            except scansim.Unsupported:
                safe[nval] = None
        convs[name] = (f, safe, [p_['id'] for p_ in f['params']].index(ptr_in[0]['id']), [p_['id'] for p_ in f['params']].index(ptr_out[0]['id']), [p_['id'] for p_ in f['params']].index(ints[0]['id']) if ints else None)
        ctx.evaluations += 2
    ctx.info['converter_count_safety'] = dict((k.split('::')[-1], {'n=0': v[1][0], 'n=1': v[1][1]}) for k, v in convs.items())
    n = 0
    for g in prog.functions:
        if not g.get('body'):
            continue
        calls = [e for e in fn_exprs(g) if e.get('k') == 'call' and e.get('fn') in convs and not e.get('clsp')]
        if not calls:
            continue
        G = q.Guarded(g)
        order = dict((id(x), i) for i, x in enumerate(G.order))
        for e in calls:
            f, safe, si, di, ni = convs[e['fn']]
            n += 1
            role = '%s:source of %s is terminated or counted' % (g['n'], e['fn'].split('::')[-1])
            where = fwhere(g, e.get('l'))
            if safe.get(0) and safe.get(1):
                ctx.ok('C08.term', g['pq'], role, where, 'the converter never reads more than n units')
                continue
            src = e['a'][si]
            narg = e['a'][ni] if ni is not None else None
            # (1) constant count >= 1 (the converter stops after n units when n >= 1)
            nv = const_val(narg) if narg is not None else None
            if nv is None and narg is not None:
                try:
                    nv = bytesets.Evaluator(prog, g).ev(narg)
                except bytesets.Undecidable:
                    nv = None
            if safe.get(1) and isinstance(nv, int) and nv >= 1:
                ctx.ok('C08.term', g['pq'], role, where, 'n = %d >= 1' % nv)
                continue
            choices = q.const_choices(g, narg) if narg is not None else None
            if safe.get(1) and choices and min(choices) >= 1:
                ctx.ok('C08.term', g['pq'], role, where, 'n is one of %s, all >= 1' % sorted(choices))
                continue
            sx = strip(q.expand(g, src))
            base = None
            for w in walk_expr(sx):
                if w.get('k') == 'var':
                    base = w
                    break
            # (4) text of a String
            if any(w.get('k') == 'call' and (w.get('clsp') == 'asl::String') for w in walk_expr(sx)) or (base is not None and T(g, base.get('t')).get('rec') == 'asl::String'):
                ctx.ok('C08.term', g['pq'], role, where, 'source is the NUL-terminated text of a String')
                continue
            # (5) a caller-supplied C string (pointer parameter): terminated by the function's own contract
            if base is not None and base.get('vk') == 'param' and T(g, base.get('t')).get('ptr') and sx.get('k') == 'var':
                ctx.ok('C08.term', g['pq'], role, where, 'source is the caller-supplied terminated string')
                continue
            prior = [x for x in fn_exprs(g) if order.get(id(x), 0) < order.get(id(e), 0)]
            # (3) filled by an earlier converter in this function (converters terminate their output)
            filled = base is not None and any(x.get('k') == 'call' and not x.get('clsp') and (x.get('fn') in convs or (x.get('fn') or '').split('::')[-1] in ('local8toUtf16', 'utf16toLocal8')) and
                                              any(w.get('k') == 'var' and w.get('id') == base['id'] for a_ in x.get('a', [])[1:2] for w in walk_expr(q.expand(g, a_))) for x in prior)
            if filled:
                ctx.ok('C08.term', g['pq'], role, where, 'source was filled (and terminated) by a converter just before')
                continue
            # (2) an array that had 0 appended
            appended = base is not None and any(x.get('k') == 'call' and x.get('op') == '<<' and strip(x.get('obj') or {}).get('id') == base['id'] and const_val(x['a'][0]) == 0 for x in prior)
            if appended:
                ctx.ok('C08.term', g['pq'], role, where, 'a terminator was appended to the source array')
                continue
            # otherwise the calling function is interpreted with the converter replaced by a probe that walks its source to the
            # terminator: arrays of 0, 1 and 3 non-zero elements as arguments, the String's own buffer abstracted
            iv = interp_term_site(prog, g, e, si, ni, safe)
            ctx.evaluations += 3
            if iv is not None and iv[0] == 'ok':
                ctx.ok('C08.term', g['pq'], role, where, iv[1])
                continue
            if iv is not None and iv[0] == 'bad':
                ctx.violation('C08.term', g['pq'], role, where, '%s: %s' % (g['q'], iv[1]))
                continue
            # local fixed array whose elements are set explicitly, with a constant count handled above
            is_param_array = base is not None and base.get('vk') == 'param' and T(g, T(g, base.get('t')).get('to') or base.get('t')).get('recp') == 'asl::Array'
            if is_param_array or (base is not None and T(g, base.get('t')).get('recp') == 'asl::Array'):
                ctx.violation('C08.term', g['pq'], role, where, '%s passes `%s` with count `%s` to %s: the converter tests the unit before the count, so for an empty array it reads past the storage (and an array without a trailing 0 is read beyond its %s elements whenever the count is 0)'
                              % (g['q'], pe(src), pe(narg) if narg is not None else '', e['fn'].split('::')[-1], 'n'))
            else:
                ctx.undecided('C08.term', g['pq'], role, where, 'source `%s` with count `%s`: neither terminated nor counted >= 1 in a recognised way' % (pe(src), pe(narg) if narg is not None else ''))
    ctx.floor('C08.term converter call sites', n, 4)


# ------------------------------------------------------------------ C08.layout

def if_chain(s_):
    """[(cond|None, body)] of an if / else-if / else chain"""
    out = []
    while s_ is not None and s_.get('k') == 'if':
        out.append((s_['c'], s_['then']))
        s_ = s_.get('else')
    if s_ is not None:
        out.append((None, s_))
    return out


def find_chain(f, min_len=3):
    best = None
    for s_ in ir.walk_stmts(f['body']):
        if s_.get('k') == 'if':
            ch = if_chain(s_)
            if len(ch) >= min_len and (best is None or len(ch) > len(best)):
                best = ch
    return best


def stores_through(body, ptr_id=None):
    """right-hand sides of  *p++ = EXPR  statements in order"""
    out = []
    for e in ir.stmt_exprs(body):
        if e.get('k') == 'bin' and e.get('op') == '=':
            l = strip_lv(e['x'])
            if l.get('k') == 'un' and l.get('op') == '*':
                out.append(e['y'])
    return out


def expected_utf8(cid, nbytes):
    """RFC 3629: list of 8 abstract bits (LSB first) per emitted byte"""
    lead = {1: [], 2: ['0', '1', '1'], 3: ['0', '1', '1', '1'], 4: ['0', '1', '1', '1', '1']}
    if nbytes == 1:
        return [[(cid, i) for i in range(7)] + ['0']]
    out = []
    payload_bits = {2: 11, 3: 16, 4: 21}[nbytes]
    first_payload = payload_bits - 6 * (nbytes - 1)
    b0 = [(cid, 6 * (nbytes - 1) + i) for i in range(first_payload)] + lead[nbytes]
    out.append(b0)
    for k in range(nbytes - 2, -1, -1):
        out.append([(cid, 6 * k + i) for i in range(6)] + ['0', '1'])
    return out


def check_encoder(ctx, f, var_id, var_name, branches, bound16=False):
    """branches: list of (upper bound exclusive or None, body) in chain order"""
    want_thresholds = [0x80, 0x800, 0x10000]
    for i, (bound, body) in enumerate(branches):
        nbytes = i + 1
        role = '%s:%d-byte branch' % (f['n'], nbytes)
        where = fwhere(f, body.get('l'))
        if i < 3:
            ctx.check(bound == want_thresholds[i], 'C08.layout', f['pq'], role + ' threshold', where, 'codes below 0x%x' % want_thresholds[i],
                      '%s encodes codes below 0x%x (instead of 0x%x) in %d byte(s): not the standard (shortest) UTF-8 form at the boundary' % (f['q'], bound or 0, want_thresholds[i], nbytes))
        env = bits.Env(f)
        kz = {1: 7, 2: 11, 3: 16, 4: 21}[nbytes]
        env.vars[var_id] = bits.var_bits(var_id, 32, known_zero_from=kz)
        got = [bits.low(env.eval(e)) for e in stores_through(body)]
        exp = expected_utf8(var_id, nbytes)
        ctx.evaluations += 8 * len(got)
        names = {var_id: var_name}
        ok = got == exp
        ctx.check(ok, 'C08.layout', f['pq'], role + ' bit layout', where, ' | '.join(bits.show(b, names) for b in got),
                  '%s writes [%s] for a %d-byte code, RFC 3629 requires [%s]' % (f['q'], ' | '.join(bits.show(b, names) for b in got), nbytes, ' | '.join(bits.show(b, names) for b in exp)))


def lt_bound(f, c, var_id):
    """c  ==  var < K   -> K"""
    c = strip(c)
    if c.get('k') == 'bin' and c.get('op') in ('<', '<=') and strip(c['x']).get('id') == var_id and const_val(c['y']) is not None:
        return const_val(c['y']) + (1 if c['op'] == '<=' else 0)
    return None


def loop_var(f):
    """the variable declared in the condition of the main while loop: while (int c = *p++)"""
    for s_ in ir.walk_stmts(f['body']):
        if s_.get('k') == 'while' and s_.get('cv'):
            return s_['cv'], s_
    raise AnalysisBroken('%s: main scanning loop not found' % f['q'])


def expected_decode(ids, nbytes):
    """result bits (LSB first, 32) of the decoded code from lead var ids[0] and continuation vars ids[1:]"""
    out = []
    for k in range(nbytes - 1, 0, -1):
        out += [(ids[k], i) for i in range(6)]
    lead_bits = {2: 5, 3: 4, 4: 3}[nbytes]
    out += [(ids[0], i) for i in range(lead_bits)]
    out += ['0'] * (32 - len(out))
    return out


LEAD_TESTS = {1: (0x80, 0x00), 2: (0xe0, 0xc0), 3: (0xf0, 0xe0), 4: (0xf8, 0xf0)}


def lead_test(c, var_id):
    """(c & M) == P  -> (M, P)"""
    c = strip(c)
    if c.get('k') == 'bin' and c.get('op') == '==':
        a = strip(c['x'])
        if a.get('k') == 'bin' and a.get('op') == '&' and strip(a['x']).get('id') == var_id:
            return const_val(a['y']), const_val(c['y'])
    return None


def check_decoder(ctx, f, lead_id, chain, value_of_branch, strict_last=True):
    for i, (cond, body) in enumerate(chain[:4]):
        nbytes = i + 1
        role = '%s:%d-byte branch' % (f['n'], nbytes)
        where = fwhere(f, body.get('l'))
        lt = lead_test(cond, lead_id) if cond is not None else None
        if cond is None and not strict_last and nbytes == 4:
            pass
        else:
            ctx.check(lt == LEAD_TESTS[nbytes], 'C08.layout', f['pq'], role + ' lead pattern', where, 'lead test (c & 0x%02x) == 0x%02x' % LEAD_TESTS[nbytes],
                      '%s selects the %d-byte branch with %s instead of (c & 0x%02x) == 0x%02x' % (f['q'], nbytes, 'no test' if lt is None else '(c & 0x%x) == 0x%x' % lt, LEAD_TESTS[nbytes][0], LEAD_TESTS[nbytes][1]))
        if nbytes == 1:
            continue
        # continuation variables: locals declared in the branch, in order
        conts = []
        for s_ in ir.walk_stmts(body):
            if s_.get('k') == 'decl':
                for v in s_['vars']:
                    if T(f, v['t']).get('bits') == 8:
                        conts.append(v)
        ids = [lead_id] + [v['id'] for v in conts[:nbytes - 1]]
        names = dict((v['id'], v['n']) for v in conts)
        names[lead_id] = 'c'
        if len(ids) != nbytes:
            ctx.undecided('C08.layout', f['pq'], role + ' bit layout', where, 'continuation bytes not held in %d char locals' % (nbytes - 1))
            continue
        env = bits.Env(f)
        env.vars[lead_id] = bits.var_bits(lead_id, 8, sign_extended=True)
        for v in conts:
            env.vars[v['id']] = bits.var_bits(v['id'], 8, sign_extended=True)
        e = value_of_branch(body)
        if e is None:
            ctx.undecided('C08.layout', f['pq'], role + ' bit layout', where, 'decoded value expression not found')
            continue
        got = env.eval(e)
        exp = expected_decode(ids, nbytes)
        ctx.evaluations += 32
        ctx.check(got == exp, 'C08.layout', f['pq'], role + ' bit layout', where, bits.show(got, names, 21),
                  '%s assembles the code as [%s], RFC 3629 requires [%s]' % (f['q'], bits.show(got, names, 21), bits.show(exp, names, 21)))


def utf8_len_of(c):
    return 1 if c < 0x80 else 2 if c < 0x800 else 3 if c < 0x10000 else 4


def encoder_regions(ctx, prog, f, is16):
    """Encoder decided by regions of the input code.  The stores through the output pointer are collected with their guards;
    for a set of representative codes (every constant of a guard and every RFC 3629 boundary, each with its neighbours) the
    guards are evaluated with the code bound: the number of stores that run must be the UTF-8 length of that code, and
    the bit provenance of each store of that region (the code's bits above the region's maximum known zero) must be the RFC
    layout.  Works for if-chains in any order, switch, early continue, helper functions for the trail bytes."""
    import bounded, bytesets
    G = q.Guarded(f)
    srcp, dstp = f['params'][0], f['params'][1]
    # code variable: declared from *p++ (loop condition variable or first local of the loop body)
    units = []
    for s_ in ir.walk_stmts(f['body']):
        cands = []
        if s_.get('k') in ('while', 'for') and s_.get('cv'):
            cands.append(s_['cv'])
        if s_.get('k') == 'decl':
            cands += s_['vars']
        for v in cands:
            ini = v.get('init')
            if ini is not None and T(f, v['t']).get('int') and any(w.get('k') == 'un' and w.get('op') == 'post++' and strip_lv(w['e']).get('id') == srcp['id'] for w in walk_expr(ini)):
                units.append(v)
    if not units:
        # assigned in the loop condition: while ((c = *p++))
        for e in fn_exprs(f):
            if e.get('k') == 'bin' and e.get('op') == '=' and strip_lv(e['x']).get('k') == 'var' and any(w.get('k') == 'un' and w.get('op') == 'post++' and strip_lv(w['e']).get('id') == srcp['id'] for w in walk_expr(e['y'])):
                units.append({'id': strip_lv(e['x'])['id'], 'n': strip_lv(e['x'])['n'], 't': strip_lv(e['x']).get('t')})
    if not units:
        raise AnalysisBroken('%s: main scanning loop not found' % f['q'])
    cv = units[0]
    # output pointer aliases
    outs_ptr = {dstp['id']}
    for vid, ini in q.single_defs(f).items():
        if strip(ini).get('k') == 'var' and strip(ini).get('id') == dstp['id']:
            outs_ptr.add(vid)
    for s_ in ir.walk_stmts(f['body']):
        if s_.get('k') == 'decl':
            for v in s_['vars']:
                if v.get('init') is not None and strip(v['init']).get('k') == 'var' and strip(v['init']).get('id') == dstp['id'] and T(f, v['t']).get('ptr'):
                    outs_ptr.add(v['id'])
    stores = []
    for e in fn_exprs(f):
        if e.get('k') == 'bin' and e.get('op') == '=':
            l = strip_lv(e['x'])
            if l.get('k') == 'un' and l.get('op') == '*':
                b = strip(l['e'])
                if b.get('k') == 'un' and b.get('op') == 'post++' and strip_lv(b['e']).get('id') in outs_ptr:
                    stores.append((e, 'seq'))
                elif b.get('k') == 'var' and b.get('id') in outs_ptr:
                    stores.append((e, 'end'))
            elif l.get('k') == 'idx' and strip(l['b']).get('id') in outs_ptr and const_val(l['i']) is not None:
                stores.append((e, const_val(l['i'])))
    order = dict((id(x), i) for i, x in enumerate(G.order))
    stores.sort(key=lambda se: order.get(id(se[0]), 0))
    # the terminator store `*u = 0` after the loop is not part of a character
    stores = [(e, k) for e, k in stores if const_val(e['y']) != 0]
    if len(stores) < 10 - (1 if is16 else 0) * 0:
        pass
    # stores inside a loop nested in the scanning loop run a data-dependent number of times: site counting does not apply
    def loop_depth_of(target):
        best = [0]
        def go(st, depth):
            if not isinstance(st, dict):
                return
            if any(x is target for x in ir.stmt_own_exprs(st) for x in walk_expr(x)):
                best[0] = max(best[0], depth)
            d2 = depth + 1 if st.get('k') in ('for', 'while', 'do') else depth
            for key in ('then', 'else', 'sub', 'body', 'init'):
                go(st.get(key), d2 if key == 'body' else depth)
            for c in st.get('s', []) or []:
                go(c, depth)
        go(f['body'], 0)
        return best[0]
    if any(loop_depth_of(e) >= 2 for e, _ in stores):
        ctx.undecided('C08.layout', f['pq'], '%s:branch thresholds' % f['n'], fwhere(f), 'output bytes are stored by a loop nested in the scanning loop (data-dependent count): layout not decided by store sites')
        return (cv, [], units[1:])
    dvars = [v for s_ in ir.walk_stmts(f['body']) if s_.get('k') == 'decl' for v in s_['vars'] if T(f, v['t']).get('bits') == 32 and v.get('init') is not None and
             any(const_val(w) == 0x10000 and w.get('k') == 'int' for w in walk_expr(v['init']))]
    consts = set()
    for e, _ in stores:
        for c, pol, kind in G.of(e):
            if isinstance(c, dict):
                for w in walk_expr(q.expand(f, c, bools_only=True)):
                    if w.get('k') == 'int' and const_val(w) is not None:
                        consts.add(const_val(w))
    reps = set()
    for k in list(consts) + [0x80, 0x800, 0x10000, 0xd800, 0xdc00, 0xe000, 0x110000 if not is16 else 0x10000]:
        reps |= {k - 1, k, k + 1}
    top = 0xffff if is16 else 0x10ffff
    reps = sorted(c for c in reps if 1 <= c <= top)
    seconds = [v for v in units[1:]]
    groups = {}
    role = '%s:branch thresholds' % f['n']
    bad = None
    for c in reps:
        if not is16 and 0xd800 <= c <= 0xdfff:
            continue
        env = {cv['id']: c}
        for v in seconds:
            env[v['id']] = 0xdc00
        ev = bounded.Bound(prog, f, env, {})
        adm = [(e, k) for e, k in stores if bounded.admitted(ev, G.of(e), G)]
        ctx.evaluations += len(stores)
        if is16 and 0xd800 <= c <= 0xdbff:
            want = 4
        elif is16 and 0xdc00 <= c <= 0xdfff:
            want = 0
        else:
            want = utf8_len_of(c)
        if len(adm) != want and bad is None:
            bad = (c, len(adm), want)
        if len(adm) == want and want:
            groups.setdefault(tuple(id(e) for e, _ in adm), (want, c, adm))
    if is16 and seconds:
        # the second unit of a pair: the 4-byte stores run exactly for 0xdc00..0xdfff
        wrong = None
        for c2 in (0xdbff, 0xdc00, 0xdc01, 0xddff, 0xdffe, 0xdfff, 0xe000, 0x41):
            env = {cv['id']: 0xd800}
            for v in seconds:
                env[v['id']] = c2
            ev = bounded.Bound(prog, f, env, {})
            adm = [e for e, k in stores if bounded.admitted(ev, G.of(e), G)]
            ctx.evaluations += 1
            want = 4 if 0xdc00 <= c2 <= 0xdfff else 0
            if len(adm) != want and wrong is None:
                wrong = (c2, len(adm), want)
        ctx.check(wrong is None, 'C08.layout', f['pq'], '%s:second surrogate range' % f['n'], fwhere(f), 'pairs accepted exactly for a second unit in 0xdc00..0xdfff',
                  '%s writes %d byte(s) for the pair (d800, %04x), expected %d: %s' % ((f['q'], wrong[1], wrong[0], wrong[2], 'a valid pair is dropped' if wrong[2] else 'an invalid second unit is accepted') if wrong else (f['q'], 0, 0, 0, '')))
    if bad:
        ctx.violation('C08.layout', f['pq'], role, fwhere(f), '%s writes %d byte(s) for U+%04X, the standard (shortest) UTF-8 form has %d: a branch threshold is off' % (f['q'], bad[1], bad[0], bad[2]))
    else:
        ctx.ok('C08.layout', f['pq'], role, fwhere(f), 'number of stores = UTF-8 length for %d representative codes around every threshold' % len(reps))
    for key, (nbytes, sample, adm) in sorted(groups.items(), key=lambda kv: kv[1][0]):
        role = '%s:%d-byte branch bit layout' % (f['n'], nbytes)
        where = fwhere(f, adm[0][0].get('l'))
        uses_d = [d for d in dvars if any(w.get('k') == 'var' and w.get('id') == d['id'] for e, _ in adm for w in walk_expr(e['y']))]
        if uses_d:
            var, name, kz = uses_d[0]['id'], uses_d[0]['n'], 21
        else:
            var, name, kz = cv['id'], cv['n'], {1: 7, 2: 11, 3: 16, 4: 21}[nbytes]
        env = bits.Env(f, through_locals=True, prog=prog)
        env.vars[var] = bits.var_bits(var, 32, known_zero_from=kz)
        pos = []
        seq = 0
        for e, k in adm:
            if k == 'seq' or k == 'end':
                pos.append(seq)
                seq += 1
            else:
                pos.append(k)
        got = [None] * nbytes
        okpos = sorted(pos) == list(range(nbytes))
        if okpos:
            for (e, k), p_ in zip(adm, pos):
                got[p_] = bits.low(env.eval(e['y']))
        exp = expected_utf8(var, nbytes)
        ctx.evaluations += 8 * nbytes
        names = {var: name}
        if not okpos:
            ctx.undecided('C08.layout', f['pq'], role, where, 'output positions of the %d stores not recognised' % nbytes)
        elif any('X' in g_ for g_ in got) and not any(g_[i] != x and g_[i] != 'X' for g_, ex_ in zip(got, exp) for i, x in enumerate(ex_)):
            ctx.undecided('C08.layout', f['pq'], role, where, 'stored bytes not resolved to bits of the code: %s' % ' | '.join(bits.show(b, names) for b in got))
        else:
            ctx.check(got == exp, 'C08.layout', f['pq'], role, where, ' | '.join(bits.show(b, names) for b in got),
                      '%s writes [%s] for a %d-byte code (e.g. U+%04X), RFC 3629 requires [%s]' % (f['q'], ' | '.join(bits.show(b, names) for b in got), nbytes, sample, ' | '.join(bits.show(b, names) for b in exp)))
    return cv, dvars, seconds


def decoder_regions(ctx, prog, f, is_input, strict_last=True, split16=False):
    """Decoder decided by regions of the lead byte.  For each of the 256 lead values the guards of every value site (store
    through the output pointer / non-constant return) are evaluated with the lead bound and the trail bytes bound to a
    continuation byte; the lead patterns 0xxxxxxx / 110xxxxx / 1110xxxx / 11110xxx must each reach one value site (other
    leads none), and the bit provenance of that site's value must be the RFC 3629 payload layout of lead and trail bytes.
    is_input(expr): expr designates the input pointer."""
    import bounded
    G = q.Guarded(f)
    # lead and trail variables: locals / condition variables initialised by reading the input pointer, in source order
    reads = []
    def reads_input(ini):
        for w in walk_expr(ini):
            if w.get('k') == 'un' and w.get('op') in ('post++', '*') and is_input(strip_lv(w['e'])):
                return True
            if w.get('k') == 'idx' and is_input(strip(w['b'])):
                return True
        return False
    for s_ in ir.walk_stmts(f['body']):
        cands = []
        if s_.get('k') in ('while', 'for') and s_.get('cv'):
            cands.append((s_['cv'], s_))
        if s_.get('k') == 'decl':
            cands += [(v, s_) for v in s_['vars']]
        for v, st in cands:
            if v.get('init') is not None and T(f, v['t']).get('int') and reads_input(v['init']) and strip(v['init']).get('k') != 'cond':
                reads.append((v, st))
    if not reads:
        raise AnalysisBroken('%s: lead byte variable not found' % f['q'])
    lead = reads[0][0]
    trails = reads[1:]
    # value sites
    sites = []
    outp = f['params'][1]['id'] if len(f['params']) > 1 else None
    for e in fn_exprs(f):
        if e.get('k') == 'bin' and e.get('op') == '=' and outp is not None:
            l = strip_lv(e['x'])
            if l.get('k') == 'un' and l.get('op') == '*':
                b = strip(l['e'])
                if b.get('k') == 'un' and b.get('op') == 'post++' and strip_lv(b['e']).get('id') == outp and const_val(e['y']) is None:
                    sites.append((e, e['y']))
    for s_ in ir.walk_stmts(f['body']):
        if s_.get('k') == 'return' and s_.get('e') is not None and const_val(s_['e']) is None and outp is None:
            sites.append((s_['e'], s_['e']))
    if not sites:
        raise AnalysisBroken('%s: no decoded value site found' % f['q'])
    order = dict((id(x), i) for i, x in enumerate(G.order))
    sites.sort(key=lambda se: order.get(id(se[0]), 0))
    idx_texts = set(pe(w) for w in fn_exprs(f) if w.get('k') == 'idx' and is_input(strip(w['b'])) and const_val(w['i']) not in (None, 0))
    groups = {}
    bad = None
    for b in range(256):
        sv = b - 256 if b > 127 else b
        env = {lead['id']: sv}
        for v, _ in trails:
            env[v['id']] = -128
        ev = bounded.Bound(prog, f, env, dict((t, -128) for t in idx_texts))
        adm = [(e, val) for e, val in sites if bounded.admitted(ev, G.of(e), G)]
        ctx.evaluations += len(sites)
        want = 1 if b < 0x80 else 2 if b & 0xe0 == 0xc0 else 3 if b & 0xf0 == 0xe0 else 4 if b & 0xf8 == 0xf0 else 0
        if b == 0:
            continue            # the terminator ends the scan
        if want == 0 and not strict_last and len(adm) == 1:
            continue            # the enumerator treats any other lead as a 4-byte lead (bounded by R-SCAN)
        nsites = 2 if (split16 and want == 4) else (1 if want else 0)
        if len(adm) != nsites and bad is None:
            bad = (b, len(adm), want)
        if want >= 2 and len(adm) == nsites:
            live = [v for v, st in trails if bounded.admitted(ev, G.stmt_guards.get(id(st), ()), G)]
            groups.setdefault(tuple(id(e) for e, _ in adm), (want, b, adm, live))
    role = '%s:lead patterns' % f['n']
    if bad:
        ctx.violation('C08.layout', f['pq'], role, fwhere(f), '%s produces %d value(s) for lead byte 0x%02x, which announces %s' % (
            f['q'], bad[1], bad[0], 'a %d-byte sequence' % bad[2] if bad[2] else 'no valid sequence'))
    else:
        ctx.ok('C08.layout', f['pq'], role, fwhere(f), 'all 256 lead values select the branch of their RFC 3629 pattern')
    for key, (nbytes, sample, adm, live) in sorted(groups.items(), key=lambda kv: kv[1][0]):
        role = '%s:%d-byte branch bit layout' % (f['n'], nbytes)
        where = fwhere(f, adm[0][0].get('l'))
        val = adm[0][1]
        if split16 and nbytes == 4:
            # the code is rebuilt as d + 0x10000: the value is the minuend of the local initialised `X - 0x10000`
            val = None
            for s_ in ir.walk_stmts(f['body']):
                if s_.get('k') == 'decl':
                    for v in s_['vars']:
                        ini = strip(v.get('init') or {})
                        if ini.get('k') == 'bin' and ini.get('op') == '-' and const_val(ini['y']) == 0x10000:
                            val = ini['x']
            if val is None:
                ctx.undecided('C08.layout', f['pq'], role, where, 'expected d = code - 0x10000')
                continue
        # sources: trail locals alive in this region in declaration order, else input[k]
        ids = [lead['id']]
        names = {lead['id']: 'c'}
        use_idx = len(live) < nbytes - 1
        if use_idx:
            ids += [('in', k) for k in range(1, nbytes)]
            for k in range(1, nbytes):
                names[('in', k)] = 'u%d_' % k
        else:
            for j, v in enumerate(live[:nbytes - 1]):
                ids.append(v['id'])
                names[v['id']] = 'c%d_' % (j + 2)

        def leaf(e):
            if e.get('k') == 'idx' and is_input(strip(e['b'])):
                k = const_val(e['i'])
                if k is None or not 0 <= k <= 3:
                    return ['X'] * bits.W
                if k == 0:
                    return bits.var_bits(lead['id'], 8, sign_extended=True)
                return bits.var_bits(('in', k), 8, sign_extended=True)
            return None
        env = bits.Env(f, leaf=leaf, through_locals=True, prog=prog)
        env.vars[lead['id']] = bits.var_bits(lead['id'], 8, sign_extended=True)
        for v in live:
            env.vars[v['id']] = bits.var_bits(v['id'], 8, sign_extended=True)
        got = env.eval(val)
        exp = expected_decode(ids, nbytes)
        ctx.evaluations += 32
        if 'X' in got and not any(g_ != x and g_ != 'X' for g_, x in zip(got, exp)):
            ctx.undecided('C08.layout', f['pq'], role, where, 'decoded value not resolved to bits of the sequence: [%s]' % bits.show(got, names, 21))
        else:
            ctx.check(got == exp, 'C08.layout', f['pq'], role, where, bits.show(got, names, 21),
                      '%s assembles the code as [%s] (lead 0x%02x), RFC 3629 requires [%s]' % (f['q'], bits.show(got, names, 21), sample, bits.show(exp, names, 21)))


# ------------------------------------------------------------------ C08.layout by abstract interpretation (absim)

def _callees(prog, f, depth=2):
    out, seen = [], set()
    def go(g, d):
        for e in fn_exprs(g):
            if e.get('k') == 'call' and e.get('fn') and e['fn'] not in seen:
                seen.add(e['fn'])
                for h in prog.fn(e['fn'], e.get('sig')):
                    if h.get('body'):
                        out.append(h)
                        if d > 1:
                            go(h, d - 1)
                        break
    go(f, depth)
    return out


def _cut_points(prog, f, extra):
    ks = set(extra)
    for g in [f] + _callees(prog, f):
        for e in fn_exprs(g):
            if e.get('k') == 'bin' and e.get('op') in ('==', '!=', '<', '>', '<=', '>='):
                for w in walk_expr(e):
                    if w.get('k') == 'int' and const_val(w) is not None:
                        ks |= {const_val(w), const_val(w) + 1}
        for s_ in ir.walk_stmts(g['body']):
            if s_.get('k') == 'case' and s_.get('v') is not None:
                ks |= {s_['v'], s_['v'] + 1}
                if s_.get('v2') is not None:
                    ks |= {s_['v2'], s_['v2'] + 1}
    return ks


def _regions(cuts, lo, hi):
    pts = sorted(k for k in cuts if lo < k <= hi)
    out, a = [], lo
    for k in pts:
        out.append((a, k - 1))
        a = k
    out.append((a, hi))
    return out


def _ref_utf8(c, n):
    if n == 1:
        return [c]
    if n == 2:
        return [0xc0 | (c >> 6), 0x80 | (c & 0x3f)]
    if n == 3:
        return [0xe0 | (c >> 12), 0x80 | ((c >> 6) & 0x3f), 0x80 | (c & 0x3f)]
    return [0xf0 | (c >> 18), 0x80 | ((c >> 12) & 0x3f), 0x80 | ((c >> 6) & 0x3f), 0x80 | (c & 0x3f)]


def abs_encoder(ctx, prog, f, is16):
    """UTF-32 / UTF-16 -> UTF-8 encoder decided by abstract interpretation of the whole body: the code-unit domain is cut at
    every constant the function (and its helpers) compares with and at the RFC 3629 boundaries; on each region the body is
    interpreted with the unit as symbolic bits + interval, and the bytes it stores must equal, bit for bit, the RFC encoding
    computed on the same abstract value.  Surrogate pairs: first unit x second unit regions, invalid seconds give no bytes.
    -> True if every region was decided (the verdicts were recorded), False if the caller should fall back."""
    import absim, scansim
    ptr_in = [p_ for p_ in f['params'] if T(f, p_['t']).get('ptr') and T(f, T(f, p_['t']).get('to')).get('const')]
    ptr_out = [p_ for p_ in f['params'] if T(f, p_['t']).get('ptr') and not T(f, T(f, p_['t']).get('to')).get('const')]
    ints = [p_ for p_ in f['params'] if T(f, p_['t']).get('int')]
    if len(ptr_in) != 1 or len(ptr_out) != 1:
        return False

    def run_fn(values):
        bufs = {'IN': list(values) + [0], 'OUT': []}
        r = scansim.Run(prog, f, bufs, ptr_params={ptr_in[0]['id']: ('P', 'IN', 0), ptr_out[0]['id']: ('P', 'OUT', 0)},
                        int_params=dict((p_['id'], 1 << 20) for p_ in ints), growable=('OUT',))
        r.run()
        return list(bufs['OUT'])

    top = 0xffff if is16 else 0x10ffff
    cuts = _cut_points(prog, f, [0x80, 0x800, 0x10000, 0xd800, 0xdc00, 0xe000])
    width = 16 if is16 else 21
    cases = []      # (label, sources, ref_fn)
    for a, b in _regions(cuts, 1, top):
        if 0xd800 <= a and b <= 0xdfff:
            if not is16:
                continue
            if a >= 0xdc00:
                cases.append(('lone second surrogate %04x..%04x' % (a, b), [absim.Source('c', width, a, b)], lambda vals: [0]))
                continue
            for a2, b2 in _regions(cuts, 1, top):
                if 0xdc00 <= a2 and b2 <= 0xdfff:
                    def ref(vals):
                        d = (((vals[0] & 0x3ff) << 10) | (vals[1] & 0x3ff)) + 0x10000
                        return _ref_utf8(d, 4) + [0]
                    cases.append(('surrogate pair %04x..%04x, %04x..%04x' % (a, b, a2, b2), [absim.Source('c', width, a, b), absim.Source('d', width, a2, b2)], ref))
                else:
                    cases.append(('first surrogate %04x..%04x followed by %04x..%04x' % (a, b, a2, b2), [absim.Source('c', width, a, b), absim.Source('d', width, a2, b2)], lambda vals: [0]))
            continue
        n = utf8_len_of(a)
        cases.append(('U+%04X..U+%04X (%d byte%s)' % (a, b, n, 's' if n > 1 else ''), [absim.Source('c', width, a, b)], (lambda n: lambda vals: _ref_utf8(vals[0], n) + [0])(n)))
    eq = absim.eq_out(8)
    total_leaves = 0
    verdicts = []
    for label, sources, ref in cases:
        leaves, bad, und = absim.explore(sources, run_fn, ref, eq)
        total_leaves += len(leaves)
        ctx.evaluations += len(leaves) + len(und)
        if und:
            return False
        v = None
        for assign, values, got, want in bad:
            w = absim.confirm(sources, assign, run_fn, ref, 8)
            if w is None:
                return False
            v = w
            break
        verdicts.append((label, len(leaves), v))
    role = '%s:bytes stored for every code unit region' % f['n']
    badv = [(l, v) for l, n_, v in verdicts if v is not None]
    if badv:
        for label, (vals, got, want) in badv[:3]:
            ctx.violation('C08.layout', f['pq'], role + ' ' + label.split(' (')[0], fwhere(f),
                          '%s: for the input %s the interpreted body stores %s, RFC 3629 / UTF-16 requires %s (region %s)' % (f['q'], absim.hexs(vals, 32 if not is16 else 16), absim.hexs(got, 8), absim.hexs(want, 8), label))
    else:
        ctx.ok('C08.layout', f['pq'], role, fwhere(f), 'abstract interpretation over %d regions (%d cases after bit splitting): stored bytes equal the RFC 3629 encoding bit for bit%s' % (
            len(verdicts), total_leaves, '; pairs recombined as 0x10000 + (hi-0xd800)<<10 + (lo-0xdc00), invalid seconds store nothing' if is16 else ''))
    return True


def abs_decoder(ctx, prog, f, mode):
    """UTF-8 decoder (mode 'utf32' / 'utf16': stores through the output pointer; 'enum': Enumerator::operator* returning the
    code and setting n) decided by abstract interpretation: every lead byte value, with symbolic continuation bytes 10xxxxxx;
    restricted to well-formed UTF-8 (no overlong forms, no surrogates, <= U+10FFFF) the values produced must equal the RFC 3629
    payload layout bit for bit (for UTF-16 the surrogate split of code - 0x10000)."""
    import absim, scansim
    ptr_in = [p_ for p_ in f['params'] if T(f, p_['t']).get('ptr') and T(f, T(f, p_['t']).get('to')).get('const')]
    ptr_out = [p_ for p_ in f['params'] if T(f, p_['t']).get('ptr') and not T(f, T(f, p_['t']).get('to')).get('const')]
    ints = [p_ for p_ in f['params'] if T(f, p_['t']).get('int')]
    if mode != 'enum' and (len(ptr_in) != 1 or len(ptr_out) != 1):
        return False

    def run_fn(values):
        bufs = {'IN': list(values) + [0], 'OUT': []}
        if mode == 'enum':
            r = scansim.Run(prog, f, bufs, mem_ptrs={'u': ('P', 'IN', 0)}, mems={'n': 0})
            ret = r.run()
            return [ret, r.mems.get('n')]
        r = scansim.Run(prog, f, bufs, ptr_params={ptr_in[0]['id']: ('P', 'IN', 0), ptr_out[0]['id']: ('P', 'OUT', 0)},
                        int_params=dict((p_['id'], 1 << 20) for p_ in ints), growable=('OUT',))
        r.run()
        return list(bufs['OUT'])

    def ref_fn(values):
        lead = values[0] & 0xff
        tr = [v & 0x3f for v in values[1:]]
        n = len(values)
        if n == 1:
            code = lead
        elif n == 2:
            code = ((lead & 0x1f) << 6) | tr[0]
            if code < 0x80:
                raise absim.Infeasible()
        elif n == 3:
            code = ((lead & 0x0f) << 12) | (tr[0] << 6) | tr[1]
            if code < 0x800 or (code >= 0xd800 and code <= 0xdfff):
                raise absim.Infeasible()
        else:
            code = ((lead & 0x07) << 18) | (tr[0] << 12) | (tr[1] << 6) | tr[2]
            if code < 0x10000 or code > 0x10ffff:
                raise absim.Infeasible()
        if mode == 'enum':
            return [code, n]
        if mode == 'utf16' and n == 4:
            d = code - 0x10000
            return [0xd800 + (d >> 10), 0xdc00 + (d & 0x3ff), 0]
        return [code, 0]

    eq = absim.eq_out(32)
    total = 0
    first_bad = None
    nlead = 0
    for b in range(1, 256):
        n = 1 if b < 0x80 else 2 if b & 0xe0 == 0xc0 else 3 if b & 0xf0 == 0xe0 else 4 if b & 0xf8 == 0xf0 else 0
        if n == 0:
            continue                    # not a lead byte of well-formed UTF-8: outside the checked domain (bounded by R-SCAN)
        sv = b - 256 if b > 127 else b
        sources = [absim.Source('c', 8, b, b, signed=True)] + [absim.Source('t%d' % k, 8, 0x80, 0xbf, fixed={7: 1, 6: 0}, signed=True) for k in range(1, n)]
        leaves, bad, und = absim.explore(sources, run_fn, ref_fn, eq)
        total += len(leaves)
        ctx.evaluations += len(leaves) + len(und)
        nlead += 1
        if und:
            return False
        for assign, values, got, want in bad:
            w = absim.confirm(sources, assign, run_fn, ref_fn, 32)
            if w is None:
                return False
            if first_bad is None:
                first_bad = (b, n, w)
            break
    role = '%s:value decoded for every well-formed sequence' % f['n']
    if first_bad:
        b, n, (vals, got, want) = first_bad
        ctx.violation('C08.layout', f['pq'], role, fwhere(f), '%s: for the %d-byte sequence %s the interpreted body yields %s, RFC 3629 requires %s%s' % (
            f['q'], n, absim.hexs(vals, 8), absim.hexs(got, 32), absim.hexs(want, 32), ' (code, n)' if mode == 'enum' else ''))
    else:
        ctx.ok('C08.layout', f['pq'], role, fwhere(f), 'abstract interpretation for %d lead bytes x symbolic continuation bytes (%d cases): decoded value equals the RFC 3629 payload layout bit for bit%s' % (
            nlead, total, '; 4-byte sequences split into 0xd800 + (d >> 10), 0xdc00 + (d & 0x3ff)' if mode == 'utf16' else ''))
    return True


def _guarded_abs(ctx, f, thunk):
    """runs an absim decision; any failure of the interpreter itself means "not decided this way" (fallback), never a verdict"""
    import absim
    try:
        return bool(thunk())
    except (absim.Unsupported, absim.Infeasible, TypeError, KeyError, IndexError, RecursionError):
        return False


def check_layout(ctx, prog):
    # ---- encoders
    # Each codec is first decided by abstract interpretation of its whole body (absim); the store-site / guard rules below
    # are the fallback for a body the interpreter cannot follow.
    f = fn1(prog, 'asl::utf32toUtf8')
    ctx.analysed(f)
    if not _guarded_abs(ctx, f, lambda: abs_encoder(ctx, prog, f, False)):
        encoder_regions(ctx, prog, f, False)

    f = fn1(prog, 'asl::utf16toUtf8')
    ctx.analysed(f)
    if not _guarded_abs(ctx, f, lambda: abs_encoder(ctx, prog, f, True)):
        check_layout_utf16_encoder_fallback(ctx, prog, f)

    check_layout_decoders(ctx, prog)


def check_layout_utf16_encoder_fallback(ctx, prog, f):
    cv, dvars, seconds = encoder_regions(ctx, prog, f, True)
    # surrogate pair recombination: d = (((c - 0xd800) << 10) | (c2 - 0xdc00)) + 0x10000, evaluated for corner pairs
    role = 'utf16toUtf8:surrogate pair recombination'
    if len(dvars) != 1 or len(seconds) != 1:
        ctx.undecided('C08.layout', f['pq'], role, fwhere(f), 'recombined code / second unit not found')
    else:
        d = dvars[0]
        import bytesets
        bad = []
        try:
            for hi in (0xd800, 0xd801, 0xd83d, 0xd83f, 0xd840, 0xd87f, 0xdbff):
                for lo in (0xdc00, 0xdc01, 0xde00, 0xdfff):
                    got = bytesets.Evaluator(prog, f, {cv['id']: hi, seconds[0]['id']: lo}).ev(d['init']) & 0xffffffff
                    want = 0x10000 + ((hi - 0xd800) << 10) + (lo - 0xdc00)
                    ctx.evaluations += 1
                    if got != want:
                        bad.append((hi, lo, got, want))
            ctx.check(not bad, 'C08.layout', f['pq'], role, fwhere(f, d['l']), '28 corner pairs give 0x10000 + ((hi-0xd800)<<10) + (lo-0xdc00)',
                      'the surrogate pair (%04x, %04x) is recombined to U+%X instead of U+%X: characters of some supplementary planes do not survive UTF-16 -> UTF-8' % (bad[0] if bad else (0, 0, 0, 0)))
        except bytesets.Undecidable as ex:
            ctx.undecided('C08.layout', f['pq'], role, fwhere(f, d['l']), 'recombination expression not evaluable: %s' % ex)



def check_layout_decoders(ctx, prog):
    def stored_value(body):
        st = stores_through(body)
        return st[0] if st else None

    def returned_value(body):
        rets = [s_ for s_ in ir.walk_stmts(body) if s_.get('k') == 'return' and s_.get('e') is not None and const_val(s_['e']) is None]
        return rets[-1]['e'] if rets else None

    f = fn1(prog, 'asl::utf8toUtf32')
    ctx.analysed(f)
    inp = f['params'][0]['id']
    if not _guarded_abs(ctx, f, lambda: abs_decoder(ctx, prog, f, 'utf32')):
        decoder_regions(ctx, prog, f, lambda e: e.get('k') == 'var' and e.get('id') == inp)

    f = fn1(prog, 'asl::String::Enumerator::operator*')
    ctx.analysed(f)
    if not _guarded_abs(ctx, f, lambda: abs_decoder(ctx, prog, f, 'enum')):
        decoder_regions(ctx, prog, f, lambda e: e.get('k') == 'mem' and e.get('f') == 'u', strict_last=False)

    f = fn1(prog, 'asl::utf8toUtf16')
    ctx.analysed(f)
    if _guarded_abs(ctx, f, lambda: abs_decoder(ctx, prog, f, 'utf16')):
        return
    inp16 = f['params'][0]['id']
    decoder_regions(ctx, prog, f, lambda e: e.get('k') == 'var' and e.get('id') == inp16, split16=True)
    ch = find_chain(f, 4)
    if not ch or len(ch) < 4:
        ctx.undecided('C08.layout', f['pq'], 'utf8toUtf16:surrogate split', fwhere(f), 'four-way branch chain not found')
        ch = None
    b4 = ch[3][1] if ch else f['body']
    # the split is evaluated for corner codes: units = 0xd800 + ((code-0x10000) >> 10), 0xdc00 + ((code-0x10000) & 0x3ff)
    import bytesets
    dv = [v for s_ in ir.walk_stmts(b4) if s_.get('k') == 'decl' for v in s_['vars'] if strip(v.get('init') or {}).get('k') == 'bin' and strip(v['init']).get('op') == '-' and const_val(strip(v['init'])['y']) == 0x10000]
    stores4 = stores_through(b4)
    bad = []
    if dv and len(stores4) == 2:
        try:
            for code in (0x10000, 0x10001, 0x103ff, 0x10400, 0x1f600, 0x1ffff, 0x20000, 0x2ffff, 0x100000, 0x10ffff):
                dval = code - 0x10000
                got = tuple(bytesets.Evaluator(prog, f, {dv[0]['id']: dval}).ev(e) & 0xffffffff for e in stores4)
                want = (0xd800 + (dval >> 10), 0xdc00 + (dval & 0x3ff))
                ctx.evaluations += 1
                if got != want:
                    bad.append((code, got, want))
            ctx.check(not bad, 'C08.layout', f['pq'], 'utf8toUtf16:surrogate split', fwhere(f, b4.get('l')), '10 corner codes split into (0xd800 + (d >> 10), 0xdc00 + (d & 0x3ff))',
                      'U+%X is split into units %s instead of %s' % ((bad[0][0], [hex(x) for x in bad[0][1]], [hex(x) for x in bad[0][2]]) if bad else (0, [], [])))
        except bytesets.Undecidable as ex:
            ctx.undecided('C08.layout', f['pq'], 'utf8toUtf16:surrogate split', fwhere(f, b4.get('l')), 'split expressions not evaluable: %s' % ex)
    else:
        ctx.undecided('C08.layout', f['pq'], 'utf8toUtf16:surrogate split', fwhere(f, b4.get('l')), 'expected d = code - 0x10000 and two stored units')


# ------------------------------------------------------------------ C08.outbuf

ENCODERS = {'asl::utf32toUtf8': 4, 'asl::utf16toUtf8': 3}


def check_outbuf(ctx, prog):
    n = check_fixed_buffers(ctx, prog, 'C08.outbuf')
    ctx.floor('C08.outbuf fixed buffers', n, 2)   # the XDL parser's two escape sites may legitimately be one
    check_heap_destinations(ctx, prog)
    check_dataw(ctx, prog)


_PER_UNIT = {}


def encoder_max_bytes(prog, name):
    """largest number of bytes (without the terminator) the encoder writes for ONE input unit, by interpreting its body
    (scansim) on every kind of value a caller can hand it: the encoding boundaries, values beyond U+10FFFF up to INT_MAX and
    negative values (a numeric character reference is any 32-bit value).  None when the body is outside the interpreted
    fragment - the RFC figure is used then."""
    key = (id(prog), name)
    if key in _PER_UNIT:
        return _PER_UNIT[key]
    import scansim
    res = None
    fs = [g for g in prog.fn(name) if g.get('body') and len(g['params']) == 3]
    if fs:
        f = fs[0]
        wide = name.endswith('utf32toUtf8')
        codes = [1, 0x7f, 0x80, 0x7ff, 0x800, 0xd7ff, 0xd800, 0xdfff, 0xffff] + ([0x10000, 0x10ffff, 0x110000, 0x1fffff, 0x200000, 0x3ffffff, 0x4000000, 0x7fffffff, -1, -0x80000000] if wide else [])
        worst = 0
        try:
            for cde in codes:
                bufs = {'IN': [cde, 0], 'OUT': [scansim.UNINIT] * 16}
                scansim.Run(prog, f, bufs, ptr_params={f['params'][0]['id']: ('P', 'IN', 0), f['params'][1]['id']: ('P', 'OUT', 0)}, int_params={f['params'][2]['id']: 1}).run()
                wrote = max([i for i, b in enumerate(bufs['OUT']) if b != scansim.UNINIT] + [-1]) + 1
                worst = max(worst, wrote - 1)       # the last byte written is the terminator
            res = worst
        except (scansim.Unsupported, scansim.OOB, TypeError, KeyError, IndexError):
            res = None
    _PER_UNIT[key] = res
    return res


def check_fixed_buffers(ctx, prog, rule, only_file=None, enc_prog=None):
    n = 0
    for f in prog.functions:
        if only_file and not f['file'].endswith(only_file):
            continue
        if not f.get('body'):
            continue
        for e in fn_exprs(f):
            if e.get('k') != 'call' or e.get('fn') not in ENCODERS:
                continue
            per = ENCODERS[e['fn']]
            interp = encoder_max_bytes(enc_prog or prog, e['fn'])
            if interp is not None:
                per = max(per, interp)
            dest = strip(e['a'][1])
            cnt = const_val(e['a'][2])
            role = '%s:%s into `%s`' % (f['n'], e['fn'].split('::')[-1], pe(dest))
            where = fwhere(f, e['l'])
            dt = T(f, dest.get('dt') or dest.get('t'))
            if dest.get('k') == 'var' and dt.get('arr') and dt.get('n') is not None:
                n += 1
                ctx.analysed(f)
                if cnt is None:
                    choices = q.const_choices(f, e['a'][2])
                    if not choices:
                        ctx.undecided(rule, f['pq'], role, where, 'unit count is not a constant for a fixed-size destination')
                        continue
                    cnt = max(choices)
                need = (4 if (e['fn'].endswith('utf16toUtf8') and cnt == 2) else per * cnt) + 1
                ctx.evaluations += 1
                ctx.check(dt['n'] >= need, rule, f['pq'], role, where, '%d-byte buffer >= %d (max output of %d unit(s) + NUL)' % (dt['n'], need, cnt),
                          '`%s` has %d bytes but %s may write %d bytes for %d unit(s) (the encoder always appends a NUL): stack buffer overflow on a %d-byte code' % (pe(dest), dt['n'], e['fn'].split('::')[-1], need, cnt, per if cnt == 1 else 4))
    return n


def check_heap_destinations(ctx, prog):
    # heap destinations sized 4 bytes per code
    import bounded
    for name, sig, factor in (('asl::String::fromCodes', None, 4), ('asl::String::fromCode', None, 4)):
        f = fn1(prog, name, sig)
        ctx.analysed(f)
        role = f['n'] + ':4 bytes per code'
        encs = [e for e in fn_exprs(f) if e.get('k') == 'call' and e.get('fn') in ENCODERS]
        if len(encs) != 1:
            ctx.undecided('C08.outbuf', f['pq'], role, fwhere(f), '%d encoder calls' % len(encs))
            continue
        enc = encs[0]
        dest = strip(q.expand(f, enc['a'][1]))
        while dest.get('k') in ('cast', 'paren'):
            dest = strip(dest['e'])
        ddt = T(f, dest.get('dt') or dest.get('t'))
        if dest.get('k') == 'var' and ddt.get('arr') and ddt.get('n') is not None:
            ctx.ok('C08.outbuf', f['pq'], role, fwhere(f, enc['l']), 'destination is the fixed buffer `%s`, sized by the fixed-buffer rule' % pe(dest))
            continue
        owner = strip_lv(dest.get('obj') or {}) if dest.get('k') == 'call' else {}
        cap_e = None
        if owner.get('k') == 'var':
            for s_ in ir.walk_stmts(f['body']):
                if s_.get('k') == 'decl':
                    for v in s_['vars']:
                        ini = strip(v.get('init') or {})
                        if v['id'] == owner.get('id') and ini.get('k') == 'construct' and ini.get('cls') == 'asl::String' and ini.get('a'):
                            cap_e = ini['a'][0]
        if cap_e is None:
            # a destination pointer that walks through the buffer (streaming encoder): the only sizing visible statically is the
            # capacity the local String is constructed with - a constant >= 4 or a product with a factor >= 4
            ok = False
            for s_ in ir.walk_stmts(f['body']):
                if s_.get('k') == 'decl':
                    for v in s_['vars']:
                        ini = strip(v.get('init') or {})
                        if ini.get('k') == 'construct' and ini.get('cls') == 'asl::String' and ini.get('a'):
                            a0 = strip(q.expand(f, ini['a'][0]))
                            if const_val(a0) is not None:
                                ok = ok or const_val(a0) >= factor
                            elif a0.get('k') == 'bin' and a0.get('op') == '*' and (const_val(a0['y']) or const_val(a0['x']) or 0) >= factor:
                                ok = True
            if ok:
                ctx.ok('C08.outbuf', f['pq'], role, fwhere(f, enc['l']), 'destination walks through a String constructed with 4 bytes per code')
            else:
                ctx.undecided('C08.outbuf', f['pq'], role, fwhere(f, enc['l']), 'destination `%s` is neither a fixed buffer nor the text of a local String constructed with a capacity' % pe(dest))
            continue
        # capacity and unit count evaluated with every length the expressions mention bound to L = 0..6
        cap_x, cnt_x = q.expand(f, cap_e), q.expand(f, enc['a'][2])
        texts = set(pe(w) for x in (cap_x, cnt_x) for w in walk_expr(x) if w.get('k') == 'call' and (w.get('pq') or '').split('::')[-1] in ('length', 'size'))
        bad = und = None
        for L in range(0, 7):
            ev = bounded.Bound(prog, f, {}, dict((t_, L) for t_ in texts))
            try:
                cap_v, cnt_v = ev.ev(cap_x), ev.ev(cnt_x)
            except Exception as u_:
                und = str(u_)
                break
            ctx.evaluations += 1
            if not isinstance(cap_v, int) or not isinstance(cnt_v, int):
                und = 'capacity `%s` / count `%s` not evaluable' % (pe(cap_e), pe(enc['a'][2]))
                break
            if cap_v < factor * cnt_v:
                bad = (L, cap_v, cnt_v)
                break
        if und:
            ctx.undecided('C08.outbuf', f['pq'], role, fwhere(f, enc['l']), und)
        else:
            ctx.check(bad is None, 'C08.outbuf', f['pq'], role, fwhere(f), 'capacity `%s` >= 4 x `%s` for lengths 0..6' % (pe(cap_e), pe(enc['a'][2])),
                      '%s sizes its destination with fewer than 4 bytes per code (length %s: capacity %s for %s code(s))' % ((name,) + (bad or (0, 0, 0))))
    f = fn1(prog, 'asl::String::String', '(const wchar_t *)')
    ctx.analysed(f)
    ok = any(e.get('k') == 'bin' and e.get('op') == '*' and (const_val(e['x']) or 0) >= 3 for e in fn_exprs(f))
    ctx.check(ok, 'C08.outbuf', f['pq'], 'String(const wchar_t*):bytes per unit', fwhere(f), 'destination sized >= 3 bytes per UTF-16 unit', 'String(const wchar_t*) sizes its destination with fewer than 3 bytes per unit')


def check_dataw(ctx, prog):
    """C08.outbuf, String::dataw(): the wide copy lives behind the 8-bit text in the same buffer, at an aligned offset.  For every
    length 0..96 the reservation, the offset and the number of wide units the converter may write (count + terminator) are
    evaluated: offset + units * sizeof(wchar_t) must fit the capacity that resize(n) guarantees (n + 1 bytes)."""
    import bounded, bytesets
    fs_ = [g_ for g_ in prog.fn('asl::String::dataw') if g_.get('body') and any(e.get('k') == 'call' and e.get('pq') == 'asl::String::resize' for e in fn_exprs(g_))]
    if not fs_:
        raise AnalysisBroken('anchor asl::String::dataw (the overload that reserves the wide copy) not found')
    f = fs_[0]
    ctx.analysed(f)
    role = 'dataw:wide copy fits behind the text'
    rs = [e for e in fn_exprs(f) if e.get('k') == 'call' and e.get('pq') == 'asl::String::resize' and e.get('a')]
    convs = [e for e in fn_exprs(f) if e.get('k') == 'call' and not e.get('clsp') and len(e.get('a', [])) == 3 and
             T(f, strip_lv(e['a'][1]).get('t')).get('ptr') and T(f, T(f, strip_lv(e['a'][1]).get('t')).get('to')).get('bits') == 32]
    if len(rs) != 1 or len(convs) != 1:
        ctx.undecided('C08.outbuf', f['pq'], role, fwhere(f), 'reservation / conversion call not found (%d, %d)' % (len(rs), len(convs)))
        return
    dst = q.expand(f, convs[0]['a'][1])
    offs = [w for w in walk_expr(dst) if w.get('k') == 'bin' and w.get('op') == '+' and any(x.get('k') == 'call' and (x.get('pq') or '').endswith('String::str') for x in walk_expr(w['x']))]
    if not offs:
        ctx.undecided('C08.outbuf', f['pq'], role, fwhere(f), 'destination `%s` is not str() + offset' % pe(dst))
        return
    wsz = 4
    bad = None
    # a String never has less than its inline buffer: resize(n) guarantees max(n + 1, inline size) bytes
    inline = 0
    for r_ in prog.records.values():
        if r_['q'].startswith('asl::String'):
            for fld in r_.get('fields', []):
                if fld['n'] == '_space':
                    inline = max(inline, T(r_, fld['t']).get('n') or 0)
    try:
        for L in range(0, 97):
            def bind(x, L=L):
                if x.get('k') == 'mem' and x.get('f') == '_len':
                    return L
                return None
            ev = bounded.Bound(prog, f, {}, {}, bind=bind)
            R = ev.ev(rs[0]['a'][0])
            off = ev.ev(q.expand(f, offs[0]['y']))
            units = ev.ev(convs[0]['a'][2]) + 1
            ctx.evaluations += 1
            if off % wsz:
                bad = 'for a %d-byte text the wide copy starts at the unaligned offset %d' % (L, off)
                break
            if off < L + 1:
                bad = 'for a %d-byte text the wide copy starts at offset %d, inside the text and its terminator' % (L, off)
                break
            if off + units * wsz > max(R + 1, inline):
                bad = 'for a %d-byte text resize(%d) guarantees %d bytes but the wide copy (%d units of %d bytes at offset %d) ends at byte %d: the terminator is written past the buffer' % (L, R, max(R + 1, inline), units, wsz, off, off + units * wsz)
                break
    except bytesets.Undecidable as u:
        ctx.undecided('C08.outbuf', f['pq'], role, fwhere(f), 'sizes not evaluable: %s' % u)
        return
    ctx.check(bad is None, 'C08.outbuf', f['pq'], role, fwhere(f, rs[0].get('l')), 'lengths 0..96: aligned offset behind the text, offset + (len + 1) * 4 within the reserved capacity', 'String::dataw(): %s' % bad)


# ------------------------------------------------------------------ C08.case

def utf8_len(code):
    return 1 if code < 0x80 else 2 if code < 0x800 else 3 if code < 0x10000 else 4


def check_case(ctx, prog):
    tabs = {}
    for name in ('asl::toUppercaseU8', 'asl::toLowercaseU8'):
        g = prog.globals.get(name)
        if not g or 'init' not in g or g['init'].get('k') != 'str':
            raise AnalysisBroken('case table %s not found as a string-literal initialised array' % name)
        tabs[name] = g['init']['b'] + [0]
    # largest table index the guards admit, by evaluation: the code variables of the index are bound to every value of
    # 0..4095, the guards of the access (and, for an access inside a helper, of its call sites in the three functions) are
    # evaluated, and the index expression itself is evaluated for the admitted values
    import bounded, bytesets
    max_idx = {}
    cut = {}
    targets = {}
    for fname in ('toUpperCase', 'toLowerCase', 'equalsNocase'):
        f = fn1(prog, 'asl::String::' + fname)
        ctx.analysed(f)
        targets[fname] = f

    def resolve_base(h, b, depth=0):
        """pointer expression -> (root, offsets): root = ('tab', name) for a case table, ('param', k) for the k-th parameter
        of h; offsets = the expressions added to the root on the way (locals are read through their single definition)"""
        b = strip(b)
        if depth > 6:
            return None, []
        if b.get('k') == 'var' and b.get('q') in tabs:
            return ('tab', b['q']), []
        if b.get('k') == 'var' and b.get('vk') == 'param':
            for k_, p_ in enumerate(h['params']):
                if p_['id'] == b.get('id'):
                    return ('param', k_), []
            return None, []
        if b.get('k') == 'var':
            d = q.single_defs(h).get(b.get('id'))
            return resolve_base(h, d, depth + 1) if d is not None else (None, [])
        if b.get('k') == 'bin' and b.get('op') == '+':
            for x, y in ((b['x'], b['y']), (b['y'], b['x'])):
                if T(h, strip_lv(x).get('t')).get('ptr') or T(h, strip(x).get('t')).get('ptr') or T(h, strip(x).get('t')).get('n') is not None or \
                        (strip(x).get('k') == 'var' and strip(x).get('q') in tabs) or any(w.get('k') == 'var' and w.get('q') in tabs for w in walk_expr(x)):
                    r, offs = resolve_base(h, x, depth + 1)
                    if r is not None:
                        return r, offs + [y]
            return None, []
        if b.get('k') == 'un' and b.get('op') == '&' and strip_lv(b['e']).get('k') == 'idx':
            r, offs = resolve_base(h, strip_lv(b['e'])['b'], depth + 1)
            return r, offs + [strip_lv(b['e'])['i']]
        return None, []

    def accesses(h, want_params=False):
        """table reads of h: (expression, table name or parameter index, index expressions to be summed)"""
        out = []
        for e in fn_exprs(h):
            if e.get('k') == 'idx':
                r, offs = resolve_base(h, e['b'])
                idxs = offs + [e['i']]
            elif e.get('k') == 'un' and e.get('op') == '*':
                r, offs = resolve_base(h, e['e'])
                idxs = offs
            else:
                continue
            if r is None or not idxs:
                continue
            if r[0] == 'tab' or want_params:
                out.append((e, r, idxs))
        return out
    GRID = range(0, 4096)
    for fname, f in targets.items():
        G = q.Guarded(f)
        sites = [(e, None, None, r[1], idxs) for e, r, idxs in accesses(f)]
        for c in fn_exprs(f):
            if c.get('k') == 'call' and c.get('fn') and not c.get('clsp'):
                for h in prog.fn(c['fn'], c.get('sig')):
                    if h.get('body') and h is not f:
                        for e, r, idxs in accesses(h, want_params=True):
                            if r[0] == 'tab':
                                sites.append((e, c, h, r[1], idxs))
                            elif r[1] < len(c.get('a', [])):
                                # the table is handed to the helper as a pointer argument
                                r2, offs2 = resolve_base(f, c['a'][r[1]])
                                if r2 is not None and r2[0] == 'tab' and not offs2:
                                    sites.append((e, c, h, r2[1], idxs))
        for e, call, h, tab, idxs in sites:
            ff, GG = f, G
            if call is not None:
                # index built from the helper's own locals (e.g. the code it decodes itself): decided inside the helper
                pids = set(p_['id'] for p_ in h['params'])
                local_atoms = False
                try:
                    for ix in idxs:
                        bi, bt = bounded.atoms_of(prog, h, ix, allow_assigned=tuple(bounded.assigned_vars(h)))
                        if bt or any(i not in pids for i in bi):
                            local_atoms = True
                except bytesets.Undecidable:
                    local_atoms = False
                if local_atoms:
                    ff, GG, call = h, q.Guarded(h), None
            try:
                if call is None:
                    by_id, by_text = {}, {}
                    for ix in idxs:
                        bi, bt = bounded.atoms_of(prog, ff, ix, allow_assigned=tuple(bounded.assigned_vars(ff)))
                        by_id.update(bi)
                        by_text.update(bt)
                    guards = GG.of(e)
                else:
                    by_id, by_text = {}, {}
                    for a_ in call.get('a', []):
                        bi, bt = bounded.atoms_of(prog, f, a_, allow_assigned=tuple(bounded.assigned_vars(f)))
                        by_id.update(bi)
                        by_text.update(bt)
                    guards = G.of(call)
            except bytesets.Undecidable as u:
                ctx.undecided('C08.case', f['pq'], fname + ':table index guard', fwhere(f, (call or e)['l']), str(u))
                continue
            top = None
            rel = lambda c_: any((w.get('k') == 'var' and w.get('id') in by_id) or (w.get('k') in ('call', 'mem') and pe(w) in by_text) for w in walk_expr(q.expand(ff, c_, bools_only=True)))
            try:
                for v in GRID:
                    ev = bounded.Bound(prog, ff if call is None else f, dict((i, v) for i in by_id), dict((t, v) for t in by_text))
                    if not bounded.admitted(ev, guards, GG if call is None else G):
                        continue
                    if call is None:
                        iv = sum(ev.ev(ix) for ix in idxs)
                    else:
                        env = {}
                        for p_, a_ in zip(h['params'], call.get('a', [])):
                            env[p_['id']] = ev.ev(a_)
                        Gh = q.Guarded(h)
                        evh = bounded.Bound(prog, h, env, {})
                        if not bounded.admitted(evh, Gh.of(e), Gh):
                            continue
                        iv = sum(evh.ev(ix) for ix in idxs)
                    ctx.evaluations += 1
                    if top is None or iv > top[0]:
                        top = (iv, v)
            except bytesets.Undecidable as u:
                ctx.undecided('C08.case', f['pq'], fname + ':table index guard', fwhere(f, (call or e)['l']), 'index `%s` not evaluable: %s' % (' + '.join(pe(ix) for ix in idxs), u))
                continue
            if top is None:
                continue
            if top[1] >= GRID[-1]:
                ctx.violation('C08.case', f['pq'], fname + ':table index guard', fwhere(f, (call or e)['l']), 'no dominating bound on the index of %s (`%s` admitted for every code up to %d): out-of-bounds table read' % (tab, ' + '.join(pe(ix) for ix in idxs), top[1]))
                continue
            key = (fname, tab)
            if key not in max_idx or top[0] > max_idx[key][0]:
                max_idx[key] = top
            cut[fname] = max(cut.get(fname, 0), top[1])
    if len(max_idx) < 3:
        raise AnalysisBroken('case-table accesses not found in toUpperCase/toLowerCase/equalsNocase: %s' % max_idx)
    for (fname, tab), (mx, code) in sorted(max_idx.items()):
        need = mx + 1
        have = len(tabs[tab])
        ctx.evaluations += 1
        ctx.check(have >= need, 'C08.case', 'asl::String::' + fname, fname + ':table covers the admitted indices', '/repo/src/unicodedata.cpp:0',
                  '%s has %d bytes >= %d' % (tab, have, need), '%s admits code points up to %d (table index %d, needs %d bytes) but %s has %d bytes: out-of-bounds table read' % (fname, code, mx, need, tab, have))
    for name, tab in tabs.items():
        upper = 'Upper' in name
        bad_ascii = []
        grows = []
        rows = len(tab) // 2
        for code in range(rows):
            c1, c2 = tab[2 * code], tab[2 * code + 1]
            ctx.evaluations += 1
            if code < 128:
                want = ord(chr(code).upper()) if upper else ord(chr(code).lower())
                if c2 != 0 or c1 != want:
                    bad_ascii.append(code)
            rowlen = 1 if c2 == 0 else 2
            if rowlen > utf8_len(code):
                grows.append(code)
        ctx.check(not bad_ascii, 'C08.case', name, 'ASCII rows are the C-locale mapping', '/repo/src/unicodedata.cpp:0', '128 rows checked',
                  'rows %s of %s are not the one-byte C-locale %s-case mapping' % (bad_ascii[:8], name, 'upper' if upper else 'lower'))
        ctx.check(not grows, 'C08.case', name, 'no row longer than the encoding of its index', '/repo/src/unicodedata.cpp:0', '%d rows checked' % rows,
                  'rows %s of %s map a code point to more bytes than its own UTF-8 form: case mapping grows past the output buffer' % (grows[:8], name))
    # cut-over agreement: rows between the two cut-overs are the identity
    lo, hi = cut.get('toLowerCase'), cut.get('equalsNocase')
    if lo is not None and hi is not None:
        tab = tabs['asl::toLowercaseU8']
        bad = []
        for code in range(min(lo, hi) + 1, max(lo, hi) + 1):
            enc = chr(code).encode('utf-8')
            row = bytes(tab[2 * code:2 * code + 2]).rstrip(b'\x00') if 2 * code + 1 < len(tab) else None
            if row != enc:
                bad.append(code)
        ctx.check(not bad, 'C08.case', 'asl::String::equalsNocase', 'cut-over rows are the identity', fwhere(fn1(prog, 'asl::String::equalsNocase')),
                  'toLowerCase maps codes <= %d, equalsNocase <= %d through the table; rows in between are identity' % (lo, hi),
                  'equalsNocase compares codes up to %d through the lower-case table while toLowerCase stops at %d, and rows %s are not the identity: the two disagree there' % (hi, lo, bad))
    # no byte-length shortcut in the UTF-8 comparison
    f = fn1(prog, 'asl::String::equalsNocase')
    short = []
    for e in fn_exprs(f):
        if e.get('k') == 'bin' and e.get('op') in ('!=', '==', '<', '>'):
            sides = [strip(e['x']), strip(e['y'])]
            if all((s_.get('k') == 'call' and (s_.get('pq') or '').endswith('String::length')) or (s_.get('k') == 'mem' and s_.get('f') == '_len') for s_ in sides):
                short.append(e)
    ctx.check(not short, 'C08.case', f['pq'], 'equalsNocase:no byte-length shortcut', fwhere(f, short[0]['l'] if short else None), 'compares code points only',
              'equalsNocase decides on the byte lengths (`%s`): strings whose lower-cased forms are equal but whose encodings differ in length (U+0130 vs i) compare unequal' % (pe(short[0]) if short else ''))


def conj_or(c):
    c = strip(c)
    if c.get('k') == 'bin' and c.get('op') == '||':
        return conj_or(c['x']) + conj_or(c['y'])
    return [c]


def check_count(ctx, prog):
    """C08.count: String::count() - the number of code points - agrees with the decoder on valid text.  count() is interpreted
    (scansim) on valid UTF-8 strings built by the checker's own encoder: every valid lead byte (C2..F4) with its smallest and
    largest continuation, alone, between ASCII characters and next to each other; the expected result is the number of code
    points encoded (what chars() returns for the same text, C08.layout)."""
    import scansim
    f = fn1(prog, 'asl::String::count', '()const')
    ctx.analysed(f)
    role = 'count():code points of valid UTF-8'

    def seq_for_lead(lead, hi):
        if lead < 0xe0:
            lo_c, hi_c = (lead & 0x1f) << 6, ((lead & 0x1f) << 6) | 0x3f
        elif lead < 0xf0:
            lo_c, hi_c = max((lead & 0x0f) << 12, 0x800), ((lead & 0x0f) << 12) | 0xfff
            if lead == 0xed:
                hi_c = 0xd7ff
        else:
            lo_c, hi_c = max((lead & 0x07) << 18, 0x10000), min(((lead & 0x07) << 18) | 0x3ffff, 0x10ffff)
        c = hi_c if hi else lo_c
        return c, _ref_utf8(c, utf8_len_of(c))
    cps = []
    for lead in range(0xc2, 0xf5):
        for hi in (False, True):
            c, b = seq_for_lead(lead, hi)
            assert b[0] == lead, (hex(lead), hex(c), b)
            cps.append((c, b))
    texts = []
    for c, b in cps:
        texts.append(([c], b))
        texts.append(([0x41, c, 0x7a], [0x41] + b + [0x7a]))
    for (c1, b1), (c2, b2) in zip(cps, cps[7:] + cps[:7]):
        texts.append(([c1, c2], b1 + b2))
    texts.append(([], []))
    texts.append(([0x7f, 0x01], [0x7f, 0x01]))
    bad = und = None
    for codes, by in texts:
        bufs = {'T': [x - 256 if x >= 128 else x for x in by] + [0]}
        r = scansim.Run(prog, f, bufs, call_ptrs={'str': ('P', 'T', 0), 'data': ('P', 'T', 0)}, methods={'*': 'interp'}, mems={'_len': len(by)}, objects=True)
        ctx.evaluations += 1
        try:
            got = r.run()
        except scansim.OOB as o:
            bad = 'count() of the valid text %s reads outside it: %s' % (' '.join('%02x' % x for x in by), o)
            break
        except (scansim.Unsupported, TypeError, KeyError) as u:
            und = str(u)
            break
        if got != len(codes):
            bad = 'count() of the valid text %s (%s) is %s, not %d: it disagrees with chars() and the iteration on that text' % (
                ' '.join('%02x' % x for x in by), ' '.join('U+%04X' % c for c in codes), got, len(codes))
            break
    if und:
        ctx.undecided('C08.count', f['pq'], role, fwhere(f), 'outside the interpreted fragment: %s' % und)
    else:
        ctx.check(bad is None, 'C08.count', f['pq'], role, fwhere(f), 'interpreted on %d valid texts covering every lead byte C2..F4 with its extreme continuations' % len(texts), bad or '')


def interp_term_site(prog, g, call, si, ni, safe):
    """-> ('ok', text) | ('bad', text) | None.  g is interpreted (scansim, object model) for argument arrays of 0, 1 and 3
    non-zero elements; the converter call is replaced by a probe that reads the source the way the converter does (unit
    before count): it must meet a terminator inside the source's storage, or be counted with n >= 1 where n bounds the reads."""
    import scansim
    arr_params = [p_ for p_ in g['params'] if T(g, p_['t']).get('ref') and T(g, T(g, p_['t']).get('to')).get('recp') == 'asl::Array']
    if len(arr_params) != 1 or len(g['params']) != 1:
        return None
    shapes = ([], [0x41], [0x41, 0x20ac, 0x42])
    for vals in shapes:
        probe = {'seen': False}

        def conv(run, e, args, probe=probe):
            probe['seen'] = True
            src = args[si]
            n_ = args[ni] if ni is not None else None
            if not (isinstance(src, tuple) and src[0] == 'P'):
                raise scansim.Unsupported('source of the converter')
            j = 0
            while True:
                if isinstance(n_, int) and n_ >= 1 and safe.get(1) and j >= n_:
                    break
                u = run.load(('P', src[1], src[2] + j), e.get('l'))        # OOB when the walk leaves the storage
                if u == 0:
                    break
                j += 1
            return j
        pid = arr_params[0]['id']
        bufs = {('O', pid): list(vals), 'OUT': []}
        r = scansim.Run(prog, g, bufs, growable=('OUT',), call_ptrs={'str': ('P', 'OUT', 0), 'data': ('P', 'OUT', 0)},
                        methods={'init': lambda run, e, args: 0, 'alloc': lambda run, e, args: 0, 'cap': lambda run, e, args: 1 << 20, 'fix': lambda run, e, args: 0, '*': 'interp'},
                        externs={call['fn']: conv}, objects=True, mems={'_len': 0, '_size': 0})
        r.objlen[pid] = len(vals)
        try:
            r.run()
        except scansim.OOB as o:
            return 'bad', 'for an argument array of %d element(s) the source handed to %s has no terminator inside its storage - the converter tests the unit before the count and reads past it (%s)' % (len(vals), call['fn'].split('::')[-1], o)
        except (scansim.Unsupported, TypeError, KeyError, IndexError, AttributeError):
            return None
        if not probe['seen']:
            return None
    return 'ok', 'interpreted for argument arrays of 0, 1 and 3 elements: the converter meets a terminator inside the source it is handed'


def check_case_bytes(ctx, prog):
    """C08.casebytes: on arbitrary bytes the case mappings stay inside their buffers and never produce more bytes than the
    input.  toUpperCase() / toLowerCase() are interpreted (scansim, the result String bounds-checked) on every string of
    length <= 2 (<= 3 in the thorough tier) over the boundary-byte alphabet 41 61 7F 80 BF C0 C2 DF E0 EF F0 F4 F7 F8 FF."""
    import scansim, itertools
    alpha = (0x41, 0x61, 0x7f, 0x80, 0xbf, 0xc0, 0xc2, 0xdf, 0xe0, 0xef, 0xf0, 0xf4, 0xf7, 0xf8, 0xff)
    for name in ('asl::String::toUpperCase', 'asl::String::toLowerCase'):
        g = fn1(prog, name)
        ctx.analysed(g)
        role = '%s:ill-formed bytes stay in bounds, result not longer than the input' % g['n']
        bad = und = None
        runs = 0
        for L in range(1, 4 if ctx.tier == 'thorough' else 3):
            for t in itertools.product(alpha, repeat=L):
                by = [b - 256 if b > 127 else b for b in t]
                bufs = {'T': by + [0]}
                r = scansim.Run(prog, g, bufs, call_ptrs={'str': ('P', 'T', 0)}, methods={'*': 'interp'}, mems={'_len': L}, objects=True)
                runs += 1
                shown = ' '.join('%02X' % b for b in t)
                try:
                    ret = r.run()
                    out = bufs[ret[1]]
                except scansim.OOB as o:
                    bad = '%s() of the bytes %s: %s (the result is sized from the input length)' % (g['n'], shown, o)
                    break
                except (scansim.Unsupported, TypeError, KeyError, IndexError, ValueError) as u:
                    und = str(u)
                    break
                if 0 not in out or out.index(0) > L:
                    bad = '%s() of the %d byte(s) %s gives %s byte(s): case mapping must not produce more bytes than its input' % (g['n'], L, shown, out.index(0) if 0 in out else 'unterminated')
                    break
            if bad or und:
                break
        ctx.evaluations += runs
        if und:
            ctx.undecided('C08.casebytes', g['pq'], role, fwhere(g), 'outside the interpreted fragment: %s' % und)
        else:
            ctx.check(bad is None, 'C08.casebytes', g['pq'], role, fwhere(g), 'interpreted on %d byte strings over the boundary alphabet' % runs, bad or '')


def check_nocase(ctx, prog):
    """C08.nocase: case-insensitive equality coincides with equality of the lower-cased forms.  `toLowerCase()` and
    `equalsNocase()` are interpreted (scansim; the enumerators as modelled records, the case tables read from their
    initialisers) on one-character strings: every ASCII character and a sample of Latin-1, Latin Extended, Greek, Cyrillic and
    the characters around the tables' limit, each paired with itself, its case partner, the character that differs in bit 5,
    its successor and a few fixed characters.  equalsNocase(a, b) must be true exactly when the lower-cased forms are equal."""
    import scansim
    fe = fn1(prog, 'asl::String::equalsNocase')
    fl = fn1(prog, 'asl::String::toLowerCase')
    ctx.analysed(fe)
    role = 'equalsNocase:equal exactly when the lower-cased forms are equal'

    def enc(c):
        return [b - 256 if b > 127 else b for b in chr(c).encode('utf-8')]

    fu = fn1(prog, 'asl::String::toUpperCase')
    lenbad = []

    def fold(g, c):
        by = enc(c)
        bufs = {'T': by + [0]}
        r = scansim.Run(prog, g, bufs, call_ptrs={'str': ('P', 'T', 0)}, methods={'*': 'interp'}, mems={'_len': len(by)}, objects=True)
        ret = r.run()
        out = bufs[ret[1]]
        if out.index(0) != len(out) - 1 and not lenbad:
            # the result object's length is not the offset of its first NUL: comparisons by length and by C string disagree
            lenbad.append('%s() of U+%04X returns a String of length %d whose text ends after %d byte(s): length() != strlen(), the result compares unequal to the same text built any other way' % (
                g['n'], c, len(out) - 1, out.index(0)))
        return tuple(x & 255 for x in out[:out.index(0)])

    def lower(c):
        return fold(fl, c)

    def eqn(c1, c2):
        b1, b2 = enc(c1), enc(c2)
        bufs = {'T': b1 + [0]}
        r = scansim.Run(prog, fe, bufs, call_ptrs={'str': ('P', 'T', 0)}, methods={'*': 'interp'}, mems={'_len': len(b1)}, objects=True)
        pid = fe['params'][0]['id']
        bufs[('O', pid)] = b2 + [0]
        r.objlen[pid] = len(b2)
        r.strobjs.add(pid)
        return bool(r.run())
    sample = list(range(1, 128))
    extra = [0xc0, 0xc9, 0xd7, 0xdf, 0xe0, 0xe9, 0xf7, 0xff, 0x100, 0x101, 0x130, 0x131, 0x178, 0x17f, 0x391, 0x3a3, 0x3b1, 0x3c2, 0x3c3, 0x410, 0x42f, 0x430, 0x44f, 0x450, 0x531, 0x561, 1414, 1415, 1416, 0x20ac, 0x1f600]
    if ctx.tier == 'thorough':
        extra = sorted(set(extra + list(range(0x80, 0x250)) + list(range(0x370, 0x590))))
    bad = und = None
    runs = 0
    try:
        L = {}
        for c in sample + extra + [0x130, 0x131, 0x17f]:
            L[c] = lower(c)
            up = fold(fu, c)
            runs += 2
            if c < 128 and (bytes(L[c]) != chr(c).lower().encode() or bytes(up) != chr(c).upper().encode()) and bad is None:
                bad = 'U+%04X: toLowerCase gives %s, toUpperCase gives %s' % (c, bytes(L[c]), bytes(up))
        if lenbad:
            bad = lenbad[0]
        fixed = [0x40, 0x60, 0x5b, 0x7b, 0x41, 0x61]
        for c1 in (sample + extra if bad is None else []):
            low1 = bytes(L[c1]).decode('utf-8', 'replace')
            partners = {c1, c1 ^ 0x20, c1 + 1}
            if len(low1) == 1:
                partners.add(ord(low1))
            if c1 < 128:
                partners |= set(fixed)
            for c2 in sorted(partners):
                if c2 < 1 or c2 > 0x10ffff or 0xd800 <= c2 <= 0xdfff:
                    continue
                if c2 not in L:
                    L[c2] = lower(c2)
                    runs += 1
                got = eqn(c1, c2)
                runs += 1
                want = L[c1] == L[c2]
                if got != want:
                    bad = 'U+%04X %s U+%04X: equalsNocase says %s, the lower-cased forms are %s (%s / %s)' % (
                        c1, 'vs', c2, 'equal' if got else 'different', 'equal' if want else 'different', ' '.join('%02x' % x for x in L[c1]), ' '.join('%02x' % x for x in L[c2]))
                    break
            if bad:
                break
    except scansim.OOB as o:
        bad = 'out-of-bounds access while folding a one-character string: %s' % o
    except (scansim.Unsupported, TypeError, KeyError, IndexError, ValueError) as u:
        und = str(u)
    ctx.evaluations += runs
    if und:
        ctx.undecided('C08.nocase', fe['pq'], role, fwhere(fe), 'outside the interpreted fragment: %s' % und)
    else:
        ctx.check(bad is None, 'C08.nocase', fe['pq'], role, fwhere(fe), 'interpreted for %d (character, character) pairs / foldings' % runs, bad or '')
